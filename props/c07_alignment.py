"""C07 - alignments recover exact maps, fit optimally where promised, and interpolate.

Clauses (numbers as in DESIGN.md section 3, C07):
  recover           1  noise-free target made by a member of the class's own family -> that member's matrix
  optimal           2  translation / rotation (about the origin) / affine are least-squares optimal:
                       reference optimum (centroid difference, closed-form / Horn rotation, lstsq) and a
                       competitor search around the fit
  scale_similarity  3  uniform scale reproduces the target's size; similarity reproduces centroid and size and
                       uses the least-squares rotation (least-squares *scale* is not promised, not asserted)
  interpolate       4  TPS (3 kernels) and PWA (both implementations, Delaunay / explicit TriMesh source)
                       send every source landmark onto its target landmark
  pwa_affine        5  PWA equals the barycentric map of the containing triangle, is continuous across shared
                       edges, has vanishing second differences inside a triangle
  bookkeeping       6  aligned_source() == apply(source), alignment_error() == |target - aligned|_F,
                       target / source are what was passed in, inputs unchanged - every alignment class
  gpa               7  GeneralizedProcrustesAnalysis transforms: bookkeeping, and with target=None equal to a
                       fresh AlignmentSimilarity onto gpa.target and to the reference similarity;
                       mean_alignment_error() is the mean of the transforms' Frobenius errors
  retarget          8  clauses 1-4 and 6 on a RE-USED object: after copy(), pseudoinverse() (an alignment from the old
                       target onto the old source), compose_*_inplace, an in-place edit of the held target, and
                       set_target (same object / equal copy / new / exact family image) the alignment is the class's
                       fit of its CURRENT source onto its CURRENT target
Input families added in the strengthening round: int64 sources / targets for every class (rounded coordinates), explicit
source triangulations that are NOT the Delaunay one (flipped diagonals, a removed triangle), TriMesh targets carrying a
triangulation of their own, exact affine targets probed OFF the landmarks (TPS / PWA recover their own family), the public
fit kernels optimal_rotation_matrix / procrustes_alignment called directly with their documented defaults.
All references live in vlib/refs_align.py (numpy only, no SVD-Kabsch on the reference side).
"""
import math

import numpy as np
from hypothesis import strategies as st

from vlib.runner import Clause
from vlib import gen, digest
from vlib import refs_align as R
from vlib.tol import close, describe, maxdiff

import menpo.transform as mt
from menpo.transform import rbf as mrbf
from menpo.transform import GeneralizedProcrustesAnalysis
from menpo.transform.homogeneous.rotation import optimal_rotation_matrix
from menpo.transform.homogeneous.similarity import procrustes_alignment
from menpo.transform.piecewiseaffine.base import CachedPWA, PythonPWA, TriangleContainmentError
from menpo.shape import PointCloud, TriMesh

PROPERTY = "C07"
RULE = (
    "Hypothesis draws a source of 3..20 points (d+1..20 in 3-D) as a jittered lattice in general position "
    "(relative smallest singular value of the centred set > 0.05) shifted by a drawn offset, an alignment class "
    "with its constructor options, a generating family member (own family, or a foreign one: reflected similarity, "
    "reflection about the origin, affine) and a noise level in {0, 1e-3, 0.05, 0.5} x extent with drawn per-point "
    "noise; target = member(source) + noise is computed deterministically from the case. Non-trivial: recovery - "
    "the member differs from the identity by > 1 % in some matrix entry; optimality / scale / similarity - the "
    "target is not reproduced exactly by the fit's family (reference residual > 0); interpolation / PWA - target "
    "differs from source (and for TPS the bordered system's smallest singular value is >= 100 x the truncation "
    "floor); bookkeeping / GPA - the alignment error is non-zero; retarget - the map after the drawn sequence of "
    "copy / pseudoinverse / in-place composition / target edit / set_target steps differs from the map after "
    "construction. About a third of the sources and of the targets are handed over as int64 arrays (source mapped onto "
    "~64 integer units, target rounded; kept float when rounding would make the set degenerate). "
    "Distinct = distinct canonical-JSON digest."
)
ASSUMPTIONS = [
    "the family of AlignmentUniformScale / AlignmentRotation is the class's own: scale / rotate about the ORIGIN "
    "(no translation component), as the classes document; a pure scale cannot move a centroid, so 'reproduces the "
    "target's centroid' is asserted for AlignmentSimilarity only and 'overall size' (Frobenius norm about the "
    "centroid) for both",
    "uniqueness: fitted matrices are compared with the reference matrix only when the reference optimum is unique by "
    "a relative margin > 1e-3 (singular values of the correlation matrix); the achieved residual is compared always",
    "TPS interpolation is asserted at 1e-8 x scale only when the reference bordered system has smallest singular "
    "value >= 100 x min_singular_val (no truncation possible); below that only a loose 1e-4 x scale bound is asserted",
    "PWA: points are generated strictly inside a source triangle (barycentric margin 0.05), exactly on a shared "
    "edge (a TriangleContainmentError for such a point is counted as a rounding gap, not a failure) and 1e-6 "
    "either side of it; explicit source triangulations are valid: Qhull's Delaunay triangles with drawn diagonals of "
    "convex quads flipped (each new triangle >= 10 % of the quad), optionally one triangle removed (every landmark "
    "stays a vertex), vertex roles permuted; the reference always works from the trilist that was handed over",
    "pseudoinverse() of a homogeneous alignment is taken as documented ('the transform that results from swapping "
    "source and target'): for translation / scale / rotation / similarity the inverse of the fit IS the class's fit of "
    "the swapped pair and is checked as such; for AlignmentAffine only when the forward fit is exact (the inverse of a "
    "noisy least-squares fit is not the least-squares fit of the swapped pair) - after set_target it always is",
    "what compose_*_inplace does to the held target is not asserted (AlignmentAffine re-derives it, the others keep "
    "it); only that aligned_source / alignment_error stay consistent and that a later set_target re-fits",
    "an affine target is reproduced OFF the landmarks at 1e-9 x scale by TPS only when no truncation is possible "
    "(same smin >= 100 x floor precondition), by PWA at the triangle-quality tolerance",
    "tolerances: 1e-9 x coordinate scale for direct formulas, x design-matrix condition^2 for the affine normal "
    "equations, / uniqueness margin for rotations, / triangle quality for PWA",
    "conditioning by construction: coordinates |x| <= ~150, family scales in [0.25, 4], linear parts of condition <= 16",
]

EXTENT = 10.0
NOISE_LEVELS = [0.0, 1e-3, 0.05, 0.5]
DRAW_LEVELS = [0.05, 1e-3, 0.5, 0.0]  # same set; Hypothesis favours the first entry, so it is not the noise-free one
HOMOG = ["AlignmentTranslation", "AlignmentUniformScale", "AlignmentRotation", "AlignmentSimilarity", "AlignmentAffine"]
N_SEEDED_COMPETITORS = 44


# ==============================================================================================
# strategies (plain data)


ALL_SPECS = [
    {"cls": "AlignmentTranslation"},
    {"cls": "AlignmentUniformScale"},
    {"cls": "AlignmentRotation", "allow_mirror": False},
    {"cls": "AlignmentRotation", "allow_mirror": True},
    {"cls": "AlignmentSimilarity", "rotation": True, "allow_mirror": False},
    {"cls": "AlignmentSimilarity", "rotation": True, "allow_mirror": True},
    {"cls": "AlignmentSimilarity", "rotation": False, "allow_mirror": False},
    {"cls": "AlignmentSimilarity", "rotation": False, "allow_mirror": True},
    {"cls": "AlignmentAffine"},
]


def s_spec(classes):
    """One constructor configuration of one of `classes` (every option combination listed explicitly)."""
    return st.sampled_from([sp for sp in ALL_SPECS if sp["cls"] in classes]).map(dict)


@st.composite
def s_source(draw, d, n_max=20, extent=EXTENT, planar=False):
    n_min = max(3, d + 1)
    if planar and d == 3:
        # a flat 3-D shape (3 points in 3-D are always flat): non-collinear within its plane z = a x + b y + c
        flat = draw(gen.points_case(3, n_max, 2, extent).filter(lambda p: gen.non_collinear(p, 0.05)))
        a, b, c0 = draw(gen.q(-1, 1, 16)), draw(gen.q(-1, 1, 16)), draw(gen.q(-5, 5, 16))
        pts = [[x, y, a * x + b * y + c0] for x, y in flat]
        shift = draw(st.one_of(st.just([0.0] * d), gen.vec(d, -20, 20)))
        return {"pts": pts, "shift": shift, "planar": True}
    pts = draw(gen.points_case(n_min, n_max, d, extent).filter(lambda p: gen.non_collinear(p, 0.05)))
    shift = draw(st.one_of(st.just([0.0] * d), gen.vec(d, -20, 20), st.just([-extent / 2] * d)))
    return {"pts": pts, "shift": shift}


def build_source(sc):
    return gen.arr(sc["pts"]) + gen.arr(sc["shift"])


@st.composite
def s_member(draw, kind, d, reflect="no"):
    """kind: translation | scale | rotation | similarity | similarity_norot | affine.
    reflect: 'no' | 'maybe' | 'yes' (orthogonal part)."""
    m = {"kind": kind}
    if kind in ("rotation", "similarity"):
        rot = draw(gen.orthogonal_case(d, allow_reflection=(reflect == "maybe")))
        if reflect == "yes":
            rot = dict(rot, reflect=True)
        m["rot"] = rot
    if kind in ("scale", "similarity", "similarity_norot"):
        m["s"] = draw(gen.q(0.25, 4))
    if kind in ("translation", "similarity", "similarity_norot", "affine"):
        m["t"] = draw(gen.vec(d, -10, 10))
    if kind == "affine":
        m["lin"] = draw(gen.linear_case(d))
    return m


def build_member(m, d):
    kind = m["kind"]
    lin = np.eye(d)
    t = np.zeros(d)
    if kind == "translation":
        t = gen.arr(m["t"])
    elif kind == "scale":
        lin = np.eye(d) * m["s"]
    elif kind == "rotation":
        lin = gen.build_orthogonal(d, m["rot"])
    elif kind == "similarity":
        lin = m["s"] * gen.build_orthogonal(d, m["rot"])
        t = gen.arr(m["t"])
    elif kind == "similarity_norot":
        lin = m["s"] * np.eye(d)
        t = gen.arr(m["t"])
    elif kind == "affine":
        lin = gen.build_linear(d, m["lin"])
        t = gen.arr(m["t"])
    else:
        raise ValueError(kind)
    return R.hm(lin, t)


def own_member(spec, d):
    cls = spec["cls"]
    if cls == "AlignmentTranslation":
        return s_member("translation", d)
    if cls == "AlignmentUniformScale":
        return s_member("scale", d)
    if cls == "AlignmentRotation":
        return s_member("rotation", d, "maybe" if spec["allow_mirror"] else "no")
    if cls == "AlignmentSimilarity":
        if not spec["rotation"]:
            return s_member("similarity_norot", d)
        return s_member("similarity", d, "maybe" if spec["allow_mirror"] else "no")
    return s_member("affine", d)


def foreign_member(spec, d):
    """A member of another family.  Classes that must refuse reflections get reflected targets most of the time
    (that is where the determinant correction decides the answer)."""
    reflected = [s_member("similarity", d, "yes"), s_member("rotation", d, "yes")]
    other = [s_member("affine", d), s_member("similarity", d, "no")]
    if spec.get("allow_mirror") is False:
        return st.one_of(*(reflected + reflected + other))
    return st.one_of(*(reflected + other))


def s_noise(n, d):
    return st.lists(st.lists(gen.q(-1, 1, 256), min_size=d, max_size=d), min_size=n, max_size=n)


@st.composite
def s_homog_fit(draw, classes, family="mixed", levels=None, dims=(2, 3), competitors=0, n_params=None, planar=False,
                ints="both"):
    """ints: 'both' - source and / or target may be handed over as int64 point sets (rounded coordinates);
    'src' - only the source (the target stays the exact float image of the rounded source); None - floats only."""
    spec = draw(s_spec(classes))
    d = draw(st.sampled_from(list(dims)))
    flat = planar and d == 3 and spec["cls"] != "AlignmentAffine" and draw(st.integers(0, 3)) == 0
    src = draw(s_source(d, planar=flat))
    n = len(src["pts"])
    if family == "own":
        own = True
    else:
        own = draw(st.booleans())
    member = draw(own_member(spec, d) if own else foreign_member(spec, d))
    level = draw(st.sampled_from(levels if levels is not None else DRAW_LEVELS))
    case = {"spec": spec, "d": d, "src": src, "own": own, "member": member, "level": level}
    case["noise"] = draw(s_noise(n, d)) if level > 0 else None
    if ints:
        case["src_int"] = draw(st.sampled_from([False, False, True]))
        case["tgt_int"] = ints == "both" and draw(st.sampled_from([False, False, True]))
    if competitors:
        p = n_params(spec, d)
        case["comps"] = draw(
            st.lists(
                st.tuples(gen.q(1, 3, 8), st.lists(gen.q(-1, 1, 64), min_size=p, max_size=p)).map(list),
                min_size=competitors,
                max_size=competitors,
            )
        )
        case["comp_seed"] = draw(st.integers(0, 2**20))
    return case


INT_UNITS = 64.0  # an integer-valued source spans about this many units (so that rounding keeps general position)


def int_source(src, extent):
    """Integer-valued version of a generated source: the extent is mapped onto INT_UNITS units and rounded.
    None when rounding destroyed general position / distinctness (the caller then keeps the float source)."""
    r = np.round(src * (INT_UNITS / extent))
    if len({tuple(p) for p in r.tolist()}) < len(r) or not gen.non_collinear(r, 0.04):
        return None
    return r


def int_target(tgt):
    """Rounded target, unless rounding would make it degenerate (a small target collapsing onto a few pixels): the
    float target is kept then (and, not being integer valued, is stored as float64)."""
    r = np.round(tgt)
    if len({tuple(p) for p in r.tolist()}) < len(r) or not gen.non_collinear(r, 0.02):
        return tgt
    return r


def is_int_valued(x):
    return bool(np.all(x == np.round(x)))


def build_pair(case):
    """(src array, tgt array, generating h-matrix) - deterministic in the case.  The arrays are float64 always;
    case['src_int'] / case['tgt_int'] say that the values are integers and are to be handed to menpo as int64
    (see pcs)."""
    d = case["d"]
    src = build_source(case["src"])
    if case.get("src_int"):
        r = int_source(src, EXTENT)
        if r is None:
            case = dict(case, src_int=False)
        else:
            src = r
    h = build_member(case["member"], d)
    tgt = src.dot(h[:d, :d].T) + h[:d, d]
    if case["level"] > 0:
        tgt = tgt + case["level"] * EXTENT * gen.arr(case["noise"])
    if case.get("tgt_int"):
        tgt = int_target(tgt)
    return src, tgt, h


def make_pc(points, as_int=False):
    """A fresh PointCloud; int64 storage when asked for (the values are integers then)."""
    return PointCloud(np.array(points).astype(np.int64) if as_int else np.array(points, dtype=float))


def is_int_src(case, src):
    return bool(case.get("src_int")) and is_int_valued(src)


def pcs(case, src, tgt):
    """(source PointCloud, target PointCloud) with the storage dtypes the case asks for."""
    return make_pc(src, is_int_src(case, src)), make_pc(tgt, bool(case.get("tgt_int")) and is_int_valued(tgt))


def dtype_event(ctx, src_pc, tgt_pc):
    ctx.event("dtypes src=%s tgt=%s" % (np.asarray(src_pc.points).dtype, np.asarray(tgt_pc.points).dtype))


def build_alignment(spec, src_pc, tgt_pc):
    cls = spec["cls"]
    if cls == "AlignmentRotation":
        return mt.AlignmentRotation(src_pc, tgt_pc, allow_mirror=spec["allow_mirror"])
    if cls == "AlignmentSimilarity":
        return mt.AlignmentSimilarity(src_pc, tgt_pc, rotation=spec["rotation"], allow_mirror=spec["allow_mirror"])
    return getattr(mt, cls)(src_pc, tgt_pc)


def tag(spec):
    t = spec["cls"]
    if "rotation" in spec:
        t += ".rotation=%s" % spec["rotation"]
    if "allow_mirror" in spec:
        t += ".mirror=%s" % spec["allow_mirror"]
    return t


def coord_scale(*arrays):
    return max(1.0, max(float(np.abs(a).max()) for a in arrays))


def well_formed_h(ctx, h, d, cls):
    ok = isinstance(h, np.ndarray) and h.shape == (d + 1, d + 1) and bool(np.all(np.isfinite(h)))
    if not ctx.expect(ok, "fit.h_matrix.shape_or_nonfinite." + cls, lambda: repr(h)):
        return False
    last = np.zeros(d + 1)
    last[d] = 1.0
    # the affine fit solves for the last row as well (it comes out as 0 .. 0 1 up to rounding)
    ctx.expect(close(h[d], last, rtol=0, atol=1e-9), "fit.h_matrix.last_row." + cls, lambda: repr(h[d]))
    return True


def apply_matches_matrix(ctx, a, h, src, sc, cls):
    got = a.apply(src)
    want = R.apply_h(h, src)
    ctx.expect(
        close(got, want, rtol=1e-10, scale=sc),
        "fit.apply_differs_from_h_matrix." + cls,
        lambda: describe(got, want),
    )
    return want


# ==============================================================================================
# 1. exact recovery


def s_recover():
    return s_homog_fit(HOMOG, family="own", levels=[0.0], ints="src")


def c_recover(case, ctx):
    spec, d = case["spec"], case["d"]
    cls = spec["cls"]
    src, tgt, h_gen = build_pair(case)
    ctx.event("class=%s" % tag(spec))
    ctx.event("d=%d" % d)
    if case["member"].get("rot", {}).get("reflect"):
        ctx.event("member is a reflection")
    ctx.nontrivial(float(np.abs(h_gen - np.eye(d + 1)).max()) > 0.01)
    src_pc, tgt_pc = pcs(case, src, tgt)
    dtype_event(ctx, src_pc, tgt_pc)
    a = build_alignment(spec, src_pc, tgt_pc)
    h = a.h_matrix
    if not well_formed_h(ctx, h, d, cls):
        return
    sc = coord_scale(src, tgt)
    cond = R.design_cond(src) ** 2 if cls == "AlignmentAffine" else 1.0
    tol = 1e-11 * max(1.0, cond) + 1e-9
    hs = max(1.0, float(np.abs(h_gen).max()))
    ctx.expect(
        close(h, h_gen, rtol=tol, scale=hs),
        "recover.h_matrix." + tag(spec),
        lambda: "generating member %s not recovered (tol %.1e)\n%s" % (case["member"]["kind"], tol * hs, describe(h, h_gen)),
    )
    got = a.apply(src)
    ctx.expect(
        close(got, tgt, rtol=tol, scale=sc),
        "recover.apply_source_is_target." + tag(spec),
        lambda: describe(got, tgt),
    )


# ==============================================================================================
# 2. least-squares optimality: translation, rotation, affine


def _n_params_optimal(spec, d):
    cls = spec["cls"]
    if cls == "AlignmentTranslation":
        return d
    if cls == "AlignmentRotation":
        return gen.n_planes(d)
    return d * (d + 1)


def s_optimal():
    return s_homog_fit(
        ["AlignmentTranslation", "AlignmentRotation", "AlignmentAffine"],
        competitors=6,
        n_params=_n_params_optimal,
        planar=True,
    )


def all_competitors(case, p):
    """Hypothesis-drawn perturbations first, then seeded bulk ones: [(relative size, direction (p,))]."""
    out = [(10.0 ** (-e), np.array(v, dtype=float)) for e, v in case["comps"]]
    rs = np.random.RandomState(case["comp_seed"])
    for _ in range(N_SEEDED_COMPETITORS):
        e = rs.uniform(1.0, 3.0)
        out.append((10.0 ** (-e), rs.uniform(-1.0, 1.0, size=p)))
    return out


def perturb(cls, h, d, size, direction, lin_scale, t_scale):
    """A family member near h."""
    h2 = h.copy()
    if cls == "AlignmentTranslation":
        h2[:d, d] = h[:d, d] + size * t_scale * direction
    elif cls == "AlignmentRotation":
        g = gen.rotation_from_angles(d, list(size * direction))
        h2[:d, :d] = h[:d, :d].dot(g)
    else:
        delta = direction.reshape(d, d + 1)
        h2[:d, :d] = h[:d, :d] + size * lin_scale * delta[:, :d]
        h2[:d, d] = h[:d, d] + size * t_scale * delta[:, d]
    return h2


def sse_h(h, src, tgt):
    d = src.shape[1]
    diff = src.dot(h[:d, :d].T) + h[:d, d] - tgt
    return float((diff * diff).sum())


def c_optimal(case, ctx):
    spec, d = case["spec"], case["d"]
    cls = spec["cls"]
    mirror = bool(spec.get("allow_mirror", False))
    src, tgt, _ = build_pair(case)
    n = src.shape[0]
    sc = coord_scale(src, tgt)
    tol2 = 1e-9 * n * sc * sc
    ctx.event("class=%s" % tag(spec))
    ctx.event("d=%d" % d)
    ctx.event("noise=%g" % case["level"])
    ctx.event("family=%s" % ("own" if case["own"] else "foreign:" + case["member"]["kind"]))

    # ---- reference optimum
    gap = 1.0
    if cls == "AlignmentTranslation":
        h_ref = R.hm(np.eye(d), R.best_translation(src, tgt))
    elif cls == "AlignmentAffine":
        h_ref = R.lstsq_affine(src, tgt)
    else:
        r_ref, _, info = R.best_orthogonal(src, tgt, mirror)
        gap = info["gap"]
        h_ref = R.hm(r_ref, np.zeros(d))
        ctx.event("reference optimum is %s" % ("a reflection" if info["mirror"] else "proper"))
        if info["gain_improper"] > info["gain_proper"]:
            ctx.event("data prefer a reflection (det correction matters)" if not mirror else "data prefer a reflection")
    e_ref = sse_h(h_ref, src, tgt)
    ctx.nontrivial(e_ref > 1e-6 * sc * sc)

    src_pc, tgt_pc = pcs(case, src, tgt)
    dtype_event(ctx, src_pc, tgt_pc)
    a = build_alignment(spec, src_pc, tgt_pc)
    h = np.array(a.h_matrix, dtype=float)
    if not well_formed_h(ctx, h, d, cls):
        return
    fitted = apply_matches_matrix(ctx, a, h, src, sc, cls)

    # ---- the fit is a member of its family
    if cls == "AlignmentTranslation":
        ctx.expect(np.array_equal(h[:d, :d], np.eye(d)), "optimal.family.translation_linear_part", lambda: repr(h))
    elif cls == "AlignmentRotation":
        r = h[:d, :d]
        ctx.expect(np.array_equal(h[:d, d], np.zeros(d)), "optimal.family.rotation_has_translation", lambda: repr(h))
        ctx.expect(
            close(r.T.dot(r), np.eye(d), atol=1e-9, rtol=0),
            "optimal.family.rotation_not_orthogonal",
            lambda: describe(r.T.dot(r), np.eye(d)),
        )
        det = float(np.linalg.det(r))
        if not mirror:
            ctx.expect(det > 0, "optimal.rotation.reflection_without_allow_mirror", lambda: "det=%r\n%r" % (det, r))
        ctx.event("fit det %s" % ("<0" if det < 0 else ">0"))

    # ---- (a) equal to the reference optimum
    e_fit = R.sse(fitted, tgt)
    ctx.expect(
        e_fit <= e_ref + tol2,
        "optimal.not_least_squares." + tag(spec),
        lambda: "fit sse %.12g > reference optimum %.12g (tol %.2e)\nfit=\n%r\nreference=\n%r" % (e_fit, e_ref, tol2, h, h_ref),
    )
    ctx.expect(
        e_fit >= e_ref - tol2,
        "optimal.reference_beaten." + tag(spec),
        lambda: "fit sse %.12g < reference optimum %.12g: fit outside its family or reference wrong\n%r" % (e_fit, e_ref, h),
    )
    if mirror:
        rp, _, _ = R.best_orthogonal(src, tgt, False)
        e_proper = sse_h(R.hm(rp, np.zeros(d)), src, tgt)
        ctx.expect(
            e_fit <= e_proper + tol2,
            "optimal.mirror_allowed_worse_than_proper",
            lambda: "fit sse %.12g > proper optimum %.12g" % (e_fit, e_proper),
        )
    if cls == "AlignmentAffine":
        mtol = 1e-11 * R.design_cond(src) ** 2 + 1e-9
    elif cls == "AlignmentRotation":
        mtol = 1e-9 / max(gap, 1e-12)
    else:
        mtol = 1e-10
    if gap > 1e-3:
        hs = max(1.0, float(np.abs(h_ref).max()))
        ctx.expect(
            close(h, h_ref, rtol=mtol, scale=hs),
            "optimal.h_matrix_differs_from_reference." + tag(spec),
            lambda: describe(h, h_ref),
        )
    else:
        ctx.event("optimum not unique by margin: matrix comparison skipped")

    # ---- the public fit kernel called directly (documented defaults: allow_mirror=False)
    if cls == "AlignmentRotation":
        k_src, k_tgt = pcs(case, src, tgt)
        r_k = optimal_rotation_matrix(k_src, k_tgt, allow_mirror=True) if mirror else optimal_rotation_matrix(k_src, k_tgt)
        ok = isinstance(r_k, np.ndarray) and r_k.shape == (d, d) and bool(np.all(np.isfinite(r_k)))
        if ctx.expect(ok, "kernel.optimal_rotation_matrix.shape_or_nonfinite", lambda: repr(r_k)):
            ctx.expect(close(r_k.T.dot(r_k), np.eye(d), atol=1e-9, rtol=0), "kernel.optimal_rotation_matrix.not_orthogonal",
                       lambda: repr(r_k))
            if not mirror:
                ctx.expect(float(np.linalg.det(r_k)) > 0, "kernel.optimal_rotation_matrix.reflection_by_default",
                           lambda: "called without allow_mirror: det=%r\n%r" % (float(np.linalg.det(r_k)), r_k))
            e_k = sse_h(R.hm(r_k, np.zeros(d)), src, tgt)
            ctx.expect(abs(e_k - e_ref) <= tol2, "kernel.optimal_rotation_matrix.not_least_squares.mirror=%s" % mirror,
                       lambda: "sse %.12g, reference optimum %.12g\n%r" % (e_k, e_ref, r_k))
            if gap > 1e-3:
                ctx.expect(close(r_k, h_ref[:d, :d], rtol=mtol, scale=1.0),
                           "kernel.optimal_rotation_matrix.differs_from_reference.mirror=%s" % mirror,
                           lambda: describe(r_k, h_ref[:d, :d]))

    # ---- (b) competitor search around the fit
    p = _n_params_optimal(spec, d)
    lin_scale = max(1e-3, float(np.abs(h[:d, :d]).max()))
    worst = None
    for size, direction in all_competitors(case, p):
        h2 = perturb(cls, h, d, size, direction, lin_scale, EXTENT)
        e2 = sse_h(h2, src, tgt)
        if e2 < e_fit - tol2 and (worst is None or e2 < worst[0]):
            worst = (e2, size, h2)
    ctx.expect(
        worst is None,
        "optimal.competitor_better." + tag(spec),
        lambda: "family member at relative distance %.3g has sse %.12g < fit %.12g\ncompetitor=\n%r\nfit=\n%r"
        % (worst[1], worst[0], e_fit, worst[2], h),
    )


# ==============================================================================================
# 3. scale / similarity: centroid, size, least-squares rotation


def _n_params_rot(spec, d):
    return gen.n_planes(d)


def s_scale_similarity():
    return s_homog_fit(["AlignmentUniformScale", "AlignmentSimilarity"], competitors=6, n_params=_n_params_rot, planar=True)


def c_scale_similarity(case, ctx):
    spec, d = case["spec"], case["d"]
    cls = spec["cls"]
    src, tgt, _ = build_pair(case)
    n = src.shape[0]
    sc = coord_scale(src, tgt)
    tol2 = 1e-9 * n * sc * sc
    ctx.event("class=%s" % tag(spec))
    ctx.event("d=%d" % d)
    ctx.event("noise=%g" % case["level"])
    ctx.event("family=%s" % ("own" if case["own"] else "foreign:" + case["member"]["kind"]))
    src_pc, tgt_pc = pcs(case, src, tgt)
    dtype_event(ctx, src_pc, tgt_pc)
    a = build_alignment(spec, src_pc, tgt_pc)
    h = np.array(a.h_matrix, dtype=float)
    if not well_formed_h(ctx, h, d, cls):
        return
    aligned = apply_matches_matrix(ctx, a, h, src, sc, cls)
    size_t, size_a = R.cnorm(tgt), R.cnorm(aligned)
    ctx.expect(
        abs(size_a - size_t) <= 1e-9 * max(1.0, size_t),
        "scale.size_not_reproduced." + cls,
        lambda: "size of aligned source about its centroid %.12g, of target %.12g (source %.12g)" % (size_a, size_t, R.cnorm(src)),
    )
    lin = h[:d, :d]
    if cls == "AlignmentUniformScale":
        s = float(h[0, 0])
        ctx.nontrivial(R.sse(aligned, tgt) > 1e-6 * sc * sc)
        ctx.expect(
            np.array_equal(h, R.hm(np.eye(d) * s, np.zeros(d))) and s > 0,
            "scale.family.not_a_uniform_scale_about_origin",
            lambda: repr(h),
        )
        return

    rotation, mirror = spec["rotation"], spec["allow_mirror"]
    h_ref, s_ref, r_ref, info = R.ref_similarity(src, tgt, rotation, mirror)
    ref_aligned = R.apply_h(h_ref, src)
    e_ref = R.sse(ref_aligned, tgt)
    ctx.nontrivial(e_ref > 1e-6 * sc * sc)
    if rotation:
        ctx.event("reference rotation is %s" % ("a reflection" if info["mirror"] else "proper"))
        if info["gain_improper"] > info["gain_proper"]:
            ctx.event("data prefer a reflection (det correction matters)" if not mirror else "data prefer a reflection")
    ct, ca = R.centroid(tgt), R.centroid(aligned)
    ctx.expect(
        close(ca, ct, rtol=1e-9, scale=sc),
        "similarity.centroid_not_reproduced",
        lambda: "aligned centroid %r, target centroid %r" % (ca, ct),
    )
    # linear part = s * orthogonal
    s2 = float((lin * lin).sum()) / d
    s_fit = math.sqrt(s2)
    ctx.expect(
        close(lin.T.dot(lin), s2 * np.eye(d), rtol=1e-9, scale=max(1.0, s2)),
        "similarity.family.linear_part_not_scaled_orthogonal",
        lambda: repr(lin),
    )
    det = float(np.linalg.det(lin))
    if not mirror or not rotation:
        ctx.expect(det > 0, "similarity.reflection_without_allow_mirror", lambda: "det=%r\n%r" % (det, lin))
    if not rotation:
        ctx.expect(
            close(lin, s_fit * np.eye(d), rtol=1e-12, scale=max(1.0, s_fit)),
            "similarity.rotation_fitted_although_rotation=False",
            lambda: repr(lin),
        )
    # least-squares rotation: same residual as the reference always, same matrix when the optimum is unique
    e_fit = R.sse(aligned, tgt)
    ctx.expect(
        e_fit <= e_ref + tol2,
        "similarity.rotation_not_least_squares." + tag(spec),
        lambda: "sse %.12g > reference (centroid+size+best rotation) %.12g\nfit=\n%r\nreference=\n%r" % (e_fit, e_ref, h, h_ref),
    )
    ctx.expect(
        e_fit >= e_ref - tol2,
        "similarity.reference_beaten." + tag(spec),
        lambda: "sse %.12g < reference %.12g\nfit=\n%r\nreference=\n%r" % (e_fit, e_ref, h, h_ref),
    )
    gap = info["gap"] if rotation else 1.0
    if gap > 1e-3:
        hs = max(1.0, float(np.abs(h_ref).max()))
        ctx.expect(
            close(h, h_ref, rtol=1e-9 / gap, scale=hs),
            "similarity.h_matrix_differs_from_reference." + tag(spec),
            lambda: describe(h, h_ref),
        )
    else:
        ctx.event("optimum not unique by margin: matrix comparison skipped")
    # the public fit kernel called directly (documented defaults: rotation=True, allow_mirror=False)
    k_src, k_tgt = pcs(case, src, tgt)
    kw = {}
    if not rotation:
        kw["rotation"] = False
    if mirror:
        kw["allow_mirror"] = True
    p_k = procrustes_alignment(k_src, k_tgt, **kw)
    ctx.expect(isinstance(p_k, mt.Similarity) and not isinstance(p_k, mt.AlignmentSimilarity),
               "kernel.procrustes_alignment.not_a_plain_similarity", lambda: type(p_k).__name__)
    h_k = np.array(p_k.h_matrix, dtype=float)
    if well_formed_h(ctx, h_k, d, "procrustes_alignment"):
        e_k = sse_h(h_k, src, tgt)
        ctx.expect(abs(e_k - e_ref) <= tol2, "kernel.procrustes_alignment.not_reference_similarity." + tag(spec),
                   lambda: "called with %r: sse %.12g, reference %.12g\n%r" % (kw, e_k, e_ref, h_k))
        if gap > 1e-3:
            ctx.expect(close(h_k, h_ref, rtol=1e-9 / gap, scale=max(1.0, float(np.abs(h_ref).max()))),
                       "kernel.procrustes_alignment.differs_from_reference." + tag(spec),
                       lambda: "called with %r\n%s" % (kw, describe(h_k, h_ref)))
    if rotation:
        # competitor rotations with centroid and size kept: none may do better
        cs = R.centroid(src)
        r_fit = lin / s_fit
        worst = None
        for size, direction in all_competitors(case, gen.n_planes(d)):
            r2 = r_fit.dot(gen.rotation_from_angles(d, list(size * direction)))
            lin2 = s_fit * r2
            h2 = R.hm(lin2, ct - lin2.dot(cs))
            e2 = sse_h(h2, src, tgt)
            if e2 < e_fit - tol2 and (worst is None or e2 < worst[0]):
                worst = (e2, size, h2)
        ctx.expect(
            worst is None,
            "similarity.competitor_rotation_better." + tag(spec),
            lambda: "rotation at distance %.3g rad (same centroid, same size) has sse %.12g < fit %.12g\n%r"
            % (worst[1], worst[0], e_fit, worst[2]),
        )


# ==============================================================================================
# warps: shared generators

WARP_KINDS = [
    "TPS:default",
    "TPS:R2LogR2RBF",
    "TPS:R2LogRRBF",
    "PiecewiseAffine",
    "CachedPWA",
    "PythonPWA",
    "PiecewiseAffine:trimesh",
    "PythonPWA:trimesh",
]


@st.composite
def s_warp(draw, kinds, extents=(EXTENT,), n_min=3, n_max=20, levels=None, ints=True):
    kind = draw(st.sampled_from(kinds))
    extent = draw(st.sampled_from(list(extents)))
    pts = draw(gen.points_case(n_min, n_max, 2, extent).filter(lambda p: gen.non_collinear(p, 0.05)))
    n = len(pts)
    shift = draw(st.one_of(st.just([0.0, 0.0]), gen.vec(2, -2, 2).map(lambda v: [x * extent for x in v])))
    member = draw(st.one_of(s_member("affine", 2), s_member("similarity", 2, "maybe"), s_member("translation", 2)))
    level = draw(st.sampled_from(levels if levels is not None else DRAW_LEVELS))
    case = {"kind": kind, "extent": extent, "src": {"pts": pts, "shift": shift}, "member": member, "level": level}
    case["noise"] = draw(s_noise(n, 2)) if level > 0 else None
    if ints:
        # landmarks handed over as int64 pixel positions (legal input for every alignment)
        case["src_int"] = draw(st.sampled_from([False, False, False, True]))
        case["tgt_int"] = draw(st.sampled_from([False, False, False, True]))
    if not kind.startswith("TPS"):
        # the target may itself be a TriMesh with a triangulation of its own: the source's triangulation decides
        case["tgt_trimesh"] = draw(st.sampled_from([False, False, True]))
    if kind.endswith(":trimesh"):
        # the source's OWN triangulation: Qhull's Delaunay triangles with drawn diagonals flipped (another valid
        # triangulation of the same hull: a transform that re-triangulates gives different values inside the
        # flipped quads), optionally one triangle removed (a mesh with a notch or a hole; every landmark stays a
        # vertex), then a vertex-role
        # rotation / orientation flip per triangle and a rotation of the triangle order
        case["flips"] = draw(st.lists(st.integers(0, 63), min_size=0, max_size=4))
        case["drop"] = draw(st.one_of(st.none(), st.none(), st.integers(0, 63)))
        case["tri_perm"] = draw(st.lists(st.integers(0, 5), min_size=1, max_size=8))
        case["tri_roll"] = draw(st.integers(0, 7))
    return case


def _area2(a, b, c):
    return float((b[0] - a[0]) * (c[1] - a[1]) - (b[1] - a[1]) * (c[0] - a[0]))


def flip_diagonals(src, tl, flips):
    """Flip the shared diagonal of strictly convex quads (each entry of `flips` picks one shared edge of the current
    list).  The result triangulates the same region with the same vertices."""
    tl = [[int(v) for v in tri] for tri in tl]
    done = 0
    for f in flips:
        shared = R.shared_edges(tl)
        if not shared:
            break
        for off in range(len(shared)):  # the picked edge, or the next one whose quad is convex enough
            i, j, ka, kb = shared[(f + off) % len(shared)]
            a = [v for v in tl[ka] if v not in (i, j)][0]
            b = [v for v in tl[kb] if v not in (i, j)][0]
            # the new diagonal a-b must cross the old one i-j well inside: i and j strictly on opposite sides of
            # a-b, neither new triangle a sliver compared with the quad
            si, sj = _area2(src[a], src[b], src[i]), _area2(src[a], src[b], src[j])
            if si * sj >= 0 or min(abs(si), abs(sj)) < 0.1 * (abs(si) + abs(sj)):
                continue
            tl[ka] = [a, b, i]
            tl[kb] = [b, a, j]
            done += 1
            break
    return np.array(tl, dtype=int), done


def explicit_trilist(case, src):
    """The explicit source triangulation of a ':trimesh' case: (trilist, n flipped diagonals, triangle dropped?)."""
    tl, n_flipped = flip_diagonals(src, R.delaunay_trilist(src), case.get("flips") or [])
    dropped = False
    if case.get("drop") is not None and len(tl) > 1:
        # only when every landmark stays a vertex of the mesh (apply(source) is undefined otherwise)
        rest = np.delete(tl, case["drop"] % len(tl), axis=0)
        if len(set(rest.ravel().tolist())) == len(src):
            tl = rest
            dropped = True
    perm = case["tri_perm"]
    tl = np.array([[tri[j] for j in PERMS3[perm[k % len(perm)]]] for k, tri in enumerate(tl)], dtype=int)
    tl = np.roll(tl, case["tri_roll"] % len(tl), axis=0)
    return tl, n_flipped, dropped


def warp_arrays(case):
    """(src, tgt) float arrays of a warp case (integer valued where the case asks for int64 landmarks)."""
    src = build_source(case["src"])
    if case.get("src_int"):
        r = int_source(src, case["extent"] * 2.0)  # about 32 units across
        if r is not None:
            src = r
    h = build_member(case["member"], 2)
    tgt = src.dot(h[:2, :2].T) + h[:2, 2]
    if case["level"] > 0:
        tgt = tgt + case["level"] * case["extent"] * gen.arr(case["noise"])
    if case.get("tgt_int"):
        tgt = int_target(tgt)
    return src, tgt, h


def warp_target(case, src, tgt):
    """The target object of a warp case: PointCloud (float64 / int64) or a TriMesh with a triangulation of its own."""
    as_int = bool(case.get("tgt_int")) and is_int_valued(tgt)
    pts = np.array(tgt).astype(np.int64) if as_int else np.array(tgt, dtype=float)
    if case.get("tgt_trimesh"):
        own = R.delaunay_trilist(src)[::-1, ::-1].copy()
        return TriMesh(pts, trilist=own)
    return PointCloud(pts)


PERMS3 = [(0, 1, 2), (1, 2, 0), (2, 0, 1), (0, 2, 1), (2, 1, 0), (1, 0, 2)]


def prep_warp(case):
    """(src array, tgt array, explicit trilist or None, source object, target object, constructor thunk)."""
    src, tgt, _ = warp_arrays(case)
    base, _, opt = case["kind"].partition(":")
    tgt_pc = warp_target(case, src, tgt)
    src_pts = src.astype(np.int64) if is_int_src(case, src) else src
    trilist = None
    if base == "TPS":
        src_pc = PointCloud(src_pts)

        def ctor():
            kernel = None if opt == "default" else getattr(mrbf, opt)(src_pc.points)
            return mt.ThinPlateSplines(src_pc, tgt_pc, kernel=kernel)

        return src, tgt, None, src_pc, tgt_pc, ctor
    if opt == "trimesh":
        tl, _, _ = explicit_trilist(case, src)
        trilist = tl
        src_pc = TriMesh(src_pts, trilist=tl.copy())
    else:
        src_pc = PointCloud(src_pts)
    cls = {"PiecewiseAffine": mt.PiecewiseAffine, "CachedPWA": CachedPWA, "PythonPWA": PythonPWA}[base]
    return src, tgt, trilist, src_pc, tgt_pc, (lambda: cls(src_pc, tgt_pc))


def build_warp(case):
    """(transform, src array, tgt array, explicit trilist or None, source object, target object)."""
    src, tgt, trilist, src_pc, tgt_pc, ctor = prep_warp(case)
    return ctor(), src, tgt, trilist, src_pc, tgt_pc


def tps_kernel_name(kind):
    opt = kind.split(":")[1]
    return None if opt == "default" else opt


# ==============================================================================================
# 4. interpolation


def s_probes():
    """Off-landmark probe positions: [triangle pick, u, v] (PWA: inside that source triangle; TPS: u, v place the
    probe in the landmarks' bounding box enlarged by a quarter on every side)."""
    return st.lists(st.tuples(st.integers(0, 63), gen.q(0.01, 0.99), gen.q(0.01, 0.99)).map(list), min_size=1, max_size=6)


def s_interpolate():
    @st.composite
    def exact(draw):
        # noise-free image of the source under an affine map: a member of the TPS / PWA family itself
        tps = draw(st.booleans())
        case = draw(s_warp(WARP_KINDS[:3], extents=(0.5, 1.0, 2.0, 10.0), levels=[0.0]) if tps
                    else s_warp(WARP_KINDS[3:], levels=[0.0]))
        case["tgt_int"] = False
        case["probes"] = draw(s_probes())
        return case

    return st.one_of(
        s_warp(WARP_KINDS[:3], extents=(0.5, 1.0, 1.0, 2.0)),
        s_warp(WARP_KINDS[:3], extents=(0.5, 1.0, 1.0, 2.0, 10.0, 100.0)),
        s_warp(WARP_KINDS[3:]),
        exact(),
    )


def warp_events(ctx, case, src, trilist, src_pc, tgt_pc):
    ctx.event("dtypes src=%s tgt=%s" % (np.asarray(src_pc.points).dtype, np.asarray(tgt_pc.points).dtype))
    if not case["kind"].startswith("TPS"):
        ctx.event("target is a %s" % type(tgt_pc).__name__)
    if trilist is not None:
        _, n_flipped, dropped = explicit_trilist(case, src)
        ctx.event("explicit trilist: %s diagonals flipped%s" % ("no" if n_flipped == 0 else "some", ", a triangle removed" if dropped else ""))


def check_affine_off_landmarks(ctx, case, a, src, tgt, tl, sc, tol, base):
    """Gap: 'recovers a member of its own family' for the warps - the target is an exact affine image of the source,
    so the fitted warp must be that affine map everywhere it is defined, not only on the landmarks."""
    h = build_member(case["member"], 2)
    qs = []
    lo, hi = src.min(axis=0), src.max(axis=0)
    for k, u, v in case["probes"]:
        if tl is None:
            qs.append(lo + (hi - lo) * np.array([-0.25 + 1.5 * u, -0.25 + 1.5 * v]))
        else:
            qs.append(inside_point(src, tl[k % len(tl)], u, v))
    qs = np.array(qs)
    want = R.apply_h(h, qs)
    got = a.apply(qs)
    ctx.event("affine target probed off the landmarks")
    ctx.expect(
        close(got, want, rtol=tol, scale=sc),
        "recover.affine_not_reproduced_off_landmarks." + base,
        lambda: "target = affine(source) exactly; probes %r\n%s" % (qs, describe(got, want)),
    )


def c_interpolate(case, ctx):
    kind = case["kind"]
    a, src, tgt, trilist, src_pc, tgt_pc = build_warp(case)
    sc = coord_scale(src, tgt)
    ctx.event("kind=%s" % kind)
    ctx.event("noise=%g" % case["level"])
    ctx.event("n=%s" % ("3" if len(src) == 3 else "4-9" if len(src) < 10 else "10-20"))
    warp_events(ctx, case, src, trilist, src_pc, tgt_pc)
    exact_affine = case["level"] == 0 and bool(case.get("probes")) and maxdiff(tgt, R.apply_h(build_member(case["member"], 2), src)) == 0
    differs = maxdiff(src, tgt) > 1e-3 * sc
    if kind.startswith("TPS"):
        smin, smax = R.tps_min_singular(src, tps_kernel_name(kind))
        floor = a.min_singular_val
        strict = smin >= 100 * floor
        ctx.event("tps smin %s" % (">= 100 x floor" if strict else ">= floor" if smin >= floor else "< floor (truncation)"))
        ctx.event("extent=%g" % case["extent"])
        ctx.nontrivial(differs and strict)
        got = a.apply(src)
        if strict:
            ctx.expect(
                close(got, tgt, rtol=1e-8, scale=sc),
                "interpolate.tps.landmarks_not_hit",
                lambda: "kernel %s, smin %.3e\n%s" % (tps_kernel_name(kind), smin, describe(got, tgt)),
            )
        else:
            ctx.expect(
                close(got, tgt, rtol=1e-4, scale=sc),
                "interpolate.tps.landmarks_not_hit.truncation_regime",
                lambda: "kernel %s, smin %.3e (floor %g)\n%s" % (tps_kernel_name(kind), smin, floor, describe(got, tgt)),
            )
        got_pc = a.apply(src_pc)
        ctx.expect(close(got_pc.points, got, rtol=1e-12, scale=sc), "interpolate.tps.pointcloud_vs_array", "")
        if exact_affine and strict:
            check_affine_off_landmarks(ctx, case, a, src, tgt, None, sc, 1e-9, "tps")
        return
    ctx.nontrivial(differs)
    tl = np.asarray(a.trilist)
    if trilist is not None:
        ctx.expect(np.array_equal(tl, trilist), "interpolate.pwa.explicit_trilist_not_used", lambda: "%r vs %r" % (tl, trilist))
        tl = trilist  # the reference works from the triangulation that was handed over
    quality = R.tri_min_quality(src, tl)
    ctx.event("pwa sliver quality %s" % ("<1e-3" if quality < 1e-3 else ">=1e-3"))
    tol = 1e-12 / max(quality, 1e-9) + 1e-10
    used = sorted({int(v) for tri in tl for v in tri})  # a removed triangle may leave a landmark outside the mesh
    try:
        got = a.apply(src[used])
    except TriangleContainmentError as e:
        ctx.fail(
            "interpolate.pwa.landmark_not_in_any_triangle",
            "source landmarks %r reported outside the source triangulation" % (np.nonzero(e.points_outside_source_domain)[0].tolist(),),
        )
        return
    ctx.expect(
        close(got, tgt[used], rtol=tol, scale=sc),
        "interpolate.pwa.landmarks_not_hit." + kind.split(":")[0],
        lambda: "tol %.2e\n%s" % (tol * sc, describe(got, tgt[used])),
    )
    if exact_affine:
        check_affine_off_landmarks(ctx, case, a, src, tgt, [[int(v) for v in t] for t in tl], sc,
                                   1e-11 / max(quality, 1e-9) + 1e-10, kind.split(":")[0])


# ==============================================================================================
# 5. PWA: affine per triangle, continuous across edges


def s_pwa_affine():
    @st.composite
    def s(draw):
        case = draw(s_warp(WARP_KINDS[3:], n_min=3, n_max=16))
        case["picks"] = draw(
            st.lists(st.tuples(st.integers(0, 63), gen.q(0.01, 0.99), gen.q(0.01, 0.99)).map(list), min_size=2, max_size=8)
        )
        case["segs"] = draw(
            st.lists(
                st.tuples(st.integers(0, 63), gen.q(0.01, 0.99), gen.q(0.01, 0.99), gen.q(0.01, 0.99), gen.q(0.01, 0.99)).map(list),
                min_size=1,
                max_size=3,
            )
        )
        case["edges"] = draw(st.lists(st.tuples(st.integers(0, 63), gen.q(0.05, 0.95)).map(list), min_size=1, max_size=5))
        case["tgt_int"] = draw(st.sampled_from([False, False, True]))
        case["batch"] = draw(st.sampled_from([None, None, 1, 2, 3, 5]))
        return case

    return s()


def inside_point(src, tri, a, b):
    if a + b > 1:
        a, b = 1 - a, 1 - b
    w = (0.05 + 0.85 * (1 - a - b), 0.05 + 0.85 * a, 0.05 + 0.85 * b)
    return w[0] * src[tri[0]] + w[1] * src[tri[1]] + w[2] * src[tri[2]]


def c_pwa_affine(case, ctx):
    kind = case["kind"]
    a, src, tgt, trilist, src_pc, tgt_pc = build_warp(case)
    sc = coord_scale(src, tgt)
    # the reference works from the triangulation that was handed over (the transform's own otherwise)
    tl = [[int(v) for v in tri] for tri in (trilist if trilist is not None else np.asarray(a.trilist))]
    ctx.event("kind=%s" % kind)
    ctx.event("noise=%g" % case["level"])
    warp_events(ctx, case, src, trilist, src_pc, tgt_pc)
    ctx.event("triangles=%s" % ("1" if len(tl) == 1 else "2-5" if len(tl) <= 5 else ">5"))
    ctx.nontrivial(maxdiff(src, tgt) > 1e-3 * sc)
    quality = R.tri_min_quality(src, tl)
    tol = 1e-11 / max(quality, 1e-9) + 1e-10
    base = kind.split(":")[0]

    def lipschitz(k):
        return R.tri_affine_norm(src[tl[k]], tgt[tl[k]])

    # ---- interior points: the reference barycentric map of the containing triangle
    pts, owner = [], []
    for k, u, v in case["picks"]:
        k = k % len(tl)
        p = inside_point(src, tl[k], u, v)
        hits = R.locate(src, tl, p)
        if hits != [k]:
            # degenerate sliver or an overlapping (invalid) triangulation: the containing triangle is ambiguous
            ctx.event("interior point with ambiguous owner skipped")
            continue
        pts.append(p)
        owner.append(k)
    if pts:
        pts = np.array(pts)
        got = a.apply(pts, batch_size=case.get("batch"))
        ctx.event("target dtype=%s batch=%s" % (np.asarray(a.target.points).dtype, case.get("batch")))
        want = np.array([R.bary_map(src[tl[k]], tgt[tl[k]], p) for k, p in zip(owner, pts)])
        ctx.expect(
            close(got, want, rtol=tol, scale=sc),
            "pwa.interior_not_barycentric_map." + base,
            lambda: "trilist %r\npoints %r\n%s" % (tl, pts, describe(got, want)),
        )
        # the caller re-uses its work buffer: same array object, refilled in place with other interior points of the
        # same shape (here: the same points in reverse order, pulled a little towards the first one)
        if pts.shape[0] >= 2:
            order = list(range(pts.shape[0]))[::-1]
            buf = pts.copy()
            a.apply(buf)
            buf[:] = pts[order]
            got_r = a.apply(buf)
            ctx.expect(close(got_r, want[order], rtol=tol, scale=sc), "pwa.reused_buffer_gives_previous_result." + base,
                       lambda: describe(got_r, want[order]))
    # ---- second differences along a segment inside one triangle vanish
    for k, u0, v0, u1, v1 in case["segs"]:
        k = k % len(tl)
        p0, p1 = inside_point(src, tl[k], u0, v0), inside_point(src, tl[k], u1, v1)
        if R.locate(src, tl, p0) != [k] or R.locate(src, tl, p1) != [k]:
            continue
        seg = np.array([p0, 0.5 * (p0 + p1), p1])
        f = a.apply(seg)
        ctx.expect(
            close(f[0] - 2 * f[1] + f[2], np.zeros(2), rtol=4 * tol, scale=sc),
            "pwa.second_difference_inside_triangle." + base,
            lambda: repr(f),
        )
    # ---- shared edges
    shared = R.shared_edges(tl)
    ctx.event("shared edges %s" % ("0" if not shared else ">0"))
    if not shared:
        return
    eps = 1e-6
    for e, lam in case["edges"]:
        i, j, ka, kb = shared[e % len(shared)]
        p = lam * src[i] + (1 - lam) * src[j]
        want = lam * tgt[i] + (1 - lam) * tgt[j]
        ra = R.bary_map(src[tl[ka]], tgt[tl[ka]], p)
        rb = R.bary_map(src[tl[kb]], tgt[tl[kb]], p)
        ctx.expect(
            close(ra, want, rtol=tol, scale=sc) and close(rb, want, rtol=tol, scale=sc),
            "harness.reference_triangle_maps_disagree_on_edge",
            lambda: "%r %r %r" % (ra, rb, want),
        )
        try:
            got = a.apply(p[None])[0]
            ctx.expect(
                close(got, want, rtol=tol, scale=sc),
                "pwa.edge_point_value." + base,
                lambda: "edge (%d,%d) lambda %r\n%s" % (i, j, lam, describe(got, want)),
            )
        except TriangleContainmentError:
            ctx.event("edge point fell into a rounding gap (TriangleContainmentError)")
        # just inside each neighbour
        oa = [v for v in tl[ka] if v not in (i, j)][0]
        ob = [v for v in tl[kb] if v not in (i, j)][0]
        pa = p + eps * (src[oa] - p)
        pb = p + eps * (src[ob] - p)
        if R.locate(src, tl, pa, eps=-1e-9) != [ka] or R.locate(src, tl, pb, eps=-1e-9) != [kb]:
            ctx.event("near-edge point with ambiguous owner skipped")
            continue
        fa, fb = a.apply(pa[None])[0], a.apply(pb[None])[0]
        wa = R.bary_map(src[tl[ka]], tgt[tl[ka]], pa)
        wb = R.bary_map(src[tl[kb]], tgt[tl[kb]], pb)
        ctx.expect(
            close(fa, wa, rtol=tol, scale=sc) and close(fb, wb, rtol=tol, scale=sc),
            "pwa.near_edge_not_barycentric_map." + base,
            lambda: "edge (%d,%d)\n%s\n%s" % (i, j, describe(fa, wa), describe(fb, wb)),
        )
        bound = (lipschitz(ka) * np.linalg.norm(pa - p) + lipschitz(kb) * np.linalg.norm(pb - p)) * (1 + 1e-6) + 2 * tol * sc
        jump = float(np.linalg.norm(fa - fb))
        ctx.expect(
            jump <= bound,
            "pwa.discontinuous_across_edge." + base,
            lambda: "edge (%d,%d): values 1e-6 either side differ by %.3e > Lipschitz bound %.3e" % (i, j, jump, bound),
        )


# ==============================================================================================
# 6. bookkeeping for every alignment


def s_bookkeeping():
    return st.one_of(s_homog_fit(HOMOG), s_homog_fit(HOMOG), s_warp(WARP_KINDS, extents=(1.0, EXTENT)))


def check_bookkeeping(ctx, a, name, src_obj, tgt_obj, src, tgt, sc, exact_target=True, prefix="bookkeeping"):
    """Clause 6 on one alignment `a` built from (src_obj, tgt_obj) whose point arrays were src / tgt."""
    d_src0, d_tgt0 = digest.digest(src_obj), digest.digest(tgt_obj)
    applied = a.apply(src.copy())
    al = a.aligned_source()
    ok = hasattr(al, "points") and np.asarray(al.points).shape == src.shape
    if not ctx.expect(ok, prefix + ".aligned_source.type_or_shape." + name, lambda: repr(al)):
        return None
    ctx.expect(
        close(al.points, applied, rtol=1e-12, scale=sc),
        prefix + ".aligned_source_differs_from_apply_source." + name,
        lambda: describe(al.points, applied),
    )
    # source / target are what was passed in
    s_now = a.source
    ctx.expect(
        hasattr(s_now, "points") and close(s_now.points, src, rtol=0, atol=0),
        prefix + ".source_replaced." + name,
        lambda: describe(getattr(s_now, "points", None), src),
    )
    t_now = a.target
    target_ok = hasattr(t_now, "points") and close(t_now.points, tgt, rtol=0, atol=0)
    if exact_target:
        ctx.expect(
            target_ok,
            prefix + ".target_replaced." + name,
            lambda: "target after construction is not the target passed in%s\n%s"
            % (
                " (it is the aligned source)" if close(getattr(t_now, "points", None), applied, rtol=1e-9, scale=sc) else "",
                describe(getattr(t_now, "points", None), tgt),
            ),
        )
    err = a.alignment_error()
    if target_ok or not exact_target:
        ref_t = tgt if target_ok else np.asarray(t_now.points)
        want = math.sqrt(R.sse(ref_t, applied))
        ctx.expect(
            isinstance(err, (float, np.floating)) and abs(float(err) - want) <= 1e-9 * max(1.0, want) + 1e-10 * sc,
            prefix + ".alignment_error_is_not_frobenius_distance." + name,
            lambda: "alignment_error() = %r, |target - apply(source)|_F = %r" % (err, want),
        )
    else:
        # the target was replaced (reported above): the error is still to be the distance to the current target
        want = math.sqrt(R.sse(np.asarray(t_now.points), applied))
        ctx.expect(
            abs(float(err) - want) <= 1e-9 * max(1.0, want) + 1e-10 * sc,
            prefix + ".alignment_error_vs_current_target." + name,
            lambda: "alignment_error() = %r, distance to current target %r" % (err, want),
        )
    # queries changed nothing
    dd = digest.parameter_mutation(d_src0, digest.digest(src_obj))
    ctx.expect(dd is None, prefix + ".source_object_mutated." + name, lambda: repr(dd))
    dd = digest.parameter_mutation(d_tgt0, digest.digest(tgt_obj))
    ctx.expect(dd is None, prefix + ".target_object_mutated." + name, lambda: repr(dd))
    return float(err)


def c_bookkeeping(case, ctx):
    if "spec" in case:
        spec, d = case["spec"], case["d"]
        src, tgt, _ = build_pair(case)
        src_obj, tgt_obj = pcs(case, src, tgt)
        dtype_event(ctx, src_obj, tgt_obj)
        name = spec["cls"]
        ctx.event("class=%s" % tag(spec))
        ctx.event("d=%d" % d)
        d_s, d_t = digest.digest(src_obj), digest.digest(tgt_obj)
        a = build_alignment(spec, src_obj, tgt_obj)
    else:
        name = case["kind"].replace(":", "_")
        ctx.event("class=%s" % case["kind"])
        src, tgt, _, src_obj, tgt_obj, ctor = prep_warp(case)
        d_s, d_t = digest.digest(src_obj), digest.digest(tgt_obj)
        a = ctor()
    ctx.event("noise=%g" % case["level"])
    sc = coord_scale(src, tgt)
    # construction left the inputs alone
    dd = digest.parameter_mutation(d_s, digest.digest(src_obj))
    ctx.expect(dd is None, "bookkeeping.constructor_mutated_source." + name, lambda: repr(dd))
    dd = digest.parameter_mutation(d_t, digest.digest(tgt_obj))
    ctx.expect(dd is None, "bookkeeping.constructor_mutated_target." + name, lambda: repr(dd))
    err = check_bookkeeping(ctx, a, name, src_obj, tgt_obj, src, tgt, sc)
    if "spec" in case:
        # a sibling derived from this alignment (a copy) is fitted to another target: everything reported by THIS
        # alignment must stay what it was
        sib = a.copy()
        sib.set_target(PointCloud(tgt[::-1] * 1.3 + 0.7))
        check_bookkeeping(ctx, a, name, src_obj, tgt_obj, src, tgt, sc, prefix="bookkeeping_after_sibling_retarget")
        want_a = build_alignment(spec, PointCloud(src.copy()), PointCloud(tgt.copy()))
        ctx.expect(close(a.h_matrix, want_a.h_matrix, rtol=1e-12, scale=1.0 + float(np.abs(want_a.h_matrix).max())),
                   "bookkeeping_after_sibling_retarget.map_changed." + name, lambda: describe(a.h_matrix, want_a.h_matrix))
    resid = math.sqrt(R.sse(a.apply(src), tgt))
    ctx.event("residual %s" % ("> 0" if resid > 1e-6 * sc else "~ 0"))
    ctx.nontrivial(resid > 1e-6 * sc or (err is not None and "spec" not in case and maxdiff(src, tgt) > 1e-3 * sc))


# ==============================================================================================
# 7. generalized Procrustes analysis


def s_gpa():
    @st.composite
    def s(draw):
        d = draw(st.sampled_from([3, 2]))
        base = draw(s_source(d, n_max=12))
        n = len(base["pts"])
        k = draw(st.integers(2, 6))
        allow_mirror = draw(st.booleans())
        level = draw(st.sampled_from([1e-3, 0.02, 0.05, 0.2]))
        shapes = []
        for _ in range(k):
            m = draw(s_member("similarity", d, "maybe" if draw(st.booleans()) else "no"))
            shapes.append({"member": m, "noise": draw(s_noise(n, d))})
        case = {"d": d, "base": base, "shapes": shapes, "level": level, "allow_mirror": allow_mirror}
        case["ints"] = draw(st.sampled_from([False, False, True]))  # all shapes as int64 pixel positions
        case["fixed_target"] = draw(st.one_of(st.none(), st.integers(0, k - 1), st.just("new")))
        if case["fixed_target"] == "new":
            case["target_member"] = draw(s_member("similarity", d, "no"))
            case["target_noise"] = draw(s_noise(n, d))
        return case

    return s()


def _gpa_shape(base, member, noise, level, d):
    h = build_member(member, d)
    return base.dot(h[:d, :d].T) + h[:d, d] + level * EXTENT * gen.arr(noise)


def c_gpa(case, ctx):
    d = case["d"]
    base = build_source(case["base"])
    arrays = [_gpa_shape(base, s["member"], s["noise"], case["level"], d) for s in case["shapes"]]
    ints = bool(case.get("ints"))
    if ints:
        # integer pixel positions: the shapes are blown up 8 x before rounding so that they stay in general position
        arrays = [np.round(8.0 * x) for x in arrays]
    sources = [make_pc(x, ints) for x in arrays]
    ft = case["fixed_target"]
    target_obj = None
    if ft == "new":
        t_arr = _gpa_shape(base, case["target_member"], case["target_noise"], case["level"], d)
        target_obj = make_pc(np.round(8.0 * t_arr), True) if ints else PointCloud(t_arr)
    elif ft is not None:
        target_obj = make_pc(arrays[ft].copy(), ints)
    ctx.event("shapes stored as %s" % ("int64" if ints else "float64"))
    mirror = case["allow_mirror"]
    n_refl = sum(1 for s in case["shapes"] if s["member"]["rot"]["reflect"])
    ctx.event("d=%d" % d)
    ctx.event("target=%s" % ("None" if ft is None else "fixed"))
    ctx.event("allow_mirror=%s" % mirror)
    ctx.event("reflected shapes %s" % ("0" if n_refl == 0 else "all" if n_refl == len(sources) else "some"))
    dig_src = [digest.digest(s) for s in sources]
    dig_tgt = digest.digest(target_obj) if target_obj is not None else None
    g = GeneralizedProcrustesAnalysis(sources, target=target_obj, allow_mirror=mirror)
    ts = g.transforms
    if not ctx.expect(isinstance(ts, list) and len(ts) == len(sources), "gpa.transform_count", lambda: repr(ts)):
        return
    ctx.event("converged=%s" % g.converged)
    ctx.event("iterations %s" % ("1" if g.n_iterations == 1 else "2-5" if g.n_iterations <= 5 else ">5"))
    sc = coord_scale(*arrays)
    nt = False
    for i, t in enumerate(ts):
        ctx.expect(isinstance(t, mt.AlignmentSimilarity), "gpa.transform_class", lambda: type(t).__name__)
        ctx.expect(t.source is sources[i], "gpa.transform_source_is_not_the_ith_source", lambda: "i=%d" % i)
        t_tgt = t.target
        err = check_bookkeeping(
            ctx, t, "AlignmentSimilarity", sources[i], t_tgt, arrays[i], np.array(t_tgt.points), sc, exact_target=False, prefix="gpa"
        )
        if err is not None and err > 1e-6 * sc:
            nt = True
        if ft is None:
            ctx.expect(
                close(t_tgt.points, g.target.points, rtol=0, atol=0),
                "gpa.transform_target_is_not_gpa_target",
                lambda: "i=%d\n%s" % (i, describe(t_tgt.points, g.target.points)),
            )
            gt = np.array(g.target.points)
            fresh = mt.AlignmentSimilarity(PointCloud(arrays[i].copy()), PointCloud(gt.copy()), allow_mirror=mirror)
            ctx.expect(
                close(t.h_matrix, fresh.h_matrix, rtol=1e-10, scale=max(1.0, float(np.abs(fresh.h_matrix).max()))),
                "gpa.transform_differs_from_fresh_similarity",
                lambda: "i=%d allow_mirror=%s\n%s" % (i, mirror, describe(t.h_matrix, fresh.h_matrix)),
            )
            h_ref, _, _, info = R.ref_similarity(arrays[i], gt, True, mirror)
            e_fit = sse_h(np.array(t.h_matrix), arrays[i], gt)
            e_ref = sse_h(h_ref, arrays[i], gt)
            tol2 = 1e-9 * len(gt) * sc * sc
            ctx.expect(
                abs(e_fit - e_ref) <= tol2,
                "gpa.transform_not_reference_similarity",
                lambda: "i=%d allow_mirror=%s sse %.12g vs reference %.12g" % (i, mirror, e_fit, e_ref),
            )
            if info["gap"] > 1e-3:
                ctx.expect(
                    close(t.h_matrix, h_ref, rtol=1e-9 / info["gap"], scale=max(1.0, float(np.abs(h_ref).max()))),
                    "gpa.transform_matrix_differs_from_reference",
                    lambda: "i=%d\n%s" % (i, describe(t.h_matrix, h_ref)),
                )
    ctx.nontrivial(nt)
    # the summary: mean over the transforms of |transform's target - transform(source)|_F
    want_mean = sum(math.sqrt(R.sse(np.asarray(t.target.points), R.apply_h(np.array(t.h_matrix), arrays[i])))
                    for i, t in enumerate(ts)) / len(ts)
    got_mean = g.mean_alignment_error()
    ctx.expect(
        isinstance(got_mean, (float, np.floating)) and abs(float(got_mean) - want_mean) <= 1e-9 * max(1.0, want_mean) + 1e-10 * sc,
        "gpa.mean_alignment_error_is_not_the_mean_of_the_errors",
        lambda: "mean_alignment_error() = %r, mean of the %d Frobenius distances = %r" % (got_mean, len(ts), want_mean),
    )
    if ft is not None:
        ctx.expect(g.target is target_obj, "gpa.fixed_target_not_kept", "")
        dd = digest.parameter_mutation(dig_tgt, digest.digest(target_obj))
        ctx.expect(dd is None, "gpa.fixed_target_mutated", lambda: repr(dd))
    for i, s in enumerate(sources):
        dd = digest.parameter_mutation(dig_src[i], digest.digest(s))
        ctx.expect(dd is None, "gpa.source_mutated", lambda: "i=%d %r" % (i, dd))


# ==============================================================================================
# 8. the same promises on a re-used object: copies, pseudoinverses, in-place compositions, edited targets, set_target

FAMILY_KIND = {
    "AlignmentTranslation": "translation",
    "AlignmentUniformScale": "scale",
    "AlignmentRotation": "rotation",
    "AlignmentSimilarity": "similarity",
    "AlignmentAffine": "affine",
}


@st.composite
def s_set_target(draw, spec, d, n, hows=("new", "equal", "exact", "same")):
    """A set_target step.  same: the PointCloud object the alignment already holds; equal: a fresh PointCloud with
    the same coordinates; new: member(current source) + noise (own or foreign family); exact: a noise-free image of the
    current source under a member of the class's own family."""
    how = draw(st.sampled_from(list(hows)))
    t = {"op": "set_target", "how": how}
    if how == "new":
        t["member"] = draw(st.one_of(own_member(spec, d), foreign_member(spec, d)))
        t["level"] = draw(st.sampled_from(DRAW_LEVELS))
        t["noise"] = draw(s_noise(n, d))
        t["int"] = draw(st.sampled_from([False, False, True]))
    elif how == "exact":
        t["member"] = draw(own_member(spec, d))
    return t


def s_step(spec, d, n):
    compose = st.builds(
        lambda side, m: {"op": "compose", "side": side, "member": m},
        st.sampled_from(["after", "before"]),
        s_member(FAMILY_KIND[spec["cls"]], d, "no"),
    )
    edit = st.builds(lambda k, v: {"op": "edit_target", "row": k, "delta": v}, st.integers(0, n - 1), gen.vec(d, -3, 3))
    return st.one_of(st.just({"op": "copy"}), st.just({"op": "pinv"}), st.just({"op": "pinv"}), compose, compose, edit,
                     s_set_target(spec, d, n))


def s_retarget():
    @st.composite
    def homog(draw):
        # class first (each of the five equally often), then its options
        case = draw(s_homog_fit([draw(st.sampled_from(HOMOG))]))
        spec, d, n = case["spec"], case["d"], len(case["src"]["pts"])
        steps = draw(st.lists(s_step(spec, d, n), min_size=0, max_size=3))
        steps.append(draw(s_set_target(spec, d, n)))
        case["steps"] = steps
        return case

    @st.composite
    def warp(draw):
        case = draw(s_warp(WARP_KINDS, extents=(1.0, EXTENT)))
        n = len(case["src"]["pts"])
        case["pre"] = draw(st.lists(st.one_of(
            st.just({"op": "copy"}),
            st.builds(lambda k, v: {"op": "edit_target", "row": k, "delta": v}, st.integers(0, n - 1), gen.vec(2, -1, 1)),
        ), min_size=0, max_size=2))
        how = draw(st.sampled_from(["new", "equal", "same", "new"]))
        t = {"op": "set_target", "how": how}
        if how == "new":
            t["member"] = draw(st.one_of(s_member("affine", 2), s_member("similarity", 2, "no"), s_member("translation", 2)))
            t["level"] = draw(st.sampled_from(DRAW_LEVELS))
            t["noise"] = draw(s_noise(n, 2))
            t["int"] = draw(st.sampled_from([False, False, True]))
        case["retarget"] = t
        case["picks"] = draw(st.lists(st.tuples(st.integers(0, 63), gen.q(0.01, 0.99), gen.q(0.01, 0.99)).map(list),
                                      min_size=1, max_size=4))
        return case

    return st.one_of(homog(), homog(), homog(), warp())


def build_transform(member, d):
    """A plain (non-alignment) menpo transform for a family member."""
    kind = member["kind"]
    h = build_member(member, d)
    if kind == "translation":
        return mt.Translation(h[:d, d].copy())
    if kind == "scale":
        return mt.UniformScale(float(member["s"]), d)
    if kind == "rotation":
        return mt.Rotation(h[:d, :d].copy())
    if kind in ("similarity", "similarity_norot"):
        return mt.Similarity(h)
    return mt.Affine(h)


def ref_fit(spec, src, tgt):
    """(reference h-matrix of the class's fit of src onto tgt as the property describes it, uniqueness gap)."""
    cls = spec["cls"]
    d = src.shape[1]
    if cls == "AlignmentTranslation":
        return R.hm(np.eye(d), R.best_translation(src, tgt)), 1.0
    if cls == "AlignmentUniformScale":
        return R.hm(np.eye(d) * (R.cnorm(tgt) / R.cnorm(src)), np.zeros(d)), 1.0
    if cls == "AlignmentRotation":
        r, _, info = R.best_orthogonal(src, tgt, spec["allow_mirror"])
        return R.hm(r, np.zeros(d)), info["gap"]
    if cls == "AlignmentSimilarity":
        h, _, _, info = R.ref_similarity(src, tgt, spec["rotation"], spec["allow_mirror"])
        return h, (info["gap"] if spec["rotation"] else 1.0)
    return R.lstsq_affine(src, tgt), 1.0


def check_fit(ctx, a, spec, src, tgt, prefix, note, h_member=None):
    """`a` is to be the class's fit of src onto tgt (recovery / optimality / size / centroid as in clauses 1-3), whatever
    was done to the object before."""
    cls = spec["cls"]
    d, n = src.shape[1], src.shape[0]
    sc = coord_scale(src, tgt)
    tol2 = 1e-9 * n * sc * sc
    h = np.array(a.h_matrix, dtype=float)
    if not well_formed_h(ctx, h, d, cls):
        return
    fitted = apply_matches_matrix(ctx, a, h, src, sc, cls)
    if not gen.non_collinear(src, 0.01):
        ctx.event("current source degenerate: fit oracle skipped")
        return
    h_ref, gap = ref_fit(spec, src, tgt)
    e_ref, e_fit = sse_h(h_ref, src, tgt), R.sse(fitted, tgt)
    ctx.expect(
        abs(e_fit - e_ref) <= tol2,
        prefix + ".residual_differs_from_family_fit." + tag(spec),
        lambda: "%s\nsse %.12g, reference fit of the current source onto the current target %.12g\nfit=\n%r\nreference=\n%r"
        % (note, e_fit, e_ref, h, h_ref),
    )
    if cls in ("AlignmentUniformScale", "AlignmentSimilarity"):
        size_t, size_a = R.cnorm(tgt), R.cnorm(fitted)
        ctx.expect(
            abs(size_a - size_t) <= 1e-9 * max(1.0, size_t),
            prefix + ".size_not_reproduced." + cls,
            lambda: "%s\nsize of aligned source %.12g, of target %.12g (source %.12g)" % (note, size_a, size_t, R.cnorm(src)),
        )
    if cls == "AlignmentSimilarity":
        ct, ca = R.centroid(tgt), R.centroid(fitted)
        ctx.expect(close(ca, ct, rtol=1e-9, scale=sc), prefix + ".centroid_not_reproduced",
                   lambda: "%s\naligned centroid %r, target centroid %r" % (note, ca, ct))
    if cls in ("AlignmentRotation", "AlignmentSimilarity") and not (spec["allow_mirror"] and spec.get("rotation", True)):
        det = float(np.linalg.det(h[:d, :d]))
        ctx.expect(det > 0, prefix + ".reflection_without_allow_mirror." + cls, lambda: "%s\ndet=%r" % (note, det))
    if cls == "AlignmentAffine":
        mtol = 1e-11 * R.design_cond(src) ** 2 + 1e-9
    elif cls in ("AlignmentRotation", "AlignmentSimilarity"):
        mtol = 1e-9 / max(gap, 1e-12)
    else:
        mtol = 1e-10
    if gap > 1e-3:
        hs = max(1.0, float(np.abs(h_ref).max()))
        ctx.expect(
            close(h, h_ref, rtol=mtol, scale=hs),
            prefix + ".h_matrix_differs_from_family_fit." + tag(spec),
            lambda: "%s\n%s" % (note, describe(h, h_ref)),
        )
        if h_member is not None:
            ctx.expect(
                close(h, h_member, rtol=mtol, scale=max(1.0, float(np.abs(h_member).max()))),
                prefix + ".member_not_recovered." + tag(spec),
                lambda: "%s\ntarget = member(source) exactly\n%s" % (note, describe(h, h_member)),
            )
    else:
        ctx.event("optimum not unique by margin: matrix comparison skipped")


def _edit_target_in_place(a, row, delta):
    """The caller edits the coordinates of the target it handed over (same array, one landmark moved)."""
    pts = a.target.points
    new = np.array(pts[row], dtype=float) + gen.arr(delta)
    if pts.dtype.kind in "iu":
        new = np.round(new)
    pts[row] = new
    return np.array(pts, dtype=float)


def c_retarget(case, ctx):
    if "kind" in case:
        return c_retarget_warp(case, ctx)
    spec, d = case["spec"], case["d"]
    cls = spec["cls"]
    src, tgt, _ = build_pair(case)
    src_obj, tgt_obj = pcs(case, src, tgt)
    ctx.event("class=%s" % tag(spec))
    ctx.event("d=%d" % d)
    a = build_alignment(spec, src_obj, tgt_obj)
    h0 = np.array(a.h_matrix, dtype=float)
    cur_src, cur_tgt = src.copy(), tgt.copy()
    synced = True  # the map is expected to be the family's fit of cur_src onto cur_tgt
    desync = None
    history = ["%s(source, target)" % tag(spec)]
    for step in case["steps"]:
        op = step["op"]
        target_known = True
        h_member = None
        if op == "copy":
            a = a.copy()
            history.append("copy()")
        elif op == "pinv":
            # an alignment of the same class from the old target back onto the old source
            e_fwd = R.sse(R.apply_h(np.array(a.h_matrix, dtype=float), cur_src), cur_tgt)
            a = a.pseudoinverse()
            cur_src, cur_tgt = cur_tgt, cur_src
            sc_now = coord_scale(cur_src, cur_tgt)
            if cls == "AlignmentAffine" and e_fwd > 1e-18 * len(cur_src) * sc_now * sc_now:
                # the inverse of a least-squares affine fit is not the least-squares fit of the swapped pair
                if synced:
                    desync = "pseudoinverse of a noisy affine fit"
                synced = False
            history.append("pseudoinverse()")
        elif op == "compose":
            t = build_transform(step["member"], d)
            if step["side"] == "after":
                a.compose_after_inplace(t)
            else:
                a.compose_before_inplace(t)
            # (AlignmentAffine re-derives its target from the new state, the others keep theirs: not asserted)
            cur_tgt = np.array(a.target.points, dtype=float)
            target_known = False
            synced = False
            desync = "compose_%s_inplace" % step["side"]
            history.append("compose_%s_inplace(%s)" % (step["side"], step["member"]["kind"]))
        elif op == "edit_target":
            cur_tgt = _edit_target_in_place(a, step["row"], step["delta"])
            target_known = False
            synced = False
            desync = "target edited in place"
            history.append("target.points[%d] += delta" % step["row"])
        else:
            how = step["how"]
            if how == "same":
                new_t = a.target
            elif how == "equal":
                new_t = PointCloud(np.array(a.target.points))
            else:
                hm2 = build_member(step["member"], d)
                arr = R.apply_h(hm2, cur_src)
                if how == "new":
                    arr = arr + step["level"] * EXTENT * gen.arr(step["noise"])
                    if step["int"]:
                        arr = int_target(arr)
                    new_t = make_pc(arr, step["int"] and is_int_valued(arr))
                else:
                    new_t = PointCloud(arr)
                    h_member = hm2
            if how in ("same", "equal") and desync is not None and not synced:
                ctx.event("set_target(%s) after: %s" % (how, desync))
            a.set_target(new_t)
            cur_tgt = np.array(new_t.points, dtype=float)
            synced = True
            desync = None
            history.append("set_target(%s)" % how)
        ctx.event("op=%s" % (op if op != "set_target" else "set_target(%s)" % step["how"]))
        note = " -> ".join(history)
        sc = coord_scale(cur_src, cur_tgt)
        pre = "retarget." + ("pseudoinverse" if op == "pinv" else op)
        check_bookkeeping(ctx, a, cls, a.source, a.target, cur_src, cur_tgt, sc, exact_target=target_known, prefix=pre)
        if synced and op in ("copy", "pinv", "set_target"):
            check_fit(ctx, a, spec, cur_src, cur_tgt, pre, note, h_member=h_member)
    h1 = np.array(a.h_matrix, dtype=float)
    ctx.nontrivial(h1.shape == h0.shape and maxdiff(h1, h0) > 1e-6 * max(1.0, float(np.abs(h0).max())))


def c_retarget_warp(case, ctx):
    kind = case["kind"]
    base = kind.split(":")[0]
    src, tgt, trilist, src_pc, tgt_pc, ctor = prep_warp(case)
    name = kind.replace(":", "_")
    ctx.event("class=%s" % kind)
    a = ctor()
    history = [kind]
    cur_tgt = tgt.copy()
    for step in case["pre"]:
        if step["op"] == "copy":
            a = a.copy()
            history.append("copy()")
        else:
            cur_tgt = _edit_target_in_place(a, step["row"], [v * case["extent"] for v in step["delta"]])
            history.append("target.points[%d] += delta" % step["row"])
        ctx.event("op=%s" % step["op"])
    rt = case["retarget"]
    how = rt["how"]
    if how == "same":
        new_t = a.target
    elif how == "equal":
        new_t = PointCloud(np.array(a.target.points))
    else:
        arr = R.apply_h(build_member(rt["member"], 2), src) + rt["level"] * case["extent"] * gen.arr(rt["noise"])
        if rt["int"]:
            arr = int_target(arr)
        new_t = make_pc(arr, rt["int"] and is_int_valued(arr))
    a.set_target(new_t)
    history.append("set_target(%s)" % how)
    ctx.event("op=set_target(%s)" % how)
    note = " -> ".join(history)
    t2 = np.array(new_t.points, dtype=float)
    sc = coord_scale(src, tgt, t2)
    ctx.nontrivial(maxdiff(t2, tgt) > 1e-3 * sc)
    if base == "TPS":
        smin, _ = R.tps_min_singular(src, tps_kernel_name(kind))
        strict = smin >= 100 * a.min_singular_val
        got = a.apply(src)
        ctx.expect(
            close(got, t2, rtol=1e-8 if strict else 1e-4, scale=sc),
            "retarget.set_target.tps.landmarks_not_hit" + ("" if strict else ".truncation_regime"),
            lambda: "%s\n%s" % (note, describe(got, t2)),
        )
    else:
        tl = [[int(v) for v in tri] for tri in (trilist if trilist is not None else np.asarray(a.trilist))]
        quality = R.tri_min_quality(src, tl)
        tol = 1e-11 / max(quality, 1e-9) + 1e-10
        got = a.apply(src)
        ctx.expect(close(got, t2, rtol=tol, scale=sc), "retarget.set_target.pwa.landmarks_not_hit." + base,
                   lambda: "%s\n%s" % (note, describe(got, t2)))
        pts, owner = [], []
        for k, u, v in case["picks"]:
            k = k % len(tl)
            p = inside_point(src, tl[k], u, v)
            if R.locate(src, tl, p) == [k]:
                pts.append(p)
                owner.append(k)
        if pts:
            pts = np.array(pts)
            got = a.apply(pts)
            want = np.array([R.bary_map(src[tl[k]], t2[tl[k]], p) for k, p in zip(owner, pts)])
            ctx.expect(close(got, want, rtol=tol, scale=sc), "retarget.set_target.pwa.interior_not_barycentric_map." + base,
                       lambda: "%s\n%s" % (note, describe(got, want)))
    check_bookkeeping(ctx, a, name, a.source, a.target, src, t2, sc, prefix="retarget.set_target")


CLAUSES = [
    Clause("recover", c_recover, s_recover, quick=800, thorough=20000, nt_floor=0.5,
           rule="5 homogeneous alignment classes x options x 2-D/3-D; noise-free target made by a member of the class's "
                "own family (reflections only where allow_mirror); non-trivial: member differs from identity by > 1 %"),
    Clause("optimal", c_optimal, s_optimal, quick=800, thorough=20000, nt_floor=0.4,
           rule="AlignmentTranslation / AlignmentRotation (mirror on/off) / AlignmentAffine; own or foreign family member + "
                "noise; reference optimum + 50 competitors (6 drawn, 44 seeded) at relative distance 1e-3..1e-1; "
                "non-trivial: reference residual > 0"),
    Clause("scale_similarity", c_scale_similarity, s_scale_similarity, quick=800, thorough=20000, nt_floor=0.4,
           rule="AlignmentUniformScale and AlignmentSimilarity (rotation x allow_mirror), 2-D/3-D; centroid, size, "
                "reference rotation, 50 competitor rotations; non-trivial: residual > 0"),
    Clause("interpolate", c_interpolate, s_interpolate, quick=600, thorough=15000, nt_floor=0.3,
           rule="TPS x 3 kernels (extent 0.5..2 strict, 10/100 truncation regime) and PWA x implementation x source kind; "
                "non-trivial: target differs from source (TPS: and no truncation possible)"),
    Clause("pwa_affine", c_pwa_affine, s_pwa_affine, quick=500, thorough=12000, nt_floor=0.4,
           rule="PWA x implementation x source kind; 2-8 interior points, 1-3 interior segments, 1-5 shared-edge points"),
    Clause("bookkeeping", c_bookkeeping, s_bookkeeping, quick=800, thorough=20000, nt_floor=0.3,
           rule="every alignment class (5 homogeneous x options x 2-D/3-D, TPS x kernels, PWA x implementation x source kind); "
                "non-trivial: non-zero residual (homogeneous) / target differs from source (warps)"),
    Clause("gpa", c_gpa, s_gpa, quick=250, thorough=6000, nt_floor=0.4,
           rule="2-6 noisy similarity images of a base shape (some reflected), 2-D/3-D, target None / one of the sources / "
                "a new shape, allow_mirror on/off; non-trivial: some transform has non-zero alignment error"),
    Clause("retarget", c_retarget, s_retarget, quick=700, thorough=16000, nt_floor=0.3,
           rule="an alignment of any class is built, then re-used: 0-3 drawn steps out of copy() / pseudoinverse() / "
                "compose_after|before_inplace(member of its family) / in-place edit of the held target / set_target, then "
                "a final set_target with the held target object, an equal copy, a new target (own or foreign family + "
                "noise, float or int64) or an exact family image of the current source; after every step bookkeeping, "
                "after copy / pseudoinverse / set_target the fit oracles of clauses 1-4 for the CURRENT (source, target); "
                "warps: copy / edit, then set_target; non-trivial: the map after the sequence differs from the map "
                "after construction (warps: the final target differs from the first)"),
]
