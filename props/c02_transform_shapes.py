"""C02 - transforming a shape moves points and landmarks as one and mutates nothing."""
import re

import numpy as np
from hypothesis import strategies as st

from vlib.runner import Clause
from vlib import gen, objs, digest
from vlib.tol import close, describe

from menpo.transform.piecewiseaffine.base import TriangleContainmentError

PROPERTY = "C02"
RULE = (
    "Hypothesis draws a shape (8 classes, 2-D/3-D, 3-9 points, 0-3 landmark groups each of any shape class) and a "
    "transform (12 homogeneous-family classes incl. alignments, TransformChain of 1-3 members, WithDims by list / int / "
    "mask, ThinPlateSplines with 3 kernels, CachedPWA / PythonPWA; for piecewise-affine transforms all shape and "
    "landmark points are rebuilt as convex combinations of source triangles so they lie in the domain) and a batch "
    "size. Non-trivial: the transform moves at least one point and the shape has a landmark group or carries "
    "structure (trilist / adjacency / labels / colours / texture). Distinct = distinct canonical-JSON digest."
)
ASSUMPTIONS = [
    "reference evaluation: explicit homogeneous product from independently built matrices for the 7 plain classes, from "
    "a snapshot of h_matrix for alignment classes (their fits are C07's subject), column slicing for WithDims; for "
    "TPS / PWA the reference is the same transform applied to the bare array (their maps are C07/C09's subject)",
    "transform caches (CachedPWA._applied_points/_iab) may change; parameters may not",
]

_PTS = re.compile(r"^(\.points|\._landmarks\._landmark_groups\[.*\]\.points)$")
_CACHE = ("._applied_points", "._iab")


def _tok(a):
    a = np.asarray(a)
    return (str(a.dtype), a.shape, a.tobytes())


def structure_digest(o, depth=0):
    """Everything a shape carries besides coordinates, read through the PUBLIC API only (so that the check does not
    depend on private attribute names): class, point count, triangle list, adjacency, label -> mask dict in order,
    colours, texture coordinates, texture pixels, root / predecessors, and recursively the landmark groups
    (names in order, classes, structure)."""
    out = [("class", type(o).__name__), ("n_points", int(o.n_points))]
    if hasattr(o, "trilist"):
        out.append(("trilist", _tok(o.trilist)))
    if hasattr(o, "adjacency_matrix"):
        m = o.adjacency_matrix.tocoo()
        order = np.lexsort((m.col, m.row))
        out.append(("adjacency", (tuple(m.shape), _tok(m.row[order]), _tok(m.col[order]), _tok(m.data[order]))))
    if hasattr(o, "with_labels"):
        # label -> member indices in label order, through the public JSON form
        out.append(("labels", tuple((d["label"], tuple(d["mask"])) for d in o.tojson()["labels"])))
    if hasattr(o, "colours"):
        out.append(("colours", _tok(o.colours)))
    if hasattr(o, "tcoords"):
        out.append(("tcoords", _tok(o.tcoords.points)))
    if hasattr(o, "texture"):
        out.append(("texture", _tok(o.texture.pixels)))
    if hasattr(o, "root_vertex"):
        out.append(("root_vertex", int(o.root_vertex)))
        out.append(("predecessors", tuple(o.predecessors_list)))
    if depth == 0 and getattr(o, "has_landmarks", False):
        for nm in o.landmarks.keys():
            out.append(("landmark:" + nm, tuple(structure_digest(o.landmarks[nm], depth + 1))))
    return tuple(out)


@st.composite
def s_case(draw):
    d = draw(st.sampled_from([2, 2, 3]))
    shape = draw(objs.shape_case(d=d))
    t = draw(objs.transform_case(d=d))
    c = {"shape": shape, "t": t, "batch": draw(st.sampled_from([None, None, 1, 3, "n", "n+5"])),
         # integer-typed coordinates (pixel positions) are legal: "none", the whole shape, or only its landmark groups
         "int_coords": draw(st.sampled_from(["none", "none", "none", "all", "landmarks"])),
         "reparam": draw(st.sampled_from(["from_vector", "set_target", "pseudoinverse"])),
         "reparam_w": draw(st.lists(gen.q(-0.25, 0.25), min_size=16, max_size=16))}
    if t["kind"] in ("CachedPWA", "PythonPWA"):
        c["picks"] = draw(objs.bary_picks(40, 40))
    return c


def ref_eval(tc, t_built, x):
    """Independent evaluation of the map on an array, or None when there is no independent reference."""
    kind = tc["kind"]
    if kind in objs.PLAIN_HOMOG_KINDS:
        return objs.ref_apply_h(objs.ref_h(tc), x)
    if kind in objs.ALIGN_KINDS:
        return objs.ref_apply_h(t_built.h_matrix.copy(), x)
    if kind == "WithDims":
        dims = tc["dims"]
        if tc["form"] == "int":
            cols = [dims]
        elif tc["form"] == "mask":
            cols = [i for i, b in enumerate(dims) if b]
        else:
            cols = list(dims)
        return np.array([[row[k] for k in cols] for row in np.asarray(x)], dtype=float).reshape(len(x), len(cols))
    if kind == "TransformChain":
        y = np.asarray(x, dtype=float)
        for m, mb in zip(tc["members"], t_built.transforms):
            y = ref_eval(m, mb, y)
            if y is None:
                return None
        return y
    return None


def _build_shape_int(case):
    """objs.build_shape, with the coordinates of marked (sub)shapes rounded and stored as int64."""
    lms = case.get("lms", [])
    base = dict(case)
    base["lms"] = []
    if case.get("int"):
        base["pts"] = [[float(round(v)) for v in row] for row in case["pts"]]
    s = objs.build_shape(base)
    if case.get("int"):
        s.points = np.array(base["pts"]).astype(np.int64)
    for nm, sub in lms:
        s.landmarks[nm] = _build_shape_int(sub)
    return s


def c_case(c, ctx):
    tc = c["t"]
    sc = c["shape"]
    ctx.event("shape=%s" % sc["kind"])
    ctx.event("transform=%s" % tc["kind"])
    ctx.event("pair=%s x %s" % (sc["kind"], tc["kind"]))
    t = objs.build_transform(tc)
    if tc["kind"] in ("CachedPWA", "PythonPWA"):
        # move every point of the shape and of its landmark groups into the PWA domain
        tl = t.trilist
        picks = list(c["picks"])

        def relocate(case):
            n = len(case["pts"])
            sub = [picks.pop(0) for _ in range(n)]
            case = dict(case)
            case["pts"] = objs.bary_points(tc["src"], tl, sub).tolist()
            if "lms" in case:
                case["lms"] = [[nm, relocate(sub_case)] for nm, sub_case in case["lms"]]
            return case

        sc = relocate(sc)
    ic = c.get("int_coords", "none")
    if ic != "none" and tc["kind"] not in ("CachedPWA", "PythonPWA"):
        def to_int(case, top):
            case = dict(case)
            if top and "lms" in case:
                case["lms"] = [[nm, to_int(sub, False)] for nm, sub in case["lms"]]
            if (not top) or ic == "all":
                case["int"] = True
            return case

        sc = to_int(sc, True)
    shape = _build_shape_int(sc)
    ctx.event("int_coords=%s" % ic)
    n = shape.n_points
    bs = c["batch"]
    bs = {"n": n, "n+5": n + 5}.get(bs, bs)
    ctx.event("batch=%s" % c["batch"])

    bare = shape.points.copy()
    d_shape = digest.digest(shape)
    d_t = digest.digest(t, skip=_CACHE)
    d_struct = structure_digest(shape)

    r = t.apply(shape, batch_size=bs)
    on_array = t.apply(bare, batch_size=bs)

    ctx.expect(type(r) is type(shape), "result_class", "%s -> %s" % (type(shape).__name__, type(r).__name__))
    scale = 1.0 + float(np.abs(on_array).max()) if on_array.size else 1.0
    bare0 = bare.copy()
    # "applying the transform to the bare coordinate array gives the same numbers" must also hold when the caller
    # re-uses its buffer: refill the very array that was applied with other coordinates of the same shape (the
    # rows reversed and nudged, still inside the domain for piecewise-affine maps) and apply again; a fresh
    # instance of the same transform applied to the same values is the history-free reference
    if bare.shape[0] >= 2:
        refill = 0.75 * bare[::-1] + 0.25 * bare  # convex combinations of in-domain points: still in the (convex) domain
        fresh = objs.build_transform(tc)
        try:
            want2 = fresh.apply(refill.copy())
        except TriangleContainmentError:
            want2 = None
        if want2 is not None:
            buf = refill.copy()
            got2 = t.apply(buf, batch_size=bs)  # new values: the transform has to evaluate them
            ctx.expect(close(got2, want2, rtol=0, atol=1e-12 * scale), "second_apply_depends_on_first",
                       lambda: "apply of other values after a first apply\n" + describe(got2, want2))
            buf[:] = bare0  # the caller refills its buffer in place ...
            got3 = t.apply(buf, batch_size=bs)  # ... and applies it again
            ctx.expect(close(got3, on_array, rtol=0, atol=1e-12 * scale), "reused_buffer_gives_stale_result",
                       lambda: "array refilled in place and applied again\n" + describe(got3, on_array))
            ctx.event("buffer reuse checked")
    bare = bare0
    ctx.expect(close(r.points, on_array, rtol=0, atol=1e-12 * scale), "points_vs_bare_array", lambda: describe(r.points, on_array))
    want = ref_eval(tc, t, bare)
    if want is not None:
        ctx.expect(close(r.points, want, atol=1e-9 * scale), "points_vs_reference", lambda: describe(r.points, want))
        ctx.event("independent reference")
    moved = r.points.shape != bare.shape or not np.allclose(r.points, bare)

    # landmarks moved by the same map, same classes, same order
    names = list(shape.landmarks.keys()) if shape.has_landmarks else []
    rnames = list(r.landmarks.keys()) if r.has_landmarks else []
    ctx.expect(names == rnames, "landmark_groups", "%r -> %r" % (names, rnames))
    for nm in names:
        if nm not in rnames:
            continue
        g, rg = shape.landmarks[nm], r.landmarks[nm]
        ctx.expect(type(g) is type(rg), "landmark_class", "%s -> %s" % (type(g).__name__, type(rg).__name__))
        wl = t.apply(g.points.copy())
        ctx.expect(close(rg.points, wl, rtol=0, atol=1e-12 * scale), "landmarks_vs_bare_array", lambda: "group %r\n%s" % (nm, describe(rg.points, wl)))
        wr = ref_eval(tc, t, g.points)
        if wr is not None:
            ctx.expect(close(rg.points, wr, atol=1e-9 * scale), "landmarks_vs_reference", lambda: "group %r\n%s" % (nm, describe(rg.points, wr)))

    # carried structure identical
    dd = digest.digest_diff(d_struct, structure_digest(r))
    ctx.expect(dd is None, "structure_changed", lambda: repr(dd))

    # nothing mutated, nothing shared
    dd = digest.parameter_mutation(d_shape, digest.digest(shape))
    ctx.expect(dd is None, "input_shape_mutated", lambda: repr(dd))
    dd = digest.parameter_mutation(d_t, digest.digest(t, skip=_CACHE))
    ctx.expect(dd is None, "transform_mutated", lambda: repr(dd))

    # after a re-parametrisation of a transform that has already been applied, "points are the transformed points"
    # still has to hold: the map is the one of the NEW parameters (reference: explicit product with the new h_matrix)
    if tc["kind"] in objs.HOMOG_KINDS:
        how = c.get("reparam", "from_vector")
        t2 = None
        try:
            if how == "from_vector":
                v = t.as_vector()
                w = np.array(c["reparam_w"][: v.shape[0]] + [0.0] * max(0, v.shape[0] - 16))
                if tc["kind"] in ("Rotation", "AlignmentRotation"):
                    q2 = v + w
                    v2 = q2 / np.linalg.norm(q2)
                elif tc["kind"] in ("UniformScale", "NonUniformScale", "AlignmentUniformScale"):
                    v2 = v * (1.5 + w)
                else:
                    v2 = v + w
                t2 = t.from_vector(v2)
            elif how == "set_target" and tc["kind"] in objs.ALIGN_KINDS:
                t2 = t.copy()
                newt = gen.arr(tc["tgt"])[::-1] * 1.25 + 0.5
                from menpo.shape import PointCloud as _PC

                t2.set_target(_PC(newt))
            elif how == "pseudoinverse":
                t2 = t.pseudoinverse()
        except NotImplementedError:
            t2 = None  # not vectorizable in this dimension (documented)
        if t2 is not None:
            ctx.event("reparam=%s" % how)
            x = bare0.copy()
            got = t2.apply(x)
            want = objs.ref_apply_h(t2.h_matrix.copy(), x)
            sc2 = 1.0 + float(np.abs(want).max())
            if np.all(np.isfinite(want)) and sc2 < 1e6:
                ctx.expect(close(got, want, rtol=0, atol=1e-9 * sc2), "apply_after_reparametrisation_uses_stale_state." + how,
                           lambda: "%s: apply disagrees with the transform's own h_matrix\n%s" % (tc["kind"], describe(got, want)))
    ctx.expect(np.array_equal(bare, shape.points), "input_points_mutated", "")
    sh = digest.shared_buffers(shape, r)
    ctx.expect(not sh, "result_shares_buffer_with_input", lambda: repr(sh[:4]))
    sh = digest.shared_buffers(t, r, skip=_CACHE)
    ctx.expect(not sh, "result_shares_buffer_with_transform", lambda: repr(sh[:4]))

    structured = sc["kind"] != "PointCloud"
    ctx.nontrivial(moved and (bool(names) or structured))


CLAUSES = [
    Clause("apply", c_case, s_case, quick=6000, thorough=150000, nt_floor=0.5,
           rule="shape class x transform class x batch size; see RULE"),
]
