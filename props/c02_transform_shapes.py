"""C02 - transforming a shape moves points and landmarks as one and mutates nothing."""
import math

import numpy as np
from hypothesis import strategies as st

from vlib.runner import Clause
from vlib import gen, objs, digest
from vlib.tol import close, describe

from menpo.transform.piecewiseaffine.base import TriangleContainmentError

PROPERTY = "C02"
RULE = (
    "Hypothesis draws a shape (8 classes, 2-D/3-D, 3-9 points or a degenerate 0/1/2-point shape, possibly an empty "
    "triangle list, 0-3 landmark groups each of any shape class - groups may be empty and may carry 0-2 landmark "
    "groups of their own; coordinates float64, float32 or int64, magnitude ~10 or ~1e6) and a transform (12 "
    "homogeneous-family classes incl. alignments, TransformChain of 1-3 homogeneous members or a heterogeneous chain "
    "with TPS / WithDims / nested chains / a leading piecewise-affine member, WithDims by list / int / mask, "
    "ThinPlateSplines with 3 kernels, CachedPWA / PythonPWA; for piecewise-affine maps all shape and landmark points "
    "are rebuilt as convex combinations of source triangles so they lie in the domain) and a batch size. "
    "Non-trivial: the transform moves at least one point and the shape has a landmark group or carries structure "
    "(trilist / adjacency / labels / colours / texture). Clause refusal: sequences of applications of one "
    "piecewise-affine transform (or a chain led by one) to in-domain and partly out-of-domain shapes / arrays. "
    "Clause about_centre: the *_about_centre factories built from a shape and applied to it. "
    "Distinct = distinct canonical-JSON digest."
)
ASSUMPTIONS = [
    "reference evaluation: explicit homogeneous product from independently built matrices for the 7 plain classes, from "
    "a snapshot of h_matrix for alignment classes (their fits are C07's subject), column slicing for WithDims, "
    "sequential evaluation member by member for chains (a member without an independent reference is evaluated by a "
    "freshly built twin of that member alone); for bare TPS / PWA the reference is the same transform applied to the "
    "bare array (their maps are C07/C09's subject)",
    "transform caches (CachedPWA._applied_points/_iab) may change; parameters may not",
    "numbers are not compared with the reference within 1e-4 (relative) of a pole of a perspective map",
    "alignment classes are affine by contract: the reference ignores the round-off (1e-16) in the bottom row of a fitted "
    "h_matrix; reference tolerance is relative to the larger of the result and the terms summed (cancellation)",
    "coordinates ~1e6 only for maps without perspective terms, splines or triangulated domains (conditioning)",
    "float32 coordinates: reference comparison at 1e-5 relative (no dtype assertion); shape vs bare array stays tight",
    "copy() of a shape is trusted when judging _apply_inplace (C06's subject)",
]

_CACHE = ("._applied_points", "._iab")
MESH_KINDS = ("TriMesh", "ColouredTriMesh", "TexturedTriMesh")
PWA_KINDS = ("CachedPWA", "PythonPWA")
GROUP_NAMES = ["g", "PTS", "left eye", "ü", "a.b", "*", "0"]
BIG_SCALE = 131072.0  # 2**17: extent 10 -> ~1.3e6, exact in binary
BIG_OFFSET = 1048576.0  # 2**20


def _tok(a):
    a = np.asarray(a)
    return (str(a.dtype), a.shape, a.tobytes())


def structure_digest(o):
    """Everything a shape carries besides coordinates, read through the PUBLIC API only (so that the check does not
    depend on private attribute names): class, point count, triangle list, adjacency, label -> mask dict in order,
    colours, texture coordinates, texture pixels, root / predecessors, and recursively (any depth) the landmark
    groups (names in order, classes, structure)."""
    out = [("class", type(o).__name__), ("n_points", int(o.n_points))]
    if hasattr(o, "trilist"):
        out.append(("trilist", _tok(o.trilist)))
    if hasattr(o, "adjacency_matrix"):
        m = o.adjacency_matrix.tocoo()
        order = np.lexsort((m.col, m.row))
        out.append(("adjacency", (tuple(m.shape), _tok(m.row[order]), _tok(m.col[order]), _tok(m.data[order]))))
    if hasattr(o, "with_labels"):
        # label -> member indices in label order, through the public JSON form
        out.append(("labels", tuple((d["label"], tuple(d["mask"])) for d in o.tojson()["labels"])))
    if hasattr(o, "colours"):
        out.append(("colours", _tok(o.colours)))
    if hasattr(o, "tcoords"):
        out.append(("tcoords", _tok(o.tcoords.points)))
    if hasattr(o, "texture"):
        out.append(("texture", _tok(o.texture.pixels)))
    if hasattr(o, "root_vertex"):
        out.append(("root_vertex", int(o.root_vertex)))
        out.append(("predecessors", tuple(o.predecessors_list)))
    if getattr(o, "has_landmarks", False):
        for nm in o.landmarks.keys():
            out.append(("landmark:" + nm, tuple(structure_digest(o.landmarks[nm]))))
    return tuple(out)


def group_names(shape):
    return list(shape.landmarks.keys()) if shape.has_landmarks else []


def all_groups(shape, prefix=""):
    """(path, group) for every landmark group reachable from the shape, at any depth, in key order."""
    out = []
    for nm in group_names(shape):
        g = shape.landmarks[nm]
        p = prefix + "/" + nm
        out.append((p, g))
        out.extend(all_groups(g, p))
    return out


# ==============================================================================================
# shapes: plain data + builder (own builder: degenerate sizes, empty trilists, dtypes, magnitudes, nesting)


@st.composite
def small_shape_case(draw, d):
    """0-, 1- and 2-point shapes of every class that admits the size (graphs need a vertex, a tree needs an edge);
    meshes get an empty triangle list."""
    n = draw(st.sampled_from([0, 1, 1, 2]))
    kinds = ["PointCloud"] + list(MESH_KINDS)
    if n >= 1:
        kinds += ["PointUndirectedGraph", "PointDirectedGraph", "LabelledPointUndirectedGraph"]
    if n >= 2:
        kinds += ["PointTree"]
    kind = draw(st.sampled_from(kinds))
    pts = draw(gen.points_case(n=n, d=d)) if n else []
    case = {"kind": kind, "d": d, "pts": pts}
    if kind in MESH_KINDS:
        case["tri"] = []
    if kind == "ColouredTriMesh":
        case["colours"] = draw(st.lists(st.lists(gen.q(0, 1, 256), min_size=3, max_size=3), min_size=n, max_size=n))
    if kind == "TexturedTriMesh":
        case["tcoords"] = draw(st.lists(st.lists(gen.q(0, 1, 256), min_size=2, max_size=2), min_size=n, max_size=n))
        case["tex"] = {"shape": [2, 3], "ch": draw(st.sampled_from([1, 3])), "seed": draw(st.integers(0, 2**16))}
    if kind in ("PointUndirectedGraph", "LabelledPointUndirectedGraph"):
        case["edges"] = [[0, 1]] if (n == 2 and draw(st.booleans())) else []
    if kind == "PointDirectedGraph":
        case["edges"] = draw(st.sampled_from([[], [[0, 1]], [[1, 0]], [[0, 1], [1, 0]]])) if n == 2 else []
    if kind == "PointTree":
        case["edges"] = [[0, 1]]
        case["root"] = 0
    if kind == "LabelledPointUndirectedGraph":
        case["labels"] = draw(objs.label_case(n))
    return case


@st.composite
def group_case(draw, d, nested):
    """A landmark group: any shape class, sometimes degenerate (empty / 1-2 points), with 0-2 groups of its own."""
    if draw(st.integers(0, 6)) == 0:
        g = draw(small_shape_case(d))
    else:
        g = draw(objs.shape_case(d=d, with_landmarks=False, n_min=3, n_max=6))
        if g["kind"] in MESH_KINDS and draw(st.integers(0, 9)) == 0:
            g["tri"] = []
    if nested:
        k = draw(st.sampled_from([0, 1, 1, 2]))
        names = draw(st.lists(st.sampled_from(GROUP_NAMES), min_size=k, max_size=k, unique=True))
        g["lms"] = [[nm, draw(group_case(d, False))] for nm in names]
    return g


@st.composite
def s_shape(draw, d, small_ok=True):
    mode = draw(st.sampled_from(["flat", "flat", "nested", "nested", "nested", "small"] if small_ok else ["flat", "nested"]))
    if mode == "small":
        sc = draw(small_shape_case(d))
        k = draw(st.integers(0, 2))
        names = draw(st.lists(st.sampled_from(GROUP_NAMES), min_size=k, max_size=k, unique=True))
        sc["lms"] = [[nm, draw(group_case(d, draw(st.booleans())))] for nm in names]
        return sc
    if mode == "flat":
        sc = draw(objs.shape_case(d=d))
    else:
        sc = draw(objs.shape_case(d=d, with_landmarks=False))
        k = draw(st.integers(1, 3))
        names = draw(st.lists(st.sampled_from(GROUP_NAMES), min_size=k, max_size=k, unique=True))
        sc["lms"] = [[nm, draw(group_case(d, True))] for nm in names]
    if sc["kind"] in MESH_KINDS and draw(st.integers(0, 11)) == 0:
        sc["tri"] = []
    return sc


def map_case(case, f, depth=0):
    """A copy of the shape case with f(node, depth) applied to every (sub)shape."""
    case = dict(case)
    if "lms" in case:
        case["lms"] = [[nm, map_case(sub, f, depth + 1)] for nm, sub in case["lms"]]
    return f(case, depth)


def count_points(case):
    return len(case["pts"]) + sum(count_points(sub) for _, sub in case.get("lms", []))


def has_empty(case):
    return len(case["pts"]) == 0 or any(has_empty(sub) for _, sub in case.get("lms", []))


def case_depth(case):
    return 1 + max([case_depth(sub) for _, sub in case.get("lms", [])] or [-1]) if case.get("lms") else 0


def build_shape(case):
    """Fresh menpo shape from plain data.  Node flags: "dtype" in (None, "int", "f32"), "mag" in (None, "scale", "offset")."""
    from collections import OrderedDict
    from menpo.image import Image
    import menpo.shape as ms

    kind, d = case["kind"], case["d"]
    pts = np.array(case["pts"], dtype=float).reshape(-1, d)
    if case.get("mag") == "scale":
        pts = pts * BIG_SCALE
    elif case.get("mag") == "offset":
        pts = pts + BIG_OFFSET
    dt = case.get("dtype")
    if dt == "int":
        pts = np.round(pts)
    elif dt == "f32":
        pts = pts.astype(np.float32)
    n = pts.shape[0]
    if kind in MESH_KINDS:
        tri = np.array(case["tri"], dtype=int).reshape(-1, 3)
    if kind == "PointCloud":
        s = ms.PointCloud(pts)
    elif kind == "TriMesh":
        s = ms.TriMesh(pts, trilist=tri)
    elif kind == "ColouredTriMesh":
        s = ms.ColouredTriMesh(pts, trilist=tri, colours=np.array(case["colours"], dtype=float).reshape(-1, 3))
    elif kind == "TexturedTriMesh":
        tex = case["tex"]
        im = Image(np.random.RandomState(tex["seed"]).rand(tex["ch"], *tex["shape"]))
        s = ms.TexturedTriMesh(pts, np.array(case["tcoords"], dtype=float).reshape(-1, 2), im, trilist=tri)
    elif kind == "PointUndirectedGraph":
        s = ms.PointUndirectedGraph(pts, objs.edges_to_adjacency(case["edges"], n, False))
    elif kind == "PointDirectedGraph":
        s = ms.PointDirectedGraph(pts, objs.edges_to_adjacency(case["edges"], n, True))
    elif kind == "PointTree":
        s = ms.PointTree(pts, objs.edges_to_adjacency(case["edges"], n, True), case["root"])
    elif kind == "LabelledPointUndirectedGraph":
        l2m = OrderedDict((nm, np.array(mask, dtype=bool)) for nm, mask in case["labels"])
        s = ms.LabelledPointUndirectedGraph(pts, objs.edges_to_adjacency(case["edges"], n, False), l2m)
    else:
        raise ValueError(kind)
    if dt == "int":
        s.points = pts.astype(np.int64)  # pixel positions: menpo keeps the dtype it is given
    for nm, sub in case.get("lms", []):
        s.landmarks[nm] = build_shape(sub)
    return s


# ==============================================================================================
# transforms: objs.transform_case plus heterogeneous chains


@st.composite
def mixed_chain_case(draw, d, depth=0, first=True):
    """TransformChain whose members are of any class: homogeneous family, WithDims (the running dimension is tracked;
    the chain ends when it drops to 1), ThinPlateSplines (2-D), a nested chain, and - only as the very first map, so
    that its domain is known - a piecewise affine."""
    k = draw(st.integers(1, 4 if depth == 0 else 2))
    members, cur = [], d
    for i in range(k):
        opts = ["homog", "homog", "withdims"]
        if cur == 2:
            opts += ["tps"]
            if first and i == 0:
                opts += ["pwa"]
        if depth == 0:
            opts += ["chain", "chain"]
        what = draw(st.sampled_from(opts))
        if what == "homog":
            m = draw(objs.homog_case(d=cur))
        elif what == "withdims":
            m = draw(objs.transform_case(d=cur, kinds=["WithDims"]))
        elif what == "tps":
            m = draw(objs.warp_case(kind="ThinPlateSplines"))
        elif what == "pwa":
            m = draw(objs.warp_case(kind=draw(st.sampled_from(PWA_KINDS))))
        else:
            m = draw(mixed_chain_case(cur, depth + 1, first and i == 0))
        members.append(m)
        cur = out_dim(m)
        if cur not in (2, 3):
            break
    return {"kind": "TransformChain", "d": d, "members": members}


def out_dim(tc):
    if tc["kind"] == "TransformChain":
        cur = tc["d"]
        for m in tc["members"]:
            cur = out_dim(m)
        return cur
    return objs.out_dims(tc)


@st.composite
def s_transform(draw, d):
    if draw(st.integers(0, 4)) == 0:
        return draw(mixed_chain_case(d))
    return draw(objs.transform_case(d=d))


def members_of(tc):
    """The case and every member case below it."""
    out = [tc]
    if tc["kind"] == "TransformChain":
        for m in tc["members"]:
            out.extend(members_of(m))
    return out


def pwa_head(tc, t):
    """(case, built transform) of the piecewise affine that receives the input first, or None."""
    case = tc
    while case["kind"] == "TransformChain" and case["members"]:
        case = case["members"][0]
    if case["kind"] not in PWA_KINDS:
        return None
    while isinstance(getattr(t, "transforms", None), list) and t.transforms:
        t = t.transforms[0]
    return case, t


def has_perspective(tc):
    return any(m["kind"] == "Homogeneous" and any(v != 0 for v in m["persp"]) and not m.get("identity") for m in members_of(tc))


def magnitude_safe(tc):
    return not has_perspective(tc) and not any(m["kind"] in PWA_KINDS + ("ThinPlateSplines",) for m in members_of(tc))


def chain_class(tc):
    if tc["kind"] != "TransformChain":
        return None
    kinds = set(m["kind"] for m in members_of(tc)[1:])
    if kinds <= set(objs.HOMOG_KINDS):
        return "homogeneous"
    return "mixed" + ("+nested" if "TransformChain" in kinds else "") + ("+pwa" if kinds & set(PWA_KINDS) else "")


def ref_apply_h(h, x, stat, affine=False):
    """Explicit homogeneous product by loops; records in stat["minw"] how close (relatively) any point comes to the
    pole of the map (divisor 0).  affine: the class is affine by contract, so the bottom row IS (0, .., 0, 1) (a fitted
    alignment matrix carries round-off of 1e-16 there, which a divide would turn into 1e-9 at coordinates of 1e6)."""
    h = np.array(h, dtype=float)
    x = np.asarray(x, dtype=float)
    d = h.shape[0] - 1
    if affine:
        h[d, :d] = 0.0
        h[d, d] = 1.0
    out = np.zeros((x.shape[0], d))
    for i in range(x.shape[0]):
        v = [sum(h[r, c] * x[i, c] for c in range(d)) + h[r, d] for r in range(d + 1)]
        mag = sum(abs(h[d, c] * x[i, c]) for c in range(d)) + abs(h[d, d])
        stat["minw"] = min(stat["minw"], abs(v[d]) / mag if mag > 0 else 0.0)
        for r in range(d):
            out[i, r] = v[r] / v[d]
            # size of the terms that were summed (an ill-conditioned fitted matrix far from the origin cancels large
            # terms): the rounding error of ANY evaluation order is a few ulp of this, not of the result
            stat["amp"] = max(stat["amp"], (sum(abs(h[r, c] * x[i, c]) for c in range(d)) + abs(h[r, d])) / abs(v[d]) if v[d] else 0.0)
    return out


def ref_eval(tc, t_built, x, stat):
    """Independent evaluation of the map on an array, or None when there is no independent reference.  t_built (the
    transform under test, only read for the fitted matrix of alignment members) may be None: a twin is built."""
    kind = tc["kind"]
    if kind in objs.PLAIN_HOMOG_KINDS:
        return ref_apply_h(objs.ref_h(tc), x, stat)
    if kind in objs.ALIGN_KINDS:
        if t_built is None or type(t_built).__name__ != kind:
            t_built = objs.build_transform(tc)
        return ref_apply_h(t_built.h_matrix.copy(), x, stat, affine=True)
    if kind == "WithDims":
        dims = tc["dims"]
        if tc["form"] == "int":
            cols = [dims]
        elif tc["form"] == "mask":
            cols = [i for i, b in enumerate(dims) if b]
        else:
            cols = list(dims)
        x = np.asarray(x)
        return np.array([[row[k] for k in cols] for row in x], dtype=float).reshape(len(x), len(cols))
    if kind == "TransformChain":
        # sequential application, member by member
        built = getattr(t_built, "transforms", None)
        if not isinstance(built, list) or len(built) != len(tc["members"]):
            built = [None] * len(tc["members"])
        y = np.asarray(x)
        for m, mb in zip(tc["members"], built):
            z = ref_eval(m, mb, y, stat)
            if z is None:
                # no independent model of this member (TPS / PWA): a freshly built twin of the member alone
                z = objs.build_transform(m).apply(np.array(y))
                stat["twin"] = True
            y = z
        return np.asarray(y, dtype=float)
    return None


def new_stat():
    return {"minw": 1.0, "twin": False, "amp": 0.0}


# ==============================================================================================
# the core: one application of a transform to a shape, judged


def apply_core(ctx, shape, t, bs, ref, tol_ref, sig=""):
    """t.apply(shape, batch_size=bs) against: the bare array, the reference `ref(array) -> array | None`, landmark
    groups at any depth, carried structure, non-aliasing.  Returns (result, result on the bare array, scale, moved).
    Non-mutation of shape and transform is judged by the caller after ITS further applications."""
    bare = shape.points.copy()
    d_struct = structure_digest(shape)

    r = t.apply(shape, batch_size=bs)
    on_array = t.apply(bare, batch_size=bs)

    ctx.expect(type(r) is type(shape), sig + "result_class", "%s -> %s" % (type(shape).__name__, type(r).__name__))
    ctx.expect(r is not shape, sig + "result_is_input", "")
    scale = 1.0 + float(np.abs(on_array).max()) if on_array.size else 1.0
    ctx.expect(close(r.points, on_array, rtol=0, atol=1e-12 * scale), sig + "points_vs_bare_array", lambda: describe(r.points, on_array))
    ctx.expect(np.array_equal(bare, shape.points), sig + "input_points_mutated", "")
    stat = new_stat()
    want = ref(bare, stat)
    if want is not None:
        if stat["minw"] >= 1e-4:
            ctx.expect(close(r.points, want, rtol=0, atol=tol_ref * max(scale, stat["amp"])), sig + "points_vs_reference", lambda: describe(r.points, want))
            ctx.event("independent reference" + (" (chain member twins)" if stat["twin"] else ""))
        else:
            ctx.event("near a pole of a perspective map: numbers not judged")
    moved = r.points.shape != bare.shape or not np.allclose(r.points, bare)

    # landmarks at every depth: same names in the same order, same classes, moved by the same map
    def walk(a, b, prefix):
        names, rnames = group_names(a), group_names(b)
        ctx.expect(names == rnames, sig + "landmark_groups", "%s: %r -> %r" % (prefix or "/", names, rnames))
        for nm in names:
            if nm not in rnames:
                continue
            g, rg = a.landmarks[nm], b.landmarks[nm]
            p = prefix + "/" + nm
            deep = ".nested" if prefix else ""
            ctx.expect(type(g) is type(rg), sig + "landmark_class" + deep, "%s: %s -> %s" % (p, type(g).__name__, type(rg).__name__))
            wl = t.apply(g.points.copy())
            gscale = max(scale, 1.0 + float(np.abs(wl).max())) if wl.size else scale  # a group may be larger than the shape
            ctx.expect(close(rg.points, wl, rtol=0, atol=1e-12 * gscale), sig + "landmarks_vs_bare_array" + deep,
                       lambda: "group %r\n%s" % (p, describe(rg.points, wl)))
            st_ = new_stat()
            wr = ref(g.points, st_)
            if wr is not None and st_["minw"] >= 1e-4:
                ctx.expect(close(rg.points, wr, rtol=0, atol=tol_ref * max(gscale, st_["amp"])), sig + "landmarks_vs_reference" + deep,
                           lambda: "group %r\n%s" % (p, describe(rg.points, wr)))
            if prefix:
                ctx.event("nested landmark group checked")
            walk(g, rg, p)

    walk(shape, r, "")

    # carried structure identical
    dd = digest.digest_diff(d_struct, structure_digest(r))
    ctx.expect(dd is None, sig + "structure_changed", lambda: repr(dd))
    sh = digest.shared_buffers(shape, r)
    ctx.expect(not sh, sig + "result_shares_buffer_with_input", lambda: repr(sh[:4]))
    sh = digest.shared_buffers(t, r, skip=_CACHE)
    ctx.expect(not sh, sig + "result_shares_buffer_with_transform", lambda: repr(sh[:4]))
    return r, on_array, scale, moved


def relocate_into(case, src, trilist, picks):
    """Every point of the shape case and of its landmark groups (any depth) becomes a convex combination of a source
    triangle's corners, consuming `picks` in order."""
    if isinstance(picks, int):
        # bulk content from a drawn seed: [triangle draw, a, b] per point, a and b quantised in (0, 1)
        rs = np.random.RandomState(picks)
        picks = [[int(rs.randint(0, 64)), int(rs.randint(10, 1015)) / 1024.0, int(rs.randint(10, 1015)) / 1024.0]
                 for _ in range(count_points(case))]
    picks = list(picks)

    def f(node, depth):
        n = len(node["pts"])
        sub = [picks.pop(0) for _ in range(n)]
        node["pts"] = objs.bary_points(src, trilist, sub).tolist() if n else []
        return node

    # map_case visits children first; the order only has to be deterministic
    return map_case(case, f)


# ==============================================================================================
# clause apply


@st.composite
def s_case(draw):
    d = draw(st.sampled_from([2, 2, 3]))
    shape = draw(s_shape(d))
    t = draw(s_transform(d))
    c = {"shape": shape, "t": t, "batch": draw(st.sampled_from([None, None, 1, 3, "n", "n+5"])),
         # coordinate storage: float64, or integer-typed (pixel positions) / float32 for the whole shape or only for
         # its landmark groups
         "coords": draw(st.sampled_from(["f64"] * 5 + ["int:all", "int:landmarks", "f32:all", "f32:landmarks"])),
         "mag": draw(st.sampled_from([None] * 6 + ["scale", "offset"])),
         "inplace_api": draw(st.sampled_from(["_apply_inplace", "_apply_inplace", "apply_inplace"])),
         "reparam": draw(st.sampled_from(["from_vector", "set_target", "pseudoinverse"])),
         "reparam_w": draw(st.lists(gen.q(-0.25, 0.25), min_size=16, max_size=16))}
    if any(m["kind"] in PWA_KINDS for m in members_of(t)):
        c["picks"] = draw(st.integers(0, 2**16))
    return c


def c_case(c, ctx):
    tc = c["t"]
    sc = c["shape"]
    ctx.event("shape=%s" % sc["kind"])
    ctx.event("transform=%s" % tc["kind"])
    ctx.event("pair=%s x %s" % (sc["kind"], tc["kind"]))
    if tc["kind"] == "TransformChain":
        ctx.event("chain=%s" % chain_class(tc))
    t = objs.build_transform(tc)
    head = pwa_head(tc, t)
    if head is not None:
        # move every point of the shape and of its landmark groups into the PWA domain
        sc = relocate_into(sc, head[0]["src"], head[1].trilist, c["picks"])
    coords = c.get("coords", "f64")
    if coords.startswith("int") and head is not None:
        coords = "f64"  # rounding would leave the triangulated domain
    mag = c.get("mag")
    if mag is not None and not magnitude_safe(tc):
        mag = None
    if coords != "f64" or mag is not None:
        dt, where = (coords.split(":") + [None])[:2] if coords != "f64" else (None, None)

        def flag(node, depth):
            if dt is not None and (where == "all" or depth > 0):
                node["dtype"] = dt
            if mag is not None:
                node["mag"] = mag
            return node

        sc = map_case(sc, flag)
    shape = build_shape(sc)
    ctx.event("coords=%s" % coords)
    ctx.event("magnitude=%s" % (mag or "10"))
    n = shape.n_points
    ctx.event("n_points=%s" % (n if n < 3 else "3+"))
    ctx.event("landmark depth=%d" % case_depth(sc))
    if has_empty(sc):
        ctx.event("has an empty (sub)shape")
    if sc["kind"] in MESH_KINDS and not sc["tri"]:
        ctx.event("empty trilist")
    bs = c["batch"]
    bs = {"n": max(n, 1), "n+5": n + 5}.get(bs, bs)
    ctx.event("batch=%s" % c["batch"])
    tol_ref = 1e-5 if coords.startswith("f32") else 1e-9

    d_shape = digest.digest(shape)
    d_t = digest.digest(t, skip=_CACHE)
    bare0 = shape.points.copy()

    def ref(x, stat):
        return ref_eval(tc, t, x, stat)

    try:
        r, on_array, scale, moved = apply_core(ctx, shape, t, bs, ref, tol_ref)
    except ValueError as e:
        if has_empty(sc) and any(m["kind"] == "WithDims" for m in members_of(tc)):
            # defect fixed in /repo e938e22: WithDims could not slice a 0-point array (shape or landmark group),
            # batched or not (a refusal of the batched route only is another root cause: let it escape)
            try:
                t.apply(shape)
            except ValueError:
                ctx.fail("withdims.zero_point_shape_refused", "%s: %s" % (type(e).__name__, e))
                return
        raise

    # "applying the transform to the bare coordinate array gives the same numbers" must also hold when the caller
    # re-uses its buffer: refill the very array that was applied with other coordinates of the same shape (the
    # rows reversed and nudged, still inside the domain for piecewise-affine maps) and apply again; a fresh
    # instance of the same transform applied to the same values is the history-free reference
    if bare0.shape[0] >= 2:
        refill = 0.75 * bare0[::-1] + 0.25 * bare0  # convex combinations of in-domain points: still in the (convex) domain
        fresh = objs.build_transform(tc)
        try:
            want2 = fresh.apply(refill.copy())
        except TriangleContainmentError:
            want2 = None
        if want2 is not None:
            buf = refill.copy()
            got2 = t.apply(buf, batch_size=bs)  # new values: the transform has to evaluate them
            ctx.expect(close(got2, want2, rtol=0, atol=1e-12 * scale), "second_apply_depends_on_first",
                       lambda: "apply of other values after a first apply\n" + describe(got2, want2))
            buf[:] = bare0  # the caller refills its buffer in place ...
            got3 = t.apply(buf, batch_size=bs)  # ... and applies it again
            ctx.expect(close(got3, on_array, rtol=0, atol=1e-12 * scale), "reused_buffer_gives_stale_result",
                       lambda: "array refilled in place and applied again\n" + describe(got3, on_array))
            ctx.event("buffer reuse checked")

    # the destructive entry points: Transform._apply_inplace(copy) and the deprecated public apply_inplace(copy)
    # leave in the copy exactly what apply() returns, and return nothing (docstring)
    api = c.get("inplace_api", "_apply_inplace")
    cp = shape.copy()
    ret = getattr(t, api)(cp)
    plain = r if bs is None else t.apply(shape)
    ctx.expect(ret is None, "apply_inplace.returns_something", lambda: "%s returned %s" % (api, type(ret).__name__))
    dd = digest.public_diff(plain, cp, rtol=0, atol=1e-12 * scale)
    ctx.expect(dd is None, "apply_inplace.differs_from_apply", lambda: "%s: %s" % (api, dd))
    ctx.event("inplace api=%s" % api)

    # the landmark manager is itself Transformable: same groups in the same order, same classes, the same points as
    # the groups of the transformed shape; the manager handed in stays as it was (judged below with the shape)
    mgr = shape.landmarks
    rm = t.apply(mgr, batch_size=bs)
    ctx.expect(type(rm) is type(mgr), "manager.result_class", lambda: type(rm).__name__)
    ctx.expect(rm is not mgr, "manager.result_is_input", "")
    ctx.expect(list(rm.keys()) == group_names(r) == group_names(shape), "manager.groups", lambda: "%r vs %r" % (list(rm.keys()), group_names(r)))
    for nm in group_names(shape):
        if nm in rm and nm in group_names(r):
            dd = digest.public_diff(rm[nm], r.landmarks[nm], rtol=0, atol=1e-12 * scale)
            ctx.expect(dd is None, "manager.group_differs_from_shape_route", lambda: "group %r: %s" % (nm, dd))
            ctx.expect(not digest.shared_buffers(rm[nm], mgr[nm]), "manager.result_shares_buffer_with_input", nm)
    if group_names(shape):
        ctx.event("manager applied")

    # other entry points of the same operation
    if tc["kind"] == "WithDims":
        w = shape.with_dims(objs.build_transform(tc).dims)
        dd = digest.public_diff(w, r)
        ctx.expect(dd is None, "with_dims.differs_from_WithDims_apply", lambda: str(dd))
        ctx.event("with_dims checked")
    if tc["kind"] in objs.ALIGN_KINDS:
        src_before = t.source.points.copy()
        a = t.aligned_source()
        stat = new_stat()
        wa = ref_apply_h(t.h_matrix.copy(), src_before, stat, affine=True)
        ctx.expect(type(a) is type(t.source), "aligned_source.class", lambda: type(a).__name__)
        ctx.expect(a is not t.source and not np.shares_memory(a.points, t.source.points), "aligned_source.aliases_source", "")
        ctx.expect(close(a.points, wa, rtol=0, atol=1e-9 * (1.0 + float(np.abs(wa).max()))), "aligned_source.points",
                   lambda: describe(a.points, wa))
        ctx.expect(np.array_equal(t.source.points, src_before), "aligned_source.source_mutated", "")
        ctx.event("aligned_source checked")

    # nothing mutated
    dd = digest.parameter_mutation(d_shape, digest.digest(shape))
    ctx.expect(dd is None, "input_shape_mutated", lambda: repr(dd))
    dd = digest.parameter_mutation(d_t, digest.digest(t, skip=_CACHE))
    ctx.expect(dd is None, "transform_mutated", lambda: repr(dd))

    # after a re-parametrisation of a transform that has already been applied, "points are the transformed points"
    # still has to hold: the map is the one of the NEW parameters (reference: explicit product with the new h_matrix)
    if tc["kind"] in objs.HOMOG_KINDS:
        how = c.get("reparam", "from_vector")
        t2 = None
        try:
            if how == "from_vector":
                v = t.as_vector()
                w = np.array(c["reparam_w"][: v.shape[0]] + [0.0] * max(0, v.shape[0] - 16))
                if tc["kind"] in ("Rotation", "AlignmentRotation"):
                    q2 = v + w
                    v2 = q2 / np.linalg.norm(q2)
                elif tc["kind"] in ("UniformScale", "NonUniformScale", "AlignmentUniformScale"):
                    v2 = v * (1.5 + w)
                else:
                    v2 = v + w
                t2 = t.from_vector(v2)
            elif how == "set_target" and tc["kind"] in objs.ALIGN_KINDS:
                t2 = t.copy()
                newt = gen.arr(tc["tgt"])[::-1] * 1.25 + 0.5
                from menpo.shape import PointCloud as _PC

                t2.set_target(_PC(newt))
            elif how == "pseudoinverse":
                t2 = t.pseudoinverse()
        except NotImplementedError:
            t2 = None  # not vectorizable in this dimension (documented)
        if t2 is not None and mag is None and bare0.shape[0]:
            ctx.event("reparam=%s" % how)
            x = bare0.copy()
            got = t2.apply(x)
            want = objs.ref_apply_h(t2.h_matrix.copy(), x)
            sc2 = 1.0 + float(np.abs(want).max())
            if np.all(np.isfinite(want)) and sc2 < 1e6:
                ctx.expect(close(got, want, rtol=0, atol=1e-9 * sc2), "apply_after_reparametrisation_uses_stale_state." + how,
                           lambda: "%s: apply disagrees with the transform's own h_matrix\n%s" % (tc["kind"], describe(got, want)))

    structured = sc["kind"] != "PointCloud"
    ctx.nontrivial(moved and (bool(group_names(shape)) or structured))


# ==============================================================================================
# clause refusal: a refused application leaves the transform as it was


@st.composite
def s_refusal(draw):
    pwa = draw(objs.warp_case(kind=draw(st.sampled_from(["CachedPWA", "CachedPWA", "PythonPWA"]))))
    wrap = draw(st.sampled_from(["bare", "bare", "chain", "nested"]))
    if wrap == "bare":
        tc = pwa
    else:
        tail = [draw(objs.homog_case(d=2)) for _ in range(draw(st.integers(1, 2)))]
        head = pwa if wrap == "chain" else {"kind": "TransformChain", "d": 2, "members": [pwa]}
        tc = {"kind": "TransformChain", "d": 2, "members": [head] + tail}
    ops = []
    for k in range(draw(st.integers(2, 3))):
        sh = draw(s_shape(2, small_ok=False) if draw(st.integers(0, 3)) == 0 else objs.shape_case(d=2, n_max=6))
        op = {"shape": sh, "picks": draw(st.integers(0, 2**16)), "out": None}
        # operand 0 lies in the domain, operand 1 has points outside, a third one is either
        if k == 1 or (k == 2 and draw(st.booleans())):
            op["out"] = {"where": draw(st.sampled_from([-1, -1, 0, 1, 2, 3])),  # -1 (and anything without groups): the shape's own points
                         "rows": draw(st.lists(st.integers(0, 8), min_size=1, max_size=3)),
                         "angle": draw(gen.q(-3.14, 3.14)), "far": draw(gen.q(1.5, 4))}
        ops.append(op)
    step = st.fixed_dictionaries({"op": st.sampled_from([0, 1, 1, 2]), "as": st.sampled_from(["shape", "shape", "array"]),
                                  "batch": st.sampled_from([None, None, 2, "n"])})
    # by construction some application follows a refused one: operand 1 applied as a shape is always refused
    pre = draw(st.lists(step, min_size=0, max_size=3))
    post = draw(st.lists(step, min_size=1, max_size=4))
    mid = {"op": 1, "as": "shape", "batch": draw(st.sampled_from([None, None, 2, "n"]))}
    return {"t": tc, "ops": ops, "steps": pre + [mid] + post}


def _push_outside(case, out, src):
    """Move the chosen rows of the chosen (sub)shape far outside the source points' bounding box."""
    src = np.asarray(src, dtype=float)
    lo, hi = src.min(axis=0), src.max(axis=0)
    centre, diag = (lo + hi) / 2.0, float(np.linalg.norm(hi - lo))
    p = (centre + out["far"] * diag * np.array([math.cos(out["angle"]), math.sin(out["angle"])])).tolist()
    nodes = []

    def collect(node, path):
        nodes.append((path, node))
        for nm, sub in node.get("lms", []):
            collect(sub, path + "/" + nm)

    collect(case, "")
    nodes = [(path, node) for path, node in nodes if node["pts"]]  # the shape itself always has points
    if out["where"] < 0 or len(nodes) == 1:
        path, node = nodes[0]
    else:
        path, node = nodes[1 + out["where"] % (len(nodes) - 1)]
    for rrow in out["rows"]:
        node["pts"][rrow % len(node["pts"])] = list(p)
    return path


def _outcome(t, x, bs):
    """("ok", [points, group points ...]) or ("refused", mask)."""
    try:
        r = t.apply(x, batch_size=bs)
    except TriangleContainmentError as e:
        return "refused", [np.asarray(e.points_outside_source_domain)], None
    if isinstance(r, np.ndarray):
        return "ok", [r], r
    return "ok", [r.points] + [g.points for _, g in all_groups(r)], r


def c_refusal(c, ctx):
    tc = c["t"]
    t = objs.build_transform(tc)
    head_case, head_built = pwa_head(tc, t)
    ctx.event("transform=%s%s" % (head_case["kind"], "" if tc is head_case else " in chain"))
    shapes, outside_in = [], []
    for op in c["ops"]:
        sc = relocate_into(op["shape"], head_case["src"], head_built.trilist, op["picks"])
        where = None
        if op["out"] is not None:
            sc = map_case(sc, lambda node, depth: dict(node, pts=[list(p) for p in node["pts"]]))
            where = _push_outside(sc, op["out"], head_case["src"])
        shapes.append(build_shape(sc))
        outside_in.append(where)
    d_ops = [digest.digest(s) for s in shapes]
    d_t = digest.digest(t, skip=_CACHE)
    history, refused_before, pattern = [], False, False
    for k, stp in enumerate(c["steps"]):
        i = stp["op"] % len(shapes)
        s = shapes[i]
        x = s if stp["as"] == "shape" else s.points.copy()
        bs = s.n_points if stp["batch"] == "n" else stp["batch"]
        # by construction: refused iff the points that take part contain a row pushed outside the source mesh
        expect_refused = outside_in[i] is not None and (stp["as"] == "shape" or outside_in[i] == "")
        got = _outcome(t, x, bs)
        want = _outcome(objs.build_transform(tc), s if stp["as"] == "shape" else s.points.copy(), bs)
        what = "step %d (%s of operand %d, batch %s) after %s" % (k, stp["as"], i, bs, history or "nothing")
        ctx.expect(want[0] == ("refused" if expect_refused else "ok"), "refusal.fresh_transform_status_unexpected",
                   lambda: "%s: fresh transform says %s" % (what, want[0]))
        if refused_before:
            ctx.nontrivial(True)
        sig = "refusal.behaviour_differs_from_fresh_transform_after_a_refused_apply" if refused_before else "refusal.behaviour_differs_from_fresh_transform"
        same = got[0] == want[0] and len(got[1]) == len(want[1])
        if same:
            if got[0] == "ok":
                scale = 1.0 + max([float(np.abs(a).max()) for a in want[1] if a.size] or [0.0])
                same = all(close(a, b, rtol=0, atol=1e-12 * scale) for a, b in zip(got[1], want[1]))
            else:
                same = all(a.shape == b.shape and np.array_equal(a, b) for a, b in zip(got[1], want[1]))
        ctx.expect(same, sig, lambda: "%s\n used : %s %s\n fresh: %s %s" % (
            what, got[0], [np.array2string(a, precision=4, threshold=12) for a in got[1]][:2],
            want[0], [np.array2string(a, precision=4, threshold=12) for a in want[1]][:2]))
        if got[0] == "ok" and stp["as"] == "shape":
            ctx.expect(type(got[2]) is type(s), "refusal.result_class", lambda: type(got[2]).__name__)
        if history and history[-1] == "%d:refused" % i and refused_before:
            pattern = True
        history.append("%d:%s" % (i, got[0]))
        refused_before = refused_before or want[0] == "refused"
    if pattern:
        ctx.event("a refused operand applied again straight away")
    for i, s in enumerate(shapes):
        dd = digest.parameter_mutation(d_ops[i], digest.digest(s))
        ctx.expect(dd is None, "refusal.operand_mutated", lambda: "operand %d: %r" % (i, dd))
    dd = digest.parameter_mutation(d_t, digest.digest(t, skip=_CACHE))
    ctx.expect(dd is None, "refusal.transform_parameters_mutated", lambda: repr(dd))


# ==============================================================================================
# clause about_centre: the factories that build a transform FROM a shape, applied to that shape


@st.composite
def s_about(draw):
    fac = draw(st.sampled_from(["scale", "rotate", "shear", "transform", "transform"]))
    d = 2 if fac in ("rotate", "shear") else draw(st.sampled_from([2, 2, 3]))
    c = {"factory": fac, "shape": draw(s_shape(d, small_ok=False)), "batch": draw(st.sampled_from([None, None, 1, 3, "n+5"])),
         "mag": draw(st.sampled_from([None, None, None, "offset"]))}
    if fac == "scale":
        c["s"] = draw(gen.q(0.25, 4))
    elif fac == "rotate":
        c["degrees"] = draw(st.booleans())
        c["theta"] = draw(gen.angle_deg()) if c["degrees"] else draw(gen.q(-7, 7))
    elif fac == "shear":
        c["degrees"] = draw(st.booleans())
        lim = 60.0 if c["degrees"] else 1.0
        c["phi"], c["psi"] = draw(gen.q(-lim, lim)), draw(gen.q(-lim, lim))
    else:
        kinds = list(objs.HOMOG_KINDS) + ["TransformChain"] + (["ThinPlateSplines"] if d == 2 else [])
        c["inner"] = draw(objs.transform_case(d=d, kinds=kinds))
    return c


def c_about(c, ctx):
    import menpo.transform as mt
    from menpo.transform import compositions as comp

    fac = c["factory"]
    sc = c["shape"]
    mag = c.get("mag")
    inner_case = c.get("inner")
    if mag is not None and inner_case is not None and not magnitude_safe(inner_case):
        mag = None
    if mag is not None:
        sc = map_case(sc, lambda node, depth: dict(node, mag=mag))
    shape = build_shape(sc)
    d = sc["d"]
    n = shape.n_points
    bs = {"n+5": n + 5}.get(c["batch"], c["batch"])
    ctx.event("factory=%s%s" % (fac, ":" + inner_case["kind"] if inner_case else ""))
    ctx.event("shape=%s" % sc["kind"])
    ctx.event("magnitude=%s" % (mag or "10"))
    d_shape = digest.digest(shape)
    # the centre (mean of the points), by plain loops
    centre = [sum(float(p[k]) for p in shape.points) / n for k in range(d)]
    inner = None
    if fac == "scale":
        t = comp.scale_about_centre(shape, c["s"])
        lin = [[c["s"] if i == j else 0.0 for j in range(d)] for i in range(d)]
    elif fac == "rotate":
        t = comp.rotate_ccw_about_centre(shape, c["theta"], degrees=c["degrees"])
        th = math.radians(c["theta"]) if c["degrees"] else c["theta"]
        lin = [[math.cos(th), -math.sin(th)], [math.sin(th), math.cos(th)]]
    elif fac == "shear":
        t = comp.shear_about_centre(shape, c["phi"], c["psi"], degrees=c["degrees"])
        a, b = (math.radians(c["phi"]), math.radians(c["psi"])) if c["degrees"] else (c["phi"], c["psi"])
        lin = [[1.0, math.tan(a)], [math.tan(b), 1.0]]
    else:
        inner = objs.build_transform(inner_case)
        d_inner = digest.digest(inner, skip=_CACHE)
        t = comp.transform_about_centre(shape, inner)
        lin = None
    if lin is not None:
        ctx.expect(isinstance(t, mt.Homogeneous), "about_centre.not_homogeneous", lambda: type(t).__name__)
    twin = objs.build_transform(inner_case) if inner_case else None

    def ref(x, stat):
        """translate the centre to the origin, transform, translate back (docstring), by loops"""
        x = np.asarray(x, dtype=float)
        y = np.array([[x[i, k] - centre[k] for k in range(d)] for i in range(x.shape[0])]).reshape(x.shape[0], d)
        if lin is not None:
            z = np.array([[sum(lin[r][k] * y[i, k] for k in range(d)) for r in range(d)] for i in range(y.shape[0])]).reshape(y.shape[0], d)
        else:
            z = ref_eval(inner_case, twin, y, stat)
            if z is None:
                z = twin.apply(y)
                stat["twin"] = True
        return np.array([[z[i, k] + centre[k] for k in range(d)] for i in range(z.shape[0])]).reshape(z.shape[0], d)

    d_t = digest.digest(t, skip=_CACHE)
    r, on_array, scale, moved = apply_core(ctx, shape, t, bs, ref, 1e-9, sig="about_centre.")
    if lin is not None:
        # "about its centre": the centre is a fixed point of the map, so the centre of the result is the old centre
        rc = [sum(float(p[k]) for p in r.points) / n for k in range(d)]
        ctx.expect(close(rc, centre, rtol=0, atol=1e-9 * scale), "about_centre.centre_moved", lambda: "%r -> %r" % (centre, rc))
    dd = digest.parameter_mutation(d_shape, digest.digest(shape))
    ctx.expect(dd is None, "about_centre.input_shape_mutated", lambda: repr(dd))
    dd = digest.parameter_mutation(d_t, digest.digest(t, skip=_CACHE))
    ctx.expect(dd is None, "about_centre.transform_mutated", lambda: repr(dd))
    if inner is not None:
        dd = digest.parameter_mutation(d_inner, digest.digest(inner, skip=_CACHE))
        ctx.expect(dd is None, "about_centre.inner_transform_mutated", lambda: repr(dd))
    ctx.nontrivial(moved and (bool(group_names(shape)) or sc["kind"] != "PointCloud"))


CLAUSES = [
    Clause("apply", c_case, s_case, quick=5000, thorough=150000, nt_floor=0.5,
           rule="shape class x transform class x batch size; see RULE"),
    Clause("refusal", c_refusal, s_refusal, quick=500, thorough=12000, nt_floor=0.5,
           rule="3-7 applications of one piecewise-affine transform (bare, or leading a chain) to 2-3 operands of which at "
                "least one has points outside the source mesh, as shape or bare array, batched or not; every outcome "
                "(result or refusal mask) equals that of a freshly built identical transform; non-trivial: some "
                "application follows a refused one"),
    Clause("about_centre", c_about, s_about, quick=500, thorough=12000, nt_floor=0.5,
           rule="scale / rotate_ccw / shear / transform_about_centre built from the shape and applied to it; reference: "
                "subtract the mean, apply the inner map (independent matrix), add the mean"),
]
