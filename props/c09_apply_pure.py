"""C09 - apply() is pure: no history, aliasing or batch-size effects."""
import numpy as np
from hypothesis import strategies as st

from vlib.runner import Clause
from vlib import gen, objs, digest
from vlib.tol import close, describe

from menpo.shape import PointCloud
from menpo.image import BooleanImage
from menpo.transform.piecewiseaffine.base import TriangleContainmentError

PROPERTY = "C09"
RULE = (
    "Histories on ONE transform instance, generated as data: a transform (50% CachedPWA/PythonPWA/PiecewiseAffine, "
    "else any of the homogeneous family, chains, WithDims, TPS) and 3-12 steps drawn from {apply new array, apply an "
    "earlier array object again, edit one coordinate of an earlier array in place by delta in {1e-12..1} and apply it, "
    "apply a fresh array equal to an earlier one up to delta, apply a PointCloud, apply with batch size k in "
    "{1,2,3,n-1,n,n+1,2n+1}, apply a mix of in-domain and clearly out-of-domain points (PWA)}. Non-trivial: >= 3 "
    "applies of which >= 1 re-uses or perturbs an earlier input (history clause); k does not divide n (batch clause); "
    "both inside and outside points present (error clause)."
)
ASSUMPTIONS = [
    "history-free reference: a freshly built transform from the same case applied to a private copy of the current "
    "values (no history by construction), plus explicit references: homogeneous product for the homogeneous family and "
    "a barycentric point-location model for piecewise affine (using the transform's own triangle list as a parameter)",
    "PWA in-domain points are strict convex combinations of source triangles (weights >= 0.05), out-of-domain points lie "
    "3 extents away from the centroid, so containment is never decided by rounding; PWA perturbations are <= 1e-3",
]

_CACHE = ("._applied_points", "._iab")
PWA_KINDS = ("CachedPWA", "PythonPWA", "PiecewiseAffine")


_LAST_PWA_COND = [1.0]


def pwa_reference(src, tgt, trilist, x):
    """Barycentric reference: returns (values, outside_mask). The worst conditioning of a containing triangle's edge
    matrix is left in _LAST_PWA_COND[0]: in a sliver triangle both the reference and the code under test lose that
    many digits, and the comparison tolerance has to follow."""
    src = np.asarray(src, dtype=float)
    tgt = np.asarray(tgt, dtype=float)
    x = np.asarray(x, dtype=float)
    out = np.zeros_like(x)
    outside = np.ones(x.shape[0], dtype=bool)
    _LAST_PWA_COND[0] = 1.0
    for i, p in enumerate(x):
        for tri in trilist:
            a, b, c = src[tri[0]], src[tri[1]], src[tri[2]]
            m = np.array([b - a, c - a]).T
            det = m[0, 0] * m[1, 1] - m[0, 1] * m[1, 0]
            if abs(det) < 1e-14:
                continue
            rhs = p - a
            al = (rhs[0] * m[1, 1] - rhs[1] * m[0, 1]) / det
            be = (m[0, 0] * rhs[1] - m[1, 0] * rhs[0]) / det
            if al >= -1e-12 and be >= -1e-12 and al + be <= 1 + 1e-12:
                ta, tb, tc_ = tgt[tri[0]], tgt[tri[1]], tgt[tri[2]]
                out[i] = ta + al * (tb - ta) + be * (tc_ - ta)
                outside[i] = False
                _LAST_PWA_COND[0] = max(_LAST_PWA_COND[0], float(np.linalg.cond(m)))
                break
    return out, outside


def pwa_safely_inside(src, trilist, x, margin=1e-9):
    """True for points that lie inside some source triangle with barycentric margin (never decided by rounding)."""
    src = np.asarray(src, dtype=float)
    ok = np.zeros(len(x), dtype=bool)
    for i, p in enumerate(np.asarray(x, dtype=float)):
        for tri in trilist:
            a, b, c = src[tri[0]], src[tri[1]], src[tri[2]]
            m = np.array([b - a, c - a]).T
            det = m[0, 0] * m[1, 1] - m[0, 1] * m[1, 0]
            if abs(det) < 1e-14:
                continue
            rhs = p - a
            al = (rhs[0] * m[1, 1] - rhs[1] * m[0, 1]) / det
            be = (m[0, 0] * rhs[1] - m[1, 0] * rhs[0]) / det
            if al >= margin and be >= margin and al + be <= 1 - margin:
                ok[i] = True
                break
    return ok


def _build(tc):
    if tc["kind"] == "PiecewiseAffine":
        import menpo.transform as mt

        return mt.PiecewiseAffine(PointCloud(gen.arr(tc["src"])), PointCloud(gen.arr(tc["tgt"])))
    return objs.build_transform(tc)


@st.composite
def s_tcase(draw):
    if draw(st.booleans()):
        kind = draw(st.sampled_from(PWA_KINDS))
        c = draw(objs.warp_case(kind="CachedPWA" if kind != "PythonPWA" else "PythonPWA"))
        c["kind"] = kind
        return c
    return draw(objs.transform_case(kinds=objs.HOMOG_KINDS + ["TransformChain", "WithDims", "ThinPlateSplines"]))


def _pts_spec(draw, tc, n_min=1, n_max=7):
    n = draw(st.integers(n_min, n_max))
    if tc["kind"] in PWA_KINDS:
        return {"bary": draw(objs.bary_picks(n, n))}
    return {"xy": draw(st.lists(gen.vec(tc["d"], -10, 10), min_size=n, max_size=n))}


DELTAS = [1e-12, 1e-9, 1e-6, 1e-3, 1.0]


@st.composite
def s_history(draw):
    tc = draw(s_tcase())
    pwa = tc["kind"] in PWA_KINDS
    steps = [["apply_new", _pts_spec(draw, tc, 2, 7)]]
    n_steps = draw(st.integers(3, 12))
    kinds = ["apply_new", "apply_again", "mutate_apply", "apply_near", "apply_shape", "apply_batched"]
    if pwa:
        kinds += ["apply_mixed", "apply_mixed"]
    for _ in range(n_steps - 1):
        k = draw(st.sampled_from(kinds))
        if k == "apply_new":
            steps.append([k, _pts_spec(draw, tc)])
        elif k in ("apply_again", "apply_shape"):
            steps.append([k, draw(st.integers(0, 31))])
        elif k in ("mutate_apply", "apply_near"):
            dl = draw(st.sampled_from(DELTAS[:4] if pwa else DELTAS))
            steps.append([k, draw(st.integers(0, 31)), draw(st.integers(0, 31)), draw(st.integers(0, 2)), dl * draw(st.sampled_from([1, -1]))])
        elif k == "apply_batched":
            steps.append([k, draw(st.integers(0, 31)), draw(st.sampled_from(["1", "2", "3", "n-1", "n", "n+1", "2n+1"]))])
        else:
            # positions (among n+m) that are outside; directions of the outside points
            n_out = draw(st.integers(1, 3))
            steps.append([k, _pts_spec(draw, tc, 1, 6), draw(st.lists(st.tuples(st.integers(0, 31), gen.q(-3.14, 3.14)).map(list), min_size=n_out, max_size=n_out)),
                          draw(st.sampled_from(["none", "1", "2", "3", "n-1", "n", "n+1", "2n+1"]))])
    return {"t": tc, "steps": steps}


def _bs(spec, n):
    if spec in (None, "none"):
        return None
    v = {"n-1": n - 1, "n": n, "n+1": n + 1, "2n+1": 2 * n + 1}.get(spec)
    if v is None:
        v = int(spec)
    return max(1, v)


def c_history(case, ctx):
    tc = case["t"]
    pwa = tc["kind"] in PWA_KINDS
    ctx.event("transform=%s" % tc["kind"])
    t = _build(tc)
    d_t = digest.digest(t, skip=_CACHE)
    trilist = np.array(t.trilist) if pwa else None
    extent = float(np.ptp(gen.arr(tc["src"]), axis=0).max()) if pwa else 10.0
    centroid = gen.arr(tc["src"]).mean(axis=0) if pwa else None
    pool = []  # arrays passed so far (the very objects)
    n_apply = 0
    reused = False

    def materialise(spec):
        if "bary" in spec:
            return objs.bary_points(tc["src"], trilist, spec["bary"])
        return gen.arr(spec["xy"])

    ref_tol = [1e-9]

    def reference(x):
        """History-free expected output for the CURRENT values of x."""
        ref_tol[0] = 1e-9
        fresh = _build(tc).apply(np.array(x, dtype=float, copy=True))
        if tc["kind"] in objs.HOMOG_KINDS:
            h = objs.ref_h(tc)
            if h is None:
                h = _build(tc).h_matrix.copy()
            exp = objs.ref_apply_h(h, x)
            ctx.expect(close(fresh, exp, atol=1e-9 * (1 + np.abs(exp).max())), "fresh_instance_vs_explicit_reference", lambda: describe(fresh, exp))
            return exp, fresh
        if pwa:
            exp, outside = pwa_reference(tc["src"], tc["tgt"], trilist, x)
            ref_tol[0] = 1e-9 + 1e-12 * _LAST_PWA_COND[0]
            if _LAST_PWA_COND[0] > 1e3:
                ctx.event("sliver triangle (edge-matrix condition > 1e3): reference tolerance widened")
            if not outside.any():
                ctx.expect(close(fresh, exp, rtol=0, atol=ref_tol[0] * (1 + np.abs(exp).max())), "fresh_instance_vs_barycentric_reference", lambda: describe(fresh, exp))
            return exp, fresh
        return fresh, fresh

    def do_apply(x, what, batch=None, as_shape=False):
        nonlocal n_apply
        before = x.copy()
        want, fresh = reference(x)
        if as_shape:
            got = t.apply(PointCloud(x), batch_size=batch).points
        else:
            got = t.apply(x, batch_size=batch)
        n_apply += 1
        scale = 1.0 + (float(np.abs(want).max()) if want.size else 0.0)
        ctx.expect(close(got, want, rtol=0, atol=ref_tol[0] * scale), what, lambda: "step result differs from the history-free reference\n" + describe(got, want))
        if batch is None:
            # the same code on a fresh instance (no history) and the same values: equal to rounding noise, so that
            # even a 1e-12 perturbation of the input must show up in the output
            ctx.expect(close(got, fresh, rtol=0, atol=2e-15 * scale), what + ".vs_fresh_instance",
                       lambda: "differs from a fresh instance applied to the same values\n" + describe(got, fresh))
        ctx.expect(np.array_equal(before, x), "argument_mutated", what)
        ctx.expect(not np.shares_memory(got, x) or tc["kind"] == "WithDims", "result_aliases_argument", what)
        return got

    for step in case["steps"]:
        k = step[0]
        ctx.event("step=%s" % k)
        if k == "apply_new":
            x = materialise(step[1])
            pool.append(x)
            do_apply(x, "apply_new")
        elif k == "apply_again":
            x = pool[step[1] % len(pool)]
            reused = True
            do_apply(x, "apply_same_array_again")
        elif k == "apply_shape":
            x = pool[step[1] % len(pool)]
            do_apply(x, "apply_shape", as_shape=True)
        elif k == "mutate_apply":
            x = pool[step[1] % len(pool)]
            r, cidx = step[2] % x.shape[0], step[3] % x.shape[1]
            x[r, cidx] += step[4]
            if pwa and not pwa_safely_inside(tc["src"], trilist, x).all():
                # a sliver triangle: the perturbed point would leave the domain - not this step's subject
                x[r, cidx] -= step[4]
                ctx.event("perturbation leaves the domain: skipped")
                continue
            reused = True
            ctx.event("delta=%g" % abs(step[4]))
            do_apply(x, "apply_after_inplace_edit")
        elif k == "apply_near":
            x = pool[step[1] % len(pool)].copy()
            r, cidx = step[2] % x.shape[0], step[3] % x.shape[1]
            x[r, cidx] += step[4]
            if pwa and not pwa_safely_inside(tc["src"], trilist, x).all():
                ctx.event("perturbation leaves the domain: skipped")
                continue
            pool.append(x)
            reused = True
            ctx.event("delta=%g" % abs(step[4]))
            do_apply(x, "apply_near_duplicate")
        elif k == "apply_batched":
            x = pool[step[1] % len(pool)]
            n = x.shape[0]
            bs = _bs(step[2], n)
            ctx.event("batch divides" if n % bs == 0 else "batch does not divide")
            do_apply(x, "apply_batched", batch=bs)
        elif k == "apply_mixed":
            inside = materialise(step[1])
            pts = [p for p in inside]
            is_out = [False] * len(pts)
            for pos, ang in step[2]:
                far = centroid + 3.0 * extent * np.array([np.cos(ang), np.sin(ang)])
                j = pos % (len(pts) + 1)
                pts.insert(j, far)
                is_out.insert(j, True)
            x = np.array(pts)
            is_out = np.array(is_out)
            n = x.shape[0]
            bs = _bs(step[3], n)
            ctx.event("mixed batch=%s" % step[3])
            before = x.copy()
            try:
                t.apply(x, batch_size=bs)
                ctx.fail("out_of_domain.no_error", "points 3 extents outside the source hull were mapped without TriangleContainmentError")
            except TriangleContainmentError as e:
                m = np.asarray(e.points_outside_source_domain)
                ok_len = m.ndim == 1 and m.shape[0] == n
                ctx.expect(ok_len, "out_of_domain.mask_length", "mask shape %r for %d input points (batch_size=%r)" % (m.shape, n, bs))
                if ok_len:
                    ctx.expect(m.dtype == bool, "out_of_domain.mask_dtype", str(m.dtype))
                    ctx.expect(np.array_equal(m.astype(bool), is_out), "out_of_domain.mask_wrong_points",
                               "mask %r, outside points %r (batch_size=%r)" % (m.astype(int).tolist(), is_out.astype(int).tolist(), bs))
            ctx.expect(np.array_equal(before, x), "argument_mutated", "apply_mixed")
            ctx.nontrivial(True)
            # the same failing values again (same array object, then an equal copy): the outcome depends only on
            # the values, so it must fail again and name the same points
            for again, label in ((x, "same_object"), (x.copy(), "equal_copy")):
                try:
                    t.apply(again, batch_size=bs)
                    ctx.fail("out_of_domain.repeat.no_error." + label,
                             "a second apply of the same out-of-domain values returned a result instead of raising")
                except TriangleContainmentError as e:
                    m2 = np.asarray(e.points_outside_source_domain)
                    ctx.expect(m2.shape == (n,) and np.array_equal(m2.astype(bool), is_out), "out_of_domain.repeat.mask_differs." + label,
                               "second failure mask %r, outside points %r" % (m2.astype(int).tolist(), is_out.astype(int).tolist()))
            # a failed application must not poison later ones
            if pool:
                do_apply(pool[0], "apply_after_failed_apply")
    dd = digest.parameter_mutation(d_t, digest.digest(t, skip=_CACHE))
    ctx.expect(dd is None, "transform_parameters_changed", lambda: repr(dd))
    ctx.nontrivial(n_apply >= 3 and reused)


# ------------------------------------------------------------------------------------------ batch
@st.composite
def s_batch(draw):
    tc = draw(s_tcase())
    spec = _pts_spec(draw, tc, 2, 9)
    return {"t": tc, "pts": spec, "k": draw(st.sampled_from(["1", "2", "3", "n-1", "n", "n+1", "2n+1"])), "shape": draw(st.booleans()),
            "dtype": draw(st.sampled_from(["float64", "float64", "float32", "int64", "int32"]))}


def c_batch(case, ctx):
    tc = case["t"]
    t = _build(tc)
    ctx.event("transform=%s" % tc["kind"])
    if "bary" in case["pts"]:
        x = objs.bary_points(tc["src"], np.array(t.trilist), case["pts"]["bary"])
    else:
        x = gen.arr(case["pts"]["xy"])
    # input arrays of other dtypes (integer pixel indices, float32) are legal inputs: values are rounded so that
    # they are exactly representable; for piecewise affine the points stay the in-domain float64 ones
    dt = case.get("dtype", "float64")
    if dt != "float64" and "bary" not in case["pts"]:
        x = np.round(x).astype(dt) if dt.startswith("int") else x.astype(dt)
    ctx.event("dtype=%s" % x.dtype)
    n = x.shape[0]
    bs = _bs(case["k"], n)
    ctx.nontrivial(n % bs != 0 or bs > n)
    ctx.event("k=%s" % case["k"])
    plain = _build(tc).apply(x.copy())
    if case["shape"]:
        got = t.apply(PointCloud(x), batch_size=bs).points
    else:
        got = t.apply(x, batch_size=bs)
    ctx.expect(close(got, plain, rtol=0, atol=1e-12 * (1 + np.abs(plain).max())), "batched_differs_from_unbatched",
               lambda: "batch_size=%d n=%d input dtype %s\n%s" % (bs, n, x.dtype, describe(got, plain)))
    # and both agree with the float64 evaluation of the same values (the input dtype must not leak into the result)
    ref64 = _build(tc).apply(np.asarray(x, dtype=float))
    tol = 1e-12 if x.dtype != np.float32 else 1e-5
    ctx.expect(close(got, ref64, rtol=0, atol=tol * (1 + np.abs(ref64).max())), "batched_result_depends_on_input_dtype",
               lambda: "input dtype %s\n%s" % (x.dtype, describe(got, ref64)))


# ------------------------------------------------------------------------------------------ constrain_to_pointcloud
@st.composite
def s_constrain(draw):
    shape = draw(st.lists(st.integers(4, 14), min_size=2, max_size=2))
    n = draw(st.integers(3, 7))
    fr = draw(st.lists(st.lists(gen.q(0.03, 0.97, 997), min_size=2, max_size=2), min_size=n, max_size=n, unique_by=lambda r: tuple(r)))
    return {"shape": shape, "fr": fr, "ks": draw(st.lists(st.sampled_from([1, 2, 3, 5, 7, 11, 50, 1000]), min_size=2, max_size=3, unique=True))}


def c_constrain(case, ctx):
    shape = tuple(case["shape"])
    pts = gen.arr(case["fr"]) * (np.array(shape) - 1) + 0.013
    if not gen.non_collinear(pts, 1e-2):
        return
    pc = PointCloud(pts)
    base = BooleanImage.init_blank(shape).constrain_to_pointcloud(pc)
    ctx.nontrivial(bool(base.pixels.any()) and not bool(base.pixels.all()))
    for k in case["ks"]:
        r = BooleanImage.init_blank(shape).constrain_to_pointcloud(pc, batch_size=k)
        ctx.expect(np.array_equal(r.pixels, base.pixels), "constrain_to_pointcloud.batch_size_changes_mask",
                   "batch_size=%d: %d pixels differ" % (k, int((r.pixels != base.pixels).sum())))
    # reference: pixel inside the convex hull (half-plane test on the hull), ties excluded. Only for well-shaped clouds:
    # in a thin cloud the Delaunay triangles are slivers whose barycentric test is decided by rounding (the property
    # only promises batch-size independence, which was checked above for every cloud)
    if not gen.non_collinear(pts, 0.2):
        ctx.event("thin cloud: hull reference not applied")
        return
    from scipy.spatial import ConvexHull

    hull = ConvexHull(pts)
    idx = np.indices(shape).reshape(2, -1).T.astype(float)
    val = idx.dot(hull.equations[:, :2].T) + hull.equations[:, 2]
    inside = np.all(val <= -1e-7, axis=1)
    clearly_out = np.any(val >= 1e-7, axis=1)
    # a pixel lying on an interior edge of the triangulation is located by rounding (it may fall in neither
    # adjacent triangle); every triangulation edge joins two points of the cloud, so pixels within 1e-6 of ANY
    # segment between two cloud points are not judged
    on_edge = np.zeros(idx.shape[0], dtype=bool)
    for i in range(pts.shape[0]):
        for j in range(i + 1, pts.shape[0]):
            a, b = pts[i], pts[j]
            ab = b - a
            tpar = np.clip((idx - a).dot(ab) / ab.dot(ab), 0.0, 1.0)
            dist = np.linalg.norm(idx - (a + tpar[:, None] * ab), axis=1)
            on_edge |= dist < 1e-6
    inside &= ~on_edge
    got = base.pixels[0].reshape(-1)
    ctx.expect(np.all(got[inside]), "constrain_to_pointcloud.inside_pixel_false", "%d hull-interior pixels are False" % int((~got[inside]).sum()))
    ctx.expect(not np.any(got[clearly_out]), "constrain_to_pointcloud.outside_pixel_true", "%d outside pixels are True" % int(got[clearly_out].sum()))


# ------------------------------------------------------------------------------------------ boundary points
@st.composite
def s_boundary(draw):
    kind = draw(st.sampled_from(PWA_KINDS))
    c = draw(objs.warp_case(kind="CachedPWA" if kind != "PythonPWA" else "PythonPWA"))
    c["kind"] = kind
    nb = draw(st.integers(1, 4))
    return {
        "t": c,
        # points on hull edges, nudged outward (positive) or inward by k units of 2.2e-15: which side of the boundary
        # such a point falls on is a matter of rounding - but it is the same matter in every batch
        "edge": draw(st.lists(st.tuples(st.integers(0, 31), gen.q(0.1, 0.9), st.integers(-8, 64)).map(list), min_size=nb, max_size=nb)),
        "inside": draw(objs.bary_picks(1, 5)),
        "order": draw(st.integers(0, 5)),
        "ks": draw(st.lists(st.sampled_from([1, 2, 3, 4, 5, 7]), min_size=1, max_size=3, unique=True)),
    }


def _outcome(t, x, bs):
    try:
        return np.zeros(x.shape[0], dtype=bool), t.apply(x, batch_size=bs)
    except TriangleContainmentError as e:
        return np.asarray(e.points_outside_source_domain, dtype=bool), None


def c_boundary(case, ctx):
    from scipy.spatial import ConvexHull

    tc = case["t"]
    src = gen.arr(tc["src"])
    hull = ConvexHull(src)
    t = _build(tc)
    tl = np.array(t.trilist)
    pts = []
    for ei, w, k in case["edge"]:
        simplex = hull.simplices[ei % len(hull.simplices)]
        a, b = src[simplex[0]], src[simplex[1]]
        normal = hull.equations[ei % len(hull.simplices), :2]
        pts.append(w * a + (1 - w) * b + normal * (k * 2.2e-15))
    inside = objs.bary_points(tc["src"], tl, case["inside"])
    allp = [p for p in inside] + pts
    rot = case["order"] % len(allp)
    allp = allp[rot:] + allp[:rot]
    x = np.array(allp)
    n = x.shape[0]
    ctx.event("transform=%s" % tc["kind"])
    base_mask, base_val = _outcome(_build(tc), x.copy(), None)
    ctx.event("unbatched: %s" % ("all inside" if base_val is not None else "some outside"))
    alone = np.array([_outcome(_build(tc), x[i : i + 1].copy(), None)[0][0] for i in range(n)])
    ctx.expect(np.array_equal(alone, base_mask), "boundary.membership_depends_on_other_points_in_the_call",
               lambda: "each point alone: outside=%s; all in one call: outside=%s" % (alone.astype(int).tolist(), base_mask.astype(int).tolist()))
    ctx.nontrivial(True)
    for k in case["ks"]:
        m, v = _outcome(t, x.copy(), k)
        if not ctx.expect(m.shape == (n,), "boundary.mask_length", "batch_size=%d: %r" % (k, m.shape)):
            continue
        ctx.expect(np.array_equal(m, base_mask), "boundary.batch_size_changes_domain_membership",
                   lambda: "batch_size=%d: outside=%s, unbatched: outside=%s" % (k, m.astype(int).tolist(), base_mask.astype(int).tolist()))
        if v is not None and base_val is not None:
            ctx.expect(close(v, base_val, rtol=0, atol=1e-12 * (1 + np.abs(base_val).max())), "boundary.batched_values_differ", lambda: describe(v, base_val))


# ------------------------------------------------------------------------------------------ composites and empty inputs
COMPOSITE_FORMS = ("chain_pre", "compose_before", "compose_after", "chain_pre_post", "nested")


@st.composite
def s_composite(draw):
    kind = draw(st.sampled_from(PWA_KINDS))
    c = draw(objs.warp_case(kind="CachedPWA" if kind != "PythonPWA" else "PythonPWA"))
    c["kind"] = kind
    pre = draw(objs.homog_case(d=2, kinds=["Translation", "UniformScale", "Rotation", "Similarity", "Affine"]))
    post = draw(objs.homog_case(d=2, kinds=["Translation", "Affine", "NonUniformScale"]))
    n_out = draw(st.integers(0, 3))
    return {
        "t": c, "pre": pre, "post": post, "form": draw(st.sampled_from(COMPOSITE_FORMS)),
        "inside": draw(objs.bary_picks(0, 6)),
        "outside": draw(st.lists(st.tuples(st.integers(0, 31), gen.q(-3.14, 3.14)).map(list), min_size=n_out, max_size=n_out)),
        "ks": draw(st.lists(st.sampled_from(["1", "2", "3", "n-1", "n", "n+1", "2n+1"]), min_size=1, max_size=3, unique=True)),
    }


def _composite(case):
    """(transform, pre matrix or None): a composite object with one piecewise-affine member; `pre` is what the points
    go through before they reach it."""
    from menpo.transform import TransformChain

    pwa = _build(case["t"])
    pre, post = objs.build_homog(case["pre"]), objs.build_homog(case["post"])
    f = case["form"]
    if f == "chain_pre":
        return TransformChain([pre, pwa]), pre.h_matrix.copy(), None
    if f == "compose_before":
        return pre.compose_before(pwa), pre.h_matrix.copy(), None
    if f == "compose_after":  # pwa first, then post
        return post.compose_after(pwa), None, post.h_matrix.copy()
    if f == "chain_pre_post":
        return TransformChain([pre, pwa, post]), pre.h_matrix.copy(), post.h_matrix.copy()
    return TransformChain([TransformChain([pre, pwa]), post]), pre.h_matrix.copy(), post.h_matrix.copy()


def c_composite(case, ctx):
    tc = case["t"]
    ctx.event("form=%s" % case["form"])
    ctx.event("member=%s" % tc["kind"])
    t, hpre, hpost = _composite(case)
    src = gen.arr(tc["src"])
    tl = np.array(_build(tc).trilist)
    extent = float(np.ptp(src, axis=0).max())
    centroid = src.mean(axis=0)
    dom = [p for p in objs.bary_points(tc["src"], tl, case["inside"])] if case["inside"] else []
    flags = [False] * len(dom)
    for pos, ang in case["outside"]:
        q = centroid + 3.0 * extent * np.array([np.cos(ang), np.sin(ang)])
        k = pos % (len(dom) + 1)
        dom.insert(k, q)
        flags.insert(k, True)
    y = np.array(dom, dtype=float).reshape(len(dom), 2)  # what reaches the piecewise-affine member
    want_mask = np.array(flags, dtype=bool)
    n = y.shape[0]
    if hpre is not None:
        if np.linalg.cond(hpre[:2, :2]) > 50:
            ctx.event("ill-conditioned pre-transform: skipped")
            return
        x = np.linalg.solve(hpre[:2, :2], (y - hpre[:2, 2]).T).T if n else y.copy()
        # the pull-back must land where it was aimed at (otherwise containment would be decided by rounding)
        if n and not bool(np.all(pwa_safely_inside(src, tl, objs.ref_apply_h(hpre, x)[~want_mask], margin=1e-6))):
            ctx.event("pull-back left the safe interior: skipped")
            return
    else:
        x = y.copy()
    ctx.event("n=%d outside=%d" % (n, int(want_mask.sum())))
    ctx.nontrivial(n == 0 or (want_mask.any() and not want_mask.all()))
    d_t = digest.digest(t, skip=_CACHE)

    def expected_values():
        exp, _ = pwa_reference(tc["src"], tc["tgt"], tl, y)
        return exp if hpost is None else objs.ref_apply_h(hpost, exp)

    base_mask, base_val = _outcome(t, x.copy(), None)
    if not ctx.expect(base_mask.shape == (n,), "composite.mask_length", "unbatched: %r for %d points" % (base_mask.shape, n)):
        return
    ctx.expect(np.array_equal(base_mask, want_mask), "composite.unbatched_mask_wrong",
               lambda: "outside=%s expected %s" % (base_mask.astype(int).tolist(), want_mask.astype(int).tolist()))
    if base_val is not None:
        if not ctx.expect(np.asarray(base_val).shape == (n, 2), "composite.result_shape", "%r for %d points" % (np.shape(base_val), n)):
            return
        if n:
            exp = expected_values()
            tol = (1e-9 + 1e-12 * _LAST_PWA_COND[0]) * (1 + np.abs(exp).max()) * max(1.0, float(np.abs(hpost[:2, :2]).sum()) if hpost is not None else 1.0)
            ctx.expect(close(base_val, exp, rtol=0, atol=tol), "composite.values_vs_reference", lambda: describe(base_val, exp))
    for ks in case["ks"]:
        k = _bs(ks, n)
        try:
            m, v = _outcome(t, x.copy(), k)
        except ValueError as e:
            ctx.fail("composite.batched_raises_where_unbatched_does_not", "batch_size=%d n=%d: %s" % (k, n, e))
            continue
        if not ctx.expect(m.shape == (n,), "composite.mask_length", "batch_size=%d: %r for %d points" % (k, m.shape, n)):
            continue
        ctx.expect(np.array_equal(m, base_mask), "composite.batch_size_changes_failure_mask",
                   lambda: "batch_size=%d: outside=%s, unbatched: outside=%s" % (k, m.astype(int).tolist(), base_mask.astype(int).tolist()))
        ctx.expect((v is None) == (base_val is None), "composite.batch_size_changes_outcome", "batch_size=%d" % k)
        if v is not None and base_val is not None:
            ctx.expect(np.shape(v) == np.shape(base_val) and close(v, base_val, rtol=0, atol=1e-12 * (1 + (np.abs(base_val).max() if n else 0.0))),
                       "composite.batched_values_differ", lambda: "batch_size=%d\n%s" % (k, describe(v, base_val)))
    dd = digest.parameter_mutation(d_t, digest.digest(t, skip=_CACHE))
    ctx.expect(dd is None, "composite.transform_parameters_changed", lambda: repr(dd))


@st.composite
def s_empty(draw):
    tc = draw(s_tcase())
    return {"t": tc, "k": draw(st.sampled_from([1, 2, 3, 7])), "shape": draw(st.booleans()),
            "dtype": draw(st.sampled_from(["float64", "float64", "float32", "int64"]))}


def c_empty(case, ctx):
    """A point set with no points is a point set: batched and unbatched applies agree on it."""
    tc = case["t"]
    t = _build(tc)
    ctx.event("transform=%s" % tc["kind"])
    d_in = 2 if tc["kind"] in PWA_KINDS else tc["d"]
    x = np.zeros((0, d_in), dtype=case["dtype"])
    try:
        plain = t.apply(PointCloud(x)).points if case["shape"] else t.apply(x)
    except Exception as e:  # a class that refuses empty input outright is outside this clause
        ctx.event("unbatched apply of an empty set refused (%s): not judged" % type(e).__name__)
        return
    ctx.nontrivial(True)
    try:
        got = t.apply(PointCloud(x), batch_size=case["k"]).points if case["shape"] else t.apply(x, batch_size=case["k"])
    except Exception as e:
        ctx.fail("empty.batched_raises_where_unbatched_does_not", "%s batch_size=%d: %s: %s" % (tc["kind"], case["k"], type(e).__name__, e))
        return
    ctx.expect(np.shape(got) == np.shape(plain), "empty.batched_shape_differs", "%r vs %r" % (np.shape(got), np.shape(plain)))


CLAUSES = [
    Clause("history", c_history, s_history, quick=1500, thorough=40000, nt_floor=0.5,
           rule="apply histories on one instance; non-trivial: >=3 applies with a re-used / perturbed input, or a mixed-domain apply"),
    Clause("batch", c_batch, s_batch, quick=2500, thorough=80000, nt_floor=0.2,
           rule="apply(x, batch_size=k) == apply(x); non-trivial: k does not divide n or exceeds it"),
    Clause("boundary", c_boundary, s_boundary, quick=800, thorough=25000, nt_floor=0.5,
           rule="piecewise affine: points on / within a few ulps of the domain boundary mixed with interior points; outcome "
                "(result or failure mask) identical for every batch size and for each point alone (differential, no "
                "containment reference)"),
    Clause("constrain", c_constrain, s_constrain, quick=600, thorough=15000, nt_floor=0.5,
           rule="BooleanImage.constrain_to_pointcloud independent of batch size and equal to the convex-hull reference"),
    Clause("composite", c_composite, s_composite, quick=1200, thorough=30000, nt_floor=0.3,
           rule="a chain / compose_before / compose_after result / nested chain with ONE piecewise-affine member, applied to "
                "0..6 in-domain points (pulled back through the exact inverse of what precedes the member) mixed with 0..3 "
                "far-outside points, for several batch sizes: failure mask has one entry per input point, equals the "
                "constructed in/out pattern and the unbatched outcome; values equal barycentric reference followed by the "
                "matrix of what follows; non-trivial: both kinds of point present, or no point at all"),
    Clause("empty", c_empty, s_empty, quick=300, thorough=5000, nt_floor=0.5,
           rule="(0, n_dims) input of several dtypes, array or PointCloud, every transform kind: batched apply returns what "
                "the unbatched apply returns"),
]
