"""C09 - apply() is pure: no history, aliasing or batch-size effects."""
import numpy as np
from hypothesis import strategies as st

from vlib.runner import Clause
from vlib import gen, objs, digest
from vlib.tol import close, describe

from menpo.shape import PointCloud
from menpo.image import BooleanImage
from menpo.transform.piecewiseaffine.base import TriangleContainmentError

PROPERTY = "C09"
RULE = (
    "Histories on ONE transform instance, generated as data: a transform (47% CachedPWA/PythonPWA/PiecewiseAffine - 40% of "
    "them over an explicit TriMesh source = Delaunay with triangles removed -, else the homogeneous family, chains, "
    "WithDims with list / int / mask / slice dims (alone or as last member of a chain), TPS, the radial basis kernels "
    "R2LogR2RBF / R2LogRRBF) and 3-12 steps drawn from {apply new array, apply an earlier array object again, edit one "
    "coordinate of an earlier array in place by delta in {1e-12..1} and apply it, apply a fresh array equal to an earlier "
    "one up to delta, apply a PointCloud, apply a PointCloud / TriMesh / LandmarkManager carrying 1-2 landmark groups that "
    "equal the points up to delta (several _apply calls in one public apply), apply the same values in 2-3 dtypes / memory "
    "layouts, apply with batch size k in {1,2,3,n-1,n,n+1,2n+1}, apply a mix of 0..6 in-domain and 1..3 out-of-domain "
    "points (PWA; far away or inside a removed triangle), apply an earlier input's values in a form that ALIASES MEMORY THE "
    "CALLER STILL OWNS (read-only view of a writeable base, C or Fortran order; np.broadcast_to rows; every second row of a "
    "larger buffer; column-swapped view; Fortran-ordered array; window into a longer buffer; np.frombuffer over a bytearray, "
    "writeable or through a read-only memoryview) and then 1-3 times: the owner edits the buffer in place (one coordinate by "
    "delta / refill with other in-domain rows / PWA: write an out-of-domain point) and the same array object is applied "
    "again with batch size in {None,1,2,n-1,n,n+1,2n+1}, sometimes with an apply of another array in between; such arrays "
    "join the pool, so the other steps re-use them and edit them through the owner}. Every array apply() hands back is kept: it must not alias "
    "the argument or another result, must not change when arrays passed earlier are edited or later applies happen, "
    "and writing into it must not reach the argument. Non-trivial: >= 3 applies of which >= 1 re-uses or perturbs an "
    "earlier input (history clause); k does not divide n (batch clause); both inside and outside points present, the "
    "inside ones lying on shared edges / vertices (mesh clause)."
)
ASSUMPTIONS = [
    "history-free reference: a freshly built transform from the same case applied to a private copy of the current "
    "values (no history by construction), plus explicit references: homogeneous product for the homogeneous family, "
    "column selection for WithDims, the kernel formula for the radial basis functions and a barycentric "
    "point-location model for piecewise affine (using the transform's own triangle list as a parameter)",
    "PWA in-domain points are strict convex combinations of source triangles (weights >= 0.05), out-of-domain points lie "
    "3 extents away from the centroid or inside a removed triangle with barycentric margin >= 1e-9 to every kept one, so "
    "containment is never decided by rounding; PWA perturbations are <= 1e-3",
    "clause mesh: points exactly ON the source mesh (vertices, edge midpoints) are asserted to be inside only for integer "
    "vertex coordinates, where every product in menpo's barycentric solve is exact and alpha + beta <= 1 holds after "
    "rounding (x * fl(1/x) <= 1); other points of an edge are not generated",
    "constrain: how the previous content of a non-blank mask combines with the region is not judged (batch-size "
    "independence only); pixels exactly on a triangle boundary are judged for batch-size independence only",
]

_CACHE = ("._applied_points", "._iab")
PWA_KINDS = ("CachedPWA", "PythonPWA", "PiecewiseAffine")
RBF_KINDS = ("R2LogR2RBF", "R2LogRRBF")


_LAST_PWA_COND = [1.0]


def pwa_reference(src, tgt, trilist, x):
    """Barycentric reference: returns (values, outside_mask). The worst conditioning of a containing triangle's edge
    matrix is left in _LAST_PWA_COND[0]: in a sliver triangle both the reference and the code under test lose that
    many digits, and the comparison tolerance has to follow."""
    src = np.asarray(src, dtype=float)
    tgt = np.asarray(tgt, dtype=float)
    x = np.asarray(x, dtype=float)
    out = np.zeros_like(x)
    outside = np.ones(x.shape[0], dtype=bool)
    _LAST_PWA_COND[0] = 1.0
    for i, p in enumerate(x):
        for tri in trilist:
            a, b, c = src[tri[0]], src[tri[1]], src[tri[2]]
            m = np.array([b - a, c - a]).T
            det = m[0, 0] * m[1, 1] - m[0, 1] * m[1, 0]
            if abs(det) < 1e-14:
                continue
            rhs = p - a
            al = (rhs[0] * m[1, 1] - rhs[1] * m[0, 1]) / det
            be = (m[0, 0] * rhs[1] - m[1, 0] * rhs[0]) / det
            if al >= -1e-12 and be >= -1e-12 and al + be <= 1 + 1e-12:
                ta, tb, tc_ = tgt[tri[0]], tgt[tri[1]], tgt[tri[2]]
                out[i] = ta + al * (tb - ta) + be * (tc_ - ta)
                outside[i] = False
                _LAST_PWA_COND[0] = max(_LAST_PWA_COND[0], float(np.linalg.cond(m)))
                break
    return out, outside


def pwa_safely_inside(src, trilist, x, margin=1e-9):
    """True for points that lie inside some source triangle with barycentric margin (never decided by rounding)."""
    src = np.asarray(src, dtype=float)
    ok = np.zeros(len(x), dtype=bool)
    for i, p in enumerate(np.asarray(x, dtype=float)):
        for tri in trilist:
            a, b, c = src[tri[0]], src[tri[1]], src[tri[2]]
            m = np.array([b - a, c - a]).T
            det = m[0, 0] * m[1, 1] - m[0, 1] * m[1, 0]
            if abs(det) < 1e-14:
                continue
            rhs = p - a
            al = (rhs[0] * m[1, 1] - rhs[1] * m[0, 1]) / det
            be = (m[0, 0] * rhs[1] - m[1, 0] * rhs[0]) / det
            if al >= margin and be >= margin and al + be <= 1 - margin:
                ok[i] = True
                break
    return ok


def mesh_bary_min(src, trilist, pts):
    """For each point the largest, over the triangles, of its smallest barycentric coordinate: > 0 strictly inside a
    triangle, == 0 on the boundary of one (and strictly inside none), < 0 outside all of them. Edge functions (cross
    products) - not the alpha/beta solve of the code under test; exact for small integer / dyadic coordinates."""
    src = np.asarray(src, dtype=float)
    pts = np.asarray(pts, dtype=float).reshape(-1, 2)
    best = np.full(pts.shape[0], -np.inf)

    def cross(u, v):
        return u[..., 0] * v[..., 1] - u[..., 1] * v[..., 0]

    for tri in trilist:
        a, b, c = src[tri[0]], src[tri[1]], src[tri[2]]
        area = cross(b - a, c - a)
        if area == 0:
            continue
        la = cross(c - b, pts - b) / area
        lb = cross(a - c, pts - c) / area
        lc = cross(b - a, pts - a) / area
        best = np.maximum(best, np.minimum(np.minimum(la, lb), lc))
    return best


def _split_trilist(tc):
    """(kept, dropped) triangles of a piecewise-affine case: the Delaunay triangulation menpo computes for the source
    points, minus the triangles the case removes (an explicit TriMesh source: holes, notches, separate pieces)."""
    from menpo.shape import TriMesh

    full = np.array(TriMesh(gen.arr(tc["src"])).trilist)
    gone = np.zeros(len(full), dtype=bool)
    for k in tc.get("drop") or []:
        gone[k % len(full)] = True
    if gone.all():
        gone[0] = False
    return full[~gone], full[gone]


def _wd_dims(wd):
    if wd["form"] == "mask":
        return np.array(wd["dims"], dtype=bool)
    if wd["form"] == "slice":
        return slice(*wd["dims"])
    return wd["dims"]


def _wd_cols(wd):
    """The input columns a WithDims keeps, in order, by the plain-python meaning of its index."""
    d = wd["d"]
    if wd["form"] == "int":
        return [wd["dims"] % d]
    if wd["form"] == "list":
        return [v % d for v in wd["dims"]]
    if wd["form"] == "mask":
        return [i for i, b in enumerate(wd["dims"]) if b]
    return list(range(d))[slice(*wd["dims"])]


def _select_cols(x, cols):
    x = np.asarray(x)
    out = np.zeros((x.shape[0], len(cols)), dtype=x.dtype)
    for i in range(x.shape[0]):
        for j, c in enumerate(cols):
            out[i, j] = x[i, c]
    return out


def _rbf_reference(kind, centres, x):
    """r^2 log r^2 (R2LogR2RBF) / r^2 log r (R2LogRRBF) of the distance to every centre, 0 at a centre: (n, n_centres)."""
    import math

    x = np.asarray(x, dtype=float)
    c = np.asarray(centres, dtype=float)
    out = np.zeros((x.shape[0], c.shape[0]))
    for i in range(x.shape[0]):
        for j in range(c.shape[0]):
            r2 = sum((x[i, a] - c[j, a]) ** 2 for a in range(c.shape[1]))
            if r2 > 0:
                out[i, j] = r2 * math.log(r2) * (1.0 if kind == "R2LogR2RBF" else 0.5)
    return out


def _build(tc):
    import menpo.transform as mt
    from menpo.shape import TriMesh
    from menpo.transform import rbf
    from menpo.transform.piecewiseaffine.base import CachedPWA, PythonPWA

    kind = tc["kind"]
    if kind in PWA_KINDS:
        cls = {"PiecewiseAffine": mt.PiecewiseAffine, "CachedPWA": CachedPWA, "PythonPWA": PythonPWA}[kind]
        src = gen.arr(tc["src"])
        source = TriMesh(src, trilist=_split_trilist(tc)[0]) if tc.get("drop") else PointCloud(src)
        return cls(source, PointCloud(gen.arr(tc["tgt"])))
    if kind == "WithDims":
        return mt.WithDims(_wd_dims(tc))
    if kind == "ChainWithDims":
        return mt.TransformChain([objs.build_homog(m) for m in tc["members"]] + [mt.WithDims(_wd_dims(tc["wd"]))])
    if kind in RBF_KINDS:
        return getattr(rbf, kind)(gen.arr(tc["c"]))
    return objs.build_transform(tc)


def _slices(d):
    """Every [start, stop, step] that selects at least one of d columns."""
    out = []
    for a in [None] + list(range(-d, d)):
        for b in [None] + list(range(-d, d + 1)):
            for s in (None, 1, 2, -1):
                if len(list(range(d))[slice(a, b, s)]) >= 1:
                    out.append([a, b, s])
    return out


@st.composite
def s_withdims(draw, d):
    form = draw(st.sampled_from(["list", "int", "mask", "slice", "slice"]))
    if form == "list":
        dims = draw(st.lists(st.integers(0, d - 1), min_size=1, max_size=d, unique=True))
    elif form == "int":
        dims = draw(st.integers(-d, d - 1))
    elif form == "mask":
        dims = draw(st.lists(st.booleans(), min_size=d, max_size=d))
        dims[draw(st.integers(0, d - 1))] = True
    else:
        dims = draw(st.sampled_from(_slices(d)))
    return {"kind": "WithDims", "d": d, "form": form, "dims": dims}


@st.composite
def s_tcase(draw):
    cat = draw(st.sampled_from(["pwa"] * 9 + ["homog"] * 4 + ["tps"] * 2 + ["rbf", "withdims", "withdims", "chain", "chain_wd"]))
    if cat == "pwa":
        kind = draw(st.sampled_from(PWA_KINDS))
        c = draw(objs.warp_case(kind="CachedPWA" if kind != "PythonPWA" else "PythonPWA"))
        c["kind"] = kind
        # an explicit TriMesh source: the Delaunay triangulation with some triangles removed (hole / notch / pieces)
        if draw(st.integers(0, 4)) < 2:
            c["drop"] = draw(st.lists(st.integers(0, 63), min_size=1, max_size=3))
        return c
    if cat == "homog":
        return draw(objs.transform_case(kinds=objs.HOMOG_KINDS))
    if cat == "tps":
        return draw(objs.warp_case(kind="ThinPlateSplines"))
    d = draw(st.sampled_from([2, 3]))
    if cat == "rbf":
        n = draw(st.integers(1, 6))
        return {"kind": draw(st.sampled_from(RBF_KINDS)), "d": d, "c": draw(gen.points_case(n=n, d=d))}
    if cat == "withdims":
        return draw(s_withdims(d))
    members = [draw(objs.homog_case(d=d)) for _ in range(draw(st.integers(1, 3)))]
    if cat == "chain":
        return {"kind": "TransformChain", "d": d, "members": members}
    return {"kind": "ChainWithDims", "d": d, "members": members, "wd": draw(s_withdims(d))}


def _pts_spec(draw, tc, n_min=1, n_max=7):
    n = draw(st.integers(n_min, n_max))
    if tc["kind"] in PWA_KINDS:
        return {"bary": draw(objs.bary_picks(n, n))}
    spec = {"xy": draw(st.lists(gen.vec(tc["d"], -10, 10), min_size=n, max_size=n))}
    if tc["kind"] in RBF_KINDS and n:
        # rows that coincide with a centre (the kernel's singular point)
        spec["at_centre"] = draw(st.lists(st.tuples(st.integers(0, 31), st.integers(0, 31)).map(list), max_size=2))
    return spec


def _materialise(tc, trilist, spec):
    if "bary" in spec:
        return np.asarray(objs.bary_points(tc["src"], trilist, spec["bary"]), dtype=float).reshape(-1, 2)
    x = gen.arr(spec["xy"]).reshape(-1, tc["d"])
    for r, j in spec.get("at_centre") or []:
        if x.shape[0]:
            x[r % x.shape[0]] = gen.arr(tc["c"])[j % len(tc["c"])]
    return x


DELTAS = [1e-12, 1e-9, 1e-6, 1e-3, 1.0]
BATCHES = ["1", "2", "3", "n-1", "n", "n+1", "2n+1"]
REPRS = ["float64", "float32", "int64", "int32", "fortran", "strided", "negstride"]


@st.composite
def s_history(draw):
    tc = draw(s_tcase())
    pwa = tc["kind"] in PWA_KINDS
    steps = [["apply_new", _pts_spec(draw, tc, 2, 7)]]
    n_steps = draw(st.integers(3, 12))
    kinds = ["apply_new", "apply_again", "mutate_apply", "mutate_apply", "apply_near", "apply_shape", "apply_batched", "apply_lm_shape", "apply_recast"]
    kinds += ["apply_alias", "apply_alias"]
    if pwa:
        kinds += ["apply_mixed", "apply_mixed"]
    for _ in range(n_steps - 1):
        k = draw(st.sampled_from(kinds))
        if k == "apply_new":
            steps.append([k, _pts_spec(draw, tc)])
        elif k == "apply_alias":
            # an earlier input's values in a form that aliases memory the caller still owns; applied, then 1-3 times:
            # the OWNER edits the buffer (one coordinate / refills it with other in-domain values / - piecewise affine -
            # writes an out-of-domain point into it) and the very same array object is applied again, unbatched or batched
            edits = []
            for _e in range(draw(st.integers(1, 3))):
                ek = draw(st.sampled_from(["perturb", "perturb", "refill", "refill"] + (["outside"] if pwa else [])))
                e = {"k": ek, "bs": draw(st.sampled_from(ALIAS_BATCHES)), "between": draw(st.sampled_from([None, None, None, "before", "after"])),
                     "i": draw(st.integers(0, 31)), "j": draw(st.integers(0, 31))}
                if ek == "perturb":
                    e["dl"] = draw(st.sampled_from(DELTAS[:4] if pwa else DELTAS)) * draw(st.sampled_from([1, -1]))
                elif ek == "outside":
                    e["ang"] = draw(gen.q(-3.14, 3.14))
                    if tc.get("drop") and draw(st.booleans()):
                        e["hole"] = draw(objs.bary_picks(1, 1))[0]
                edits.append(e)
            steps.append([k, draw(st.integers(0, 31)), draw(st.sampled_from(ALIAS_FORMS)), draw(st.sampled_from(ALIAS_BATCHES)), edits])
        elif k in ("apply_again", "apply_shape"):
            steps.append([k, draw(st.integers(0, 31))])
        elif k in ("mutate_apply", "apply_near"):
            dl = draw(st.sampled_from(DELTAS[:4] if pwa else DELTAS))
            steps.append([k, draw(st.integers(0, 31)), draw(st.integers(0, 31)), draw(st.integers(0, 2)), dl * draw(st.sampled_from([1, -1]))])
        elif k == "apply_batched":
            steps.append([k, draw(st.integers(0, 31)), draw(st.sampled_from(BATCHES))])
        elif k == "apply_lm_shape":
            # a shape carrying 1-2 landmark groups of the same size whose coordinates are those of the shape up to one
            # perturbed entry: ONE public apply makes several _apply calls on nearly equal arrays
            ng = draw(st.integers(1, 2))
            groups = [[draw(st.integers(0, 31)), draw(st.integers(0, 2)), draw(st.sampled_from(DELTAS[:4] if pwa else DELTAS)) * draw(st.sampled_from([1, -1, 0]))]
                      for _ in range(ng)]
            steps.append([k, draw(st.integers(0, 31)), {"cls": draw(st.sampled_from(["PointCloud", "TriMesh", "LandmarkManager"])), "groups": groups,
                                                        "bs": draw(st.sampled_from(["none", "none"] + BATCHES))}])
        elif k == "apply_recast":
            # the same VALUES in 2-3 representations (dtype / memory layout), one after the other
            steps.append([k, draw(st.integers(0, 31)), draw(st.lists(st.sampled_from(REPRS), min_size=2, max_size=3)),
                          draw(st.lists(st.integers(0, 255), min_size=7, max_size=7))])
        else:
            # positions (among n+m) that are outside; a far point (direction) or, when the source mesh has removed
            # triangles, a point inside one of those (inside the hull, outside the domain); possibly NO inside point
            n_out = draw(st.integers(1, 3))
            outs = []
            for _o in range(n_out):
                o = [draw(st.integers(0, 31)), draw(gen.q(-3.14, 3.14))]
                if tc.get("drop") and draw(st.booleans()):
                    o.append(draw(objs.bary_picks(1, 1))[0])
                outs.append(o)
            steps.append([k, _pts_spec(draw, tc, 0, 6), outs, draw(st.sampled_from(["none"] + BATCHES))])
    return {"t": tc, "steps": steps}


def _bs(spec, n):
    if spec in (None, "none"):
        return None
    v = {"n-1": n - 1, "n": n, "n+1": n + 1, "2n+1": 2 * n + 1}.get(spec)
    if v is None:
        v = int(spec)
    return max(1, v)


def _recast(v, name):
    """The values of the float64 array v in another dtype / memory layout."""
    if name == "float64":
        return v.copy()
    if name in ("float32", "int64", "int32"):
        return v.astype(name)
    if name == "fortran":
        return np.asfortranarray(v)
    if name == "strided":
        big = np.full((2 * v.shape[0], v.shape[1] + 1), 7.5)
        big[::2, : v.shape[1]] = v
        return big[::2, : v.shape[1]]
    rev = np.array(v[::-1])
    return rev[::-1]


# input-array forms that ALIAS CALLER-OWNED MEMORY: what apply() is handed is a legal ndarray whose bytes somebody else
# (the owner of the buffer) keeps writing to. Read-only ones cannot be written THROUGH, but are not constant either.
ALIAS_FORMS = ["ro_view", "ro_view", "broadcast", "strided_rows", "colswap", "fortran", "fortran_ro", "window", "frombuffer", "frombuffer_ro"]
ALIAS_BATCHES = ["none", "none", "none", "n", "n+1", "2n+1", "n-1", "1", "2"]


def _alias(v, form):
    """(view, twin): `view` holds the values of the float64 (n, d) array v in the given aliasing form; `twin` is a
    WRITEABLE array of the same shape over the same memory (the owner's handle: twin[r, c] = ... edits what view shows)."""
    from numpy.lib.stride_tricks import as_strided

    n, d = v.shape
    if form in ("ro_view", "fortran_ro"):
        base = np.array(v, order="F" if form == "fortran_ro" else "C", copy=True)
        view = base.view()
        view.setflags(write=False)
        return view, base
    if form == "broadcast":  # every row is the same row of memory
        row = v[0].copy()
        return np.broadcast_to(row, (n, d)), as_strided(row, shape=(n, d), strides=(0, row.strides[0]))
    if form == "strided_rows":  # every second row of a larger buffer, without its last column
        big = np.full((2 * n + 1, d + 1), 7.5)
        big[1::2, :d] = v
        return big[1::2, :d], big[1::2, :d]
    if form == "colswap":  # columns stored in the opposite order
        base = np.array(v[:, ::-1], copy=True)
        return base[:, ::-1], base[:, ::-1]
    if form == "fortran":
        base = np.array(v, order="F", copy=True)
        return base, base
    if form == "window":  # a window into a longer buffer (which is refilled later)
        big = np.full((n + 4, d), 3.25)
        big[2 : 2 + n] = v
        return big[2 : 2 + n], big[2 : 2 + n]
    ba = bytearray(np.ascontiguousarray(v).tobytes())
    twin = np.frombuffer(ba, dtype=float).reshape(n, d)
    if form == "frombuffer":
        return np.frombuffer(ba, dtype=float).reshape(n, d), twin
    return np.frombuffer(memoryview(ba).toreadonly(), dtype=float).reshape(n, d), twin


def c_history(case, ctx):
    from menpo.shape import TriMesh

    tc = case["t"]
    kind = tc["kind"]
    pwa = kind in PWA_KINDS
    ctx.event("transform=%s" % kind + (" (TriMesh source, triangles removed)" if tc.get("drop") else ""))
    if kind == "WithDims":
        ctx.event("WithDims dims=%s" % tc["form"])
    t = _build(tc)
    d_t = digest.digest(t, skip=_CACHE)
    trilist = np.array(t.trilist) if pwa else None
    dropped = _split_trilist(tc)[1] if pwa and tc.get("drop") else None
    extent = float(np.ptp(gen.arr(tc["src"]), axis=0).max()) if pwa else 10.0
    centroid = gen.arr(tc["src"]).mean(axis=0) if pwa else None
    pool = []  # arrays passed so far (the very objects)
    owners = {}  # id(array in the pool that aliases an owner's buffer) -> the owner's writeable array over the same memory
    results = []  # every array apply() handed back so far, with a snapshot of its values and the array it was given
    n_apply = 0
    reused = False

    def materialise(spec):
        return _materialise(tc, trilist, spec)

    ref_tol = [1e-9]

    def reference(x):
        """History-free expected output for the CURRENT values of x: (explicit reference, fresh instance)."""
        ref_tol[0] = 1e-9 if x.dtype != np.float32 else 1e-5
        fresh = _build(tc).apply(np.array(x, copy=True))
        xv = np.asarray(x, dtype=float)
        if kind in objs.HOMOG_KINDS:
            h = objs.ref_h(tc)
            if h is None:
                h = _build(tc).h_matrix.copy()
            exp = objs.ref_apply_h(h, xv)
            ctx.expect(close(fresh, exp, rtol=0, atol=ref_tol[0] * (1 + np.abs(exp).max())), "fresh_instance_vs_explicit_reference", lambda: describe(fresh, exp))
            return exp, fresh
        if pwa:
            exp, outside = pwa_reference(tc["src"], tc["tgt"], trilist, xv)
            ref_tol[0] = 1e-9 + 1e-12 * _LAST_PWA_COND[0]
            if _LAST_PWA_COND[0] > 1e3:
                ctx.event("sliver triangle (edge-matrix condition > 1e3): reference tolerance widened")
            if not outside.any():
                ctx.expect(close(fresh, exp, rtol=0, atol=ref_tol[0] * (1 + np.abs(exp).max())), "fresh_instance_vs_barycentric_reference", lambda: describe(fresh, exp))
            return exp, fresh
        if kind == "WithDims":
            exp = _select_cols(x, _wd_cols(tc))
            ctx.expect(np.shape(fresh) == exp.shape and np.array_equal(fresh, exp), "withdims.fresh_instance_vs_column_selection", lambda: describe(fresh, exp))
            return exp, fresh
        if kind == "ChainWithDims":
            import menpo.transform as mt

            exp = _select_cols(mt.TransformChain([objs.build_homog(m) for m in tc["members"]]).apply(np.array(xv, copy=True)), _wd_cols(tc["wd"]))
            ctx.expect(close(fresh, exp, rtol=0, atol=ref_tol[0] * (1 + (np.abs(exp).max() if exp.size else 0.0))), "chain_withdims.fresh_instance_vs_column_selection",
                       lambda: describe(fresh, exp))
            return exp, fresh
        if kind in RBF_KINDS:
            exp = _rbf_reference(kind, tc["c"], xv)
            ctx.expect(close(fresh, exp, rtol=0, atol=ref_tol[0] * (1 + (np.abs(exp).max() if exp.size else 0.0))), "rbf.fresh_instance_vs_kernel_formula",
                       lambda: describe(fresh, exp))
            return exp, fresh
        return fresh, fresh

    def judge(got, x, what, batch):
        """got (an array handed back for the values of x) against the history-free expectations."""
        want, fresh = reference(x)
        scale = 1.0 + (float(np.abs(want).max()) if np.size(want) else 0.0)
        ctx.expect(close(got, want, rtol=0, atol=ref_tol[0] * scale), what, lambda: "step result differs from the history-free reference\n" + describe(got, want))
        # the same code on a fresh instance (no history) and the same values: equal to rounding noise, so that
        # even a 1e-12 perturbation of the input must show up in the output (batched: summation order may differ)
        ctx.expect(close(got, fresh, rtol=0, atol=(2e-15 if batch is None else 1e-12) * scale), what + ".vs_fresh_instance",
                   lambda: "differs from a fresh instance applied to the same values\n" + describe(got, fresh))

    def keep(got, x, what):
        """Remember an array apply() handed back: it belongs to the caller from now on."""
        got = np.asarray(got)
        if x is not None:
            ctx.expect(not np.shares_memory(got, x), "result_aliases_argument", what)
        for r in results:
            if not ctx.expect(not np.shares_memory(got, r["res"]), "results_of_two_applies_share_memory", "%s and the earlier %s" % (what, r["what"])):
                break
        results.append({"res": got, "snap": np.array(got, copy=True), "x": x, "what": what})

    def earlier_results_intact(after):
        for r in results:
            if not ctx.expect(r["res"].shape == r["snap"].shape and np.array_equal(r["res"], r["snap"], equal_nan=True), "earlier_result_changed",
                              lambda: "the array returned by '%s' changed after '%s'\n%s" % (r["what"], after, describe(r["res"], r["snap"]))):
                r["snap"] = np.array(r["res"], copy=True)

    def do_apply(x, what, batch=None, as_shape=False):
        nonlocal n_apply
        before = x.copy()
        if as_shape:
            got = t.apply(PointCloud(x), batch_size=batch).points
        else:
            got = t.apply(x, batch_size=batch)
        n_apply += 1
        judge(got, x, what, batch)
        ctx.expect(np.array_equal(before, x), "argument_mutated", what)
        keep(got, x, what)
        return got

    for step in case["steps"]:
        k = step[0]
        ctx.event("step=%s" % k)
        if k == "apply_new":
            x = materialise(step[1])
            pool.append(x)
            do_apply(x, "apply_new")
        elif k == "apply_again":
            x = pool[step[1] % len(pool)]
            reused = True
            do_apply(x, "apply_same_array_again")
        elif k == "apply_shape":
            x = pool[step[1] % len(pool)]
            do_apply(x, "apply_shape", as_shape=True)
        elif k == "mutate_apply":
            x = pool[step[1] % len(pool)]
            r, cidx = step[2] % x.shape[0], step[3] % x.shape[1]
            w = owners.get(id(x), x)  # an aliasing (possibly read-only) array is edited by the owner of its memory
            old_val = float(w[r, cidx])
            w[r, cidx] += step[4]
            if pwa and not pwa_safely_inside(tc["src"], trilist, x).all():
                # a sliver triangle: the perturbed point would leave the domain - not this step's subject
                w[r, cidx] = old_val
                ctx.event("perturbation leaves the domain: skipped")
                continue
            reused = True
            ctx.event("delta=%g" % abs(step[4]))
            # what earlier applies handed back must not follow the edit of the array they were given
            earlier_results_intact("in-place edit of an array passed earlier")
            do_apply(x, "apply_after_inplace_edit")
        elif k == "apply_alias":
            v0 = np.array(pool[step[1] % len(pool)], dtype=float, copy=True)
            form = step[2]
            view, twin = _alias(v0, form)
            assert np.array_equal(view, v0 if form != "broadcast" else np.tile(v0[0], (v0.shape[0], 1))) and np.shares_memory(view, twin)
            n = view.shape[0]
            ctx.event("alias form=%s (%s)" % (form, "writeable" if view.flags.writeable else "read-only"))
            pool.append(view)
            owners[id(view)] = twin
            reused = True

            def outside_rows():
                """Which rows of the view are out of the domain NOW (None: within rounding of its boundary)."""
                if not pwa:
                    return np.zeros(n, dtype=bool)
                cur = np.array(view, dtype=float, copy=True)
                bm = mesh_bary_min(tc["src"], trilist, cur)
                out = bm < 0
                if (np.abs(bm[out]) < 1e-9).any() or not pwa_safely_inside(tc["src"], trilist, cur[~out]).all():
                    return None
                return out

            def apply_view(bs_spec, what):
                nonlocal n_apply
                bs = _bs(bs_spec, n)
                out = outside_rows()
                if out is None:  # (a sliver triangle: the two membership references disagree about the margin)
                    ctx.event("aliasing array within rounding of the domain boundary: not applied")
                    return
                ctx.event("alias %s batch=%s" % (what, bs_spec))
                if not out.any():
                    do_apply(view, what, batch=bs)
                    return
                cur = np.array(view, copy=True)
                n_apply += 1
                try:
                    t.apply(view, batch_size=bs)
                    ctx.fail(what + ".out_of_domain.no_error", "the buffer now holds out-of-domain points %s, yet no TriangleContainmentError (batch_size=%r)"
                             % (np.nonzero(out)[0].tolist(), bs))
                except TriangleContainmentError as e:
                    m = np.asarray(e.points_outside_source_domain)
                    ctx.expect(m.shape == (n,) and np.array_equal(m.astype(bool), out), what + ".out_of_domain.mask_wrong_points",
                               lambda: "mask %r, outside points %r (batch_size=%r)" % (m.astype(int).tolist(), out.astype(int).tolist(), bs))
                ctx.expect(np.array_equal(cur, view), "argument_mutated", what)

            apply_view(step[3], "apply_aliasing_array")
            for e in step[4]:
                other = pool[e["j"] % len(pool)]
                if e["between"] == "before" and other is not view:
                    do_apply(other, "apply_between_alias_and_owner_edit")
                saved = np.array(twin, copy=True)
                if e["k"] == "perturb":
                    twin[e["i"] % n, e["j"] % twin.shape[1]] += e["dl"]
                elif e["k"] == "refill":
                    src_rows = np.array(pool[e["i"] % len(pool)], dtype=float, copy=True)
                    twin[...] = np.array([src_rows[(i + e["j"]) % len(src_rows)] for i in range(n)])
                else:
                    if "hole" in e and dropped is not None and len(dropped):
                        far = objs.bary_points(tc["src"], dropped, [e["hole"]])[0]
                    else:
                        far = centroid + 3.0 * extent * np.array([np.cos(e["ang"]), np.sin(e["ang"])])
                    twin[e["i"] % n] = far
                out = outside_rows()
                if out is None:
                    twin[...] = saved
                    ctx.event("owner edit lands within rounding of the domain boundary: skipped")
                    continue
                ctx.event("owner edit=%s%s" % (e["k"], "" if not np.array_equal(saved, twin) else " (no value changed)"))
                if out.any():
                    ctx.event("owner edit leaves out-of-domain points in the buffer")
                # what earlier applies handed back must not follow the owner's edit
                earlier_results_intact("the owner's in-place edit of a buffer an applied array aliases")
                if e["between"] == "after" and other is not view:
                    do_apply(other, "apply_between_owner_edit_and_alias")
                apply_view(e["bs"], "apply_aliasing_array_after_owner_edit")
            out = outside_rows()
            if out is None or out.any():
                # leave the pooled array in-domain (and: a failed application must not poison the next one on that object)
                twin[...] = v0
                apply_view("none", "apply_aliasing_array_after_owner_edit")
        elif k == "apply_near":
            x = pool[step[1] % len(pool)].copy()
            r, cidx = step[2] % x.shape[0], step[3] % x.shape[1]
            x[r, cidx] += step[4]
            if pwa and not pwa_safely_inside(tc["src"], trilist, x).all():
                ctx.event("perturbation leaves the domain: skipped")
                continue
            pool.append(x)
            reused = True
            ctx.event("delta=%g" % abs(step[4]))
            do_apply(x, "apply_near_duplicate")
        elif k == "apply_batched":
            x = pool[step[1] % len(pool)]
            n = x.shape[0]
            bs = _bs(step[2], n)
            ctx.event("batch divides" if n % bs == 0 else "batch does not divide")
            do_apply(x, "apply_batched", batch=bs)
        elif k == "apply_lm_shape":
            x = pool[step[1] % len(pool)]
            spec = step[2]
            n, d = x.shape
            groups = []
            for r, cidx, dl in spec["groups"]:
                g = x.copy()
                g[r % n, cidx % d] += dl
                groups.append(g)
            if pwa and not all(pwa_safely_inside(tc["src"], trilist, g).all() for g in groups):
                ctx.event("perturbation leaves the domain: skipped")
                continue
            cls = spec["cls"]
            if cls != "PointCloud" and n >= 3:
                shape = TriMesh(x, trilist=np.array([[0, 1, 2]] + ([[1, 3, 2]] if n >= 4 else [])))
            else:
                shape = PointCloud(x)
            for i, g in enumerate(groups):
                shape.landmarks["g%d" % i] = PointCloud(g)
            bs = _bs(spec["bs"], n)
            ctx.event("landmarked %s" % (cls if cls == "LandmarkManager" else type(shape).__name__))
            ctx.event("landmarked, %d group(s), %s" % (len(groups), "unbatched" if bs is None else "batched"))
            out = t.apply(shape.landmarks if cls == "LandmarkManager" else shape, batch_size=bs)
            n_apply += 1
            reused = True
            out_lms = out if cls == "LandmarkManager" else out.landmarks
            if cls != "LandmarkManager":
                if ctx.expect(type(out) is type(shape), "apply_landmarked_shape.result_type", "%s for a %s" % (type(out).__name__, type(shape).__name__)):
                    judge(out.points, x, "apply_landmarked_shape.points", bs)
                    keep(out.points, None, "apply_landmarked_shape.points")
            if ctx.expect(sorted(out_lms.group_labels) == sorted("g%d" % i for i in range(len(groups))), "apply_landmarked_shape.groups_lost", lambda: repr(list(out_lms.group_labels))):
                for i, g in enumerate(groups):
                    judge(out_lms["g%d" % i].points, g, "apply_landmarked_shape.landmark_group", bs)
                    keep(out_lms["g%d" % i].points, None, "apply_landmarked_shape.landmark_group")
            same = np.array_equal(shape.points, x) and all(np.array_equal(shape.landmarks["g%d" % i].points, g) for i, g in enumerate(groups))
            ctx.expect(same, "argument_mutated", "apply_landmarked_shape: the shape passed in (points or landmarks) changed")
        elif k == "apply_recast":
            base = pool[step[1] % len(pool)]
            names = step[2]
            ints = any(nm.startswith("int") for nm in names)
            if ints and pwa:
                # integer points of the domain: the lattice points that lie inside it with a margin
                lo, hi = np.floor(gen.arr(tc["src"]).min(axis=0)), np.ceil(gen.arr(tc["src"]).max(axis=0))
                lat = np.array([[i, j] for i in np.arange(lo[0], hi[0] + 1) for j in np.arange(lo[1], hi[1] + 1)], dtype=float)
                lat = lat[mesh_bary_min(tc["src"], trilist, lat) >= 1e-6]
                if not len(lat):
                    ctx.event("no integer point inside the domain: skipped")
                    continue
                v = np.array([lat[j % len(lat)] for j in step[3][: base.shape[0]]])
            elif ints:
                v = np.round(base)
            elif "float32" in names:
                v = base.astype(np.float32).astype(float)
                if pwa and not (mesh_bary_min(tc["src"], trilist, v) >= 1e-6).all():
                    ctx.event("float32 rounding leaves the safe interior: skipped")
                    continue
            else:
                v = base.copy()
            reused = True
            for nm in names:
                ctx.event("repr=%s" % nm)
                do_apply(_recast(v, nm), "apply_same_values_other_dtype_or_layout")
        elif k == "apply_mixed":
            inside = materialise(step[1])
            pts = [p for p in inside]
            is_out = [False] * len(pts)
            holes = 0
            for o in step[2]:
                pos, ang = o[0], o[1]
                if len(o) > 2 and dropped is not None and len(dropped):
                    far = objs.bary_points(tc["src"], dropped, [o[2]])[0]
                    holes += 1
                else:
                    far = centroid + 3.0 * extent * np.array([np.cos(ang), np.sin(ang)])
                j = pos % (len(pts) + 1)
                pts.insert(j, far)
                is_out.insert(j, True)
            x = np.array(pts)
            is_out = np.array(is_out)
            n = x.shape[0]
            if holes and not (mesh_bary_min(tc["src"], trilist, x[is_out]) <= -1e-9).all():
                ctx.event("hole point within rounding of a kept triangle: skipped")
                continue
            bs = _bs(step[3], n)
            ctx.event("mixed batch=%s" % step[3])
            ctx.event("mixed: %s" % ("no inside point" if is_out.all() else "inside and outside points") + (", outside point in a removed triangle" if holes else ""))
            before = x.copy()
            try:
                t.apply(x, batch_size=bs)
                ctx.fail("out_of_domain.no_error", "points %s were mapped without TriangleContainmentError"
                         % ("inside a removed triangle of the source mesh" if holes else "3 extents outside the source hull"))
            except TriangleContainmentError as e:
                m = np.asarray(e.points_outside_source_domain)
                ok_len = m.ndim == 1 and m.shape[0] == n
                ctx.expect(ok_len, "out_of_domain.mask_length", "mask shape %r for %d input points (batch_size=%r)" % (m.shape, n, bs))
                if ok_len:
                    ctx.expect(m.dtype == bool, "out_of_domain.mask_dtype", str(m.dtype))
                    ctx.expect(np.array_equal(m.astype(bool), is_out), "out_of_domain.mask_wrong_points",
                               "mask %r, outside points %r (batch_size=%r)" % (m.astype(int).tolist(), is_out.astype(int).tolist(), bs))
            ctx.expect(np.array_equal(before, x), "argument_mutated", "apply_mixed")
            ctx.nontrivial(True)
            # the same failing values again (same array object, then an equal copy): the outcome depends only on
            # the values, so it must fail again and name the same points
            for again, label in ((x, "same_object"), (x.copy(), "equal_copy")):
                try:
                    t.apply(again, batch_size=bs)
                    ctx.fail("out_of_domain.repeat.no_error." + label,
                             "a second apply of the same out-of-domain values returned a result instead of raising")
                except TriangleContainmentError as e:
                    m2 = np.asarray(e.points_outside_source_domain)
                    ctx.expect(m2.shape == (n,) and np.array_equal(m2.astype(bool), is_out), "out_of_domain.repeat.mask_differs." + label,
                               "second failure mask %r, outside points %r" % (m2.astype(int).tolist(), is_out.astype(int).tolist()))
            # a failed application must not poison later ones
            if pool:
                do_apply(pool[0], "apply_after_failed_apply")
        earlier_results_intact(k)
    dd = digest.parameter_mutation(d_t, digest.digest(t, skip=_CACHE))
    ctx.expect(dd is None, "transform_parameters_changed", lambda: repr(dd))
    # what apply() returned is the caller's: writing into it must not reach the array that was passed
    for r in results:
        if r["x"] is None or not r["res"].flags.writeable or r["res"].size == 0:
            continue
        xs = r["x"].copy()
        r["res"][...] = r["res"] + 1
        if not ctx.expect(np.array_equal(r["x"], xs), "writing_into_result_changes_argument", r["what"]):
            break
    ctx.nontrivial(n_apply >= 3 and reused)


# ------------------------------------------------------------------------------------------ batch
@st.composite
def s_batch(draw):
    tc = draw(s_tcase())
    spec = _pts_spec(draw, tc, 2, 9)
    return {"t": tc, "pts": spec, "k": draw(st.sampled_from(["1", "2", "3", "n-1", "n", "n+1", "2n+1"])), "shape": draw(st.booleans()),
            "dtype": draw(st.sampled_from(["float64", "float64", "float32", "int64", "int32"]))}


def c_batch(case, ctx):
    tc = case["t"]
    t = _build(tc)
    ctx.event("transform=%s" % tc["kind"])
    x = _materialise(tc, np.array(t.trilist) if tc["kind"] in PWA_KINDS else None, case["pts"])
    # input arrays of other dtypes (integer pixel indices, float32) are legal inputs: values are rounded so that
    # they are exactly representable; for piecewise affine the points stay the in-domain float64 ones
    dt = case.get("dtype", "float64")
    if dt != "float64" and "bary" not in case["pts"]:
        x = np.round(x).astype(dt) if dt.startswith("int") else x.astype(dt)
    ctx.event("dtype=%s" % x.dtype)
    n = x.shape[0]
    bs = _bs(case["k"], n)
    ctx.nontrivial(n % bs != 0 or bs > n)
    ctx.event("k=%s" % case["k"])
    plain = _build(tc).apply(x.copy())
    if case["shape"]:
        got = t.apply(PointCloud(x), batch_size=bs).points
    else:
        got = t.apply(x, batch_size=bs)
    if tc["kind"] in RBF_KINDS:
        # a radial basis is a Transform too: one output column per centre
        ctx.expect(np.shape(got) == (n, len(tc["c"])), "rbf.output_shape", "%r for %d points and %d centres" % (np.shape(got), n, len(tc["c"])))
    ctx.expect(close(got, plain, rtol=0, atol=1e-12 * (1 + np.abs(plain).max())), "batched_differs_from_unbatched",
               lambda: "batch_size=%d n=%d input dtype %s\n%s" % (bs, n, x.dtype, describe(got, plain)))
    # and both agree with the float64 evaluation of the same values (the input dtype must not leak into the result)
    ref64 = _build(tc).apply(np.asarray(x, dtype=float))
    tol = 1e-12 if x.dtype != np.float32 else 1e-5
    ctx.expect(close(got, ref64, rtol=0, atol=tol * (1 + np.abs(ref64).max())), "batched_result_depends_on_input_dtype",
               lambda: "input dtype %s\n%s" % (x.dtype, describe(got, ref64)))


# ------------------------------------------------------------------------------------------ constrain_to_pointcloud
@st.composite
def s_constrain(draw):
    shape = draw(st.lists(st.integers(4, 14), min_size=2, max_size=2))
    n = draw(st.integers(3, 7))
    fr = draw(st.lists(st.lists(gen.q(0.03, 0.97, 997), min_size=2, max_size=2), min_size=n, max_size=n, unique_by=lambda r: tuple(r)))
    case = {"shape": shape, "fr": fr, "ks": draw(st.lists(st.sampled_from([1, 2, 3, 5, 7, 11, 50, 1000]), min_size=2, max_size=3, unique=True))}
    # what is constrained to: a PointCloud (Delaunay), a TriMesh = that triangulation with triangles removed, or a
    # TriMesh on an integer lattice (pixel centres ON its vertices and edges) with triangles removed
    case["src"] = draw(st.sampled_from(["cloud", "cloud", "mesh_drop", "grid"]))
    if case["src"] == "mesh_drop":
        case["drop"] = draw(st.lists(st.integers(0, 63), min_size=1, max_size=3))
    elif case["src"] == "grid":
        g = draw(s_gridmesh(rmax=3))
        g["xs"] = sorted(draw(st.lists(st.integers(0, shape[0] - 1), min_size=g["r"], max_size=g["r"], unique=True)))
        g["ys"] = sorted(draw(st.lists(st.integers(0, shape[1] - 1), min_size=g["c"], max_size=g["c"], unique=True)))
        case["grid"] = g
    case["api"] = draw(st.sampled_from(["pointcloud", "pointcloud", "landmarks", "masked"]))
    case["group"] = draw(st.booleans())
    case["start"] = draw(st.sampled_from(["blank", "blank", "random"]))
    case["seed"] = draw(st.integers(0, 10 ** 6))
    return case


def c_constrain(case, ctx):
    from menpo.image import MaskedImage
    from menpo.shape import TriMesh

    shape = tuple(case["shape"])
    src = case.get("src", "cloud")
    kept = None
    if src == "grid":
        pts, kept, _gone = _grid_mesh(case["grid"])
        pc = TriMesh(pts, trilist=kept)
    else:
        pts = gen.arr(case["fr"]) * (np.array(shape) - 1) + 0.013
        if not gen.non_collinear(pts, 1e-2):
            return
        if src == "mesh_drop":
            kept = _split_trilist({"src": pts.tolist(), "drop": case["drop"]})[0]
            pc = TriMesh(pts, trilist=kept)
        else:
            pc = PointCloud(pts)
    api, start = case.get("api", "pointcloud"), case.get("start", "blank")
    ctx.event("constrained to: %s" % src)
    ctx.event("api=%s start=%s" % (api, start))
    group = "lm" if case.get("group") else None

    def run(k):
        """The constrained mask (a fresh image every time) for batch size k (None: the argument is not passed)."""
        kw = {} if k is None else {"batch_size": k}
        m0 = np.ones(shape, dtype=bool) if start == "blank" else np.random.RandomState(case["seed"]).rand(*shape) < 0.6
        if api == "masked":
            img = MaskedImage(np.random.RandomState(case["seed"] + 1).rand(2, *shape), mask=m0.copy())
            img.landmarks["lm"] = pc
            px = img.pixels.copy()
            out = img.constrain_mask_to_landmarks(group=group, **kw)
            ctx.expect(np.array_equal(img.mask.pixels[0], m0) and np.array_equal(img.pixels, px), "constrain.original_image_modified", api)
            ctx.expect(np.array_equal(out.pixels, px), "constrain.masked_image_pixels_changed", "constrain_mask_to_landmarks changed pixel values")
            return out.mask.pixels.copy()
        img = BooleanImage(m0.copy())
        if api == "landmarks":
            img.landmarks["lm"] = pc
            out = img.constrain_to_landmarks(group=group, **kw)
        else:
            out = img.constrain_to_pointcloud(pc, **kw)
        ctx.expect(np.array_equal(img.pixels[0], m0), "constrain.original_image_modified", api)
        return out.pixels.copy()

    sig = {"pointcloud": "constrain_to_pointcloud", "landmarks": "constrain_to_landmarks", "masked": "constrain_mask_to_landmarks"}[api]
    base_px = run(None)
    ctx.nontrivial(bool(base_px.any()) and not bool(base_px.all()))
    for k in case["ks"]:
        r_px = run(k)
        ctx.expect(r_px.shape == base_px.shape and np.array_equal(r_px, base_px), sig + ".batch_size_changes_mask",
                   lambda: "batch_size=%d: %d pixels differ" % (k, int((r_px != base_px).sum()) if r_px.shape == base_px.shape else -1))
    if start != "blank":
        # how the previous content combines with the region is not stated: only batch-size independence is judged
        return
    idx = np.indices(shape).reshape(2, -1).T.astype(float)
    got = base_px[0].reshape(-1)
    if kept is not None:
        # explicit triangulation: a pixel is kept iff it lies in one of the LISTED triangles (so not in a removed one).
        # Pixels within rounding of a triangle boundary are not judged (on the integer lattice: exactly on it)
        worst = max([float(np.linalg.cond(np.array([pts[t_[1]] - pts[t_[0]], pts[t_[2]] - pts[t_[0]]]))) for t_ in kept])
        if worst > 100:
            ctx.event("sliver triangle in the mesh: membership reference not applied")
            return
        bm = mesh_bary_min(pts, kept, idx)
        margin = 0.0 if src == "grid" else 1e-6
        ctx.event("mesh reference: %s" % ("pixels in removed/uncovered part of the bounding box" if (bm < -margin).any() else "no outside pixel"))
        ctx.expect(np.all(got[bm > margin]), sig + ".mesh_interior_pixel_false", lambda: "%d pixels strictly inside a listed triangle are False" % int((~got[bm > margin]).sum()))
        ctx.expect(not np.any(got[bm < -margin]), sig + ".pixel_outside_every_listed_triangle_true",
                   lambda: "%d pixels outside every listed triangle are True" % int(got[bm < -margin].sum()))
        return
    # reference: pixel inside the convex hull (half-plane test on the hull), ties excluded. Only for well-shaped clouds:
    # in a thin cloud the Delaunay triangles are slivers whose barycentric test is decided by rounding (the property
    # only promises batch-size independence, which was checked above for every cloud)
    if not gen.non_collinear(pts, 0.2):
        ctx.event("thin cloud: hull reference not applied")
        return
    from scipy.spatial import ConvexHull

    hull = ConvexHull(pts)
    val = idx.dot(hull.equations[:, :2].T) + hull.equations[:, 2]
    inside = np.all(val <= -1e-7, axis=1)
    clearly_out = np.any(val >= 1e-7, axis=1)
    # a pixel lying on an interior edge of the triangulation is located by rounding (it may fall in neither
    # adjacent triangle); every triangulation edge joins two points of the cloud, so pixels within 1e-6 of ANY
    # segment between two cloud points are not judged
    on_edge = np.zeros(idx.shape[0], dtype=bool)
    for i in range(pts.shape[0]):
        for j in range(i + 1, pts.shape[0]):
            a, b = pts[i], pts[j]
            ab = b - a
            tpar = np.clip((idx - a).dot(ab) / ab.dot(ab), 0.0, 1.0)
            dist = np.linalg.norm(idx - (a + tpar[:, None] * ab), axis=1)
            on_edge |= dist < 1e-6
    inside &= ~on_edge
    ctx.expect(np.all(got[inside]), sig + ".inside_pixel_false", "%d hull-interior pixels are False" % int((~got[inside]).sum()))
    ctx.expect(not np.any(got[clearly_out]), sig + ".outside_pixel_true", "%d outside pixels are True" % int(got[clearly_out].sum()))


# ------------------------------------------------------------------------------------------ boundary points
@st.composite
def s_boundary(draw):
    kind = draw(st.sampled_from(PWA_KINDS))
    c = draw(objs.warp_case(kind="CachedPWA" if kind != "PythonPWA" else "PythonPWA"))
    c["kind"] = kind
    nb = draw(st.integers(1, 4))
    return {
        "t": c,
        # points on hull edges, nudged outward (positive) or inward by k units of 2.2e-15: which side of the boundary
        # such a point falls on is a matter of rounding - but it is the same matter in every batch
        "edge": draw(st.lists(st.tuples(st.integers(0, 31), gen.q(0.1, 0.9), st.integers(-8, 64)).map(list), min_size=nb, max_size=nb)),
        "inside": draw(objs.bary_picks(1, 5)),
        "order": draw(st.integers(0, 5)),
        "ks": draw(st.lists(st.sampled_from([1, 2, 3, 4, 5, 7]), min_size=1, max_size=3, unique=True)),
    }


def _outcome(t, x, bs):
    try:
        return np.zeros(x.shape[0], dtype=bool), t.apply(x, batch_size=bs)
    except TriangleContainmentError as e:
        return np.asarray(e.points_outside_source_domain, dtype=bool), None


def c_boundary(case, ctx):
    from scipy.spatial import ConvexHull

    tc = case["t"]
    src = gen.arr(tc["src"])
    hull = ConvexHull(src)
    t = _build(tc)
    tl = np.array(t.trilist)
    pts = []
    for ei, w, k in case["edge"]:
        simplex = hull.simplices[ei % len(hull.simplices)]
        a, b = src[simplex[0]], src[simplex[1]]
        normal = hull.equations[ei % len(hull.simplices), :2]
        pts.append(w * a + (1 - w) * b + normal * (k * 2.2e-15))
    inside = objs.bary_points(tc["src"], tl, case["inside"])
    allp = [p for p in inside] + pts
    rot = case["order"] % len(allp)
    allp = allp[rot:] + allp[:rot]
    x = np.array(allp)
    n = x.shape[0]
    ctx.event("transform=%s" % tc["kind"])
    base_mask, base_val = _outcome(_build(tc), x.copy(), None)
    ctx.event("unbatched: %s" % ("all inside" if base_val is not None else "some outside"))
    alone = np.array([_outcome(_build(tc), x[i : i + 1].copy(), None)[0][0] for i in range(n)])
    ctx.expect(np.array_equal(alone, base_mask), "boundary.membership_depends_on_other_points_in_the_call",
               lambda: "each point alone: outside=%s; all in one call: outside=%s" % (alone.astype(int).tolist(), base_mask.astype(int).tolist()))
    ctx.nontrivial(True)
    for k in case["ks"]:
        m, v = _outcome(t, x.copy(), k)
        if not ctx.expect(m.shape == (n,), "boundary.mask_length", "batch_size=%d: %r" % (k, m.shape)):
            continue
        ctx.expect(np.array_equal(m, base_mask), "boundary.batch_size_changes_domain_membership",
                   lambda: "batch_size=%d: outside=%s, unbatched: outside=%s" % (k, m.astype(int).tolist(), base_mask.astype(int).tolist()))
        if v is not None and base_val is not None:
            ctx.expect(close(v, base_val, rtol=0, atol=1e-12 * (1 + np.abs(base_val).max())), "boundary.batched_values_differ", lambda: describe(v, base_val))


# ------------------------------------------------------------------------------------------ composites and empty inputs
COMPOSITE_FORMS = ("chain_pre", "compose_before", "compose_after", "chain_pre_post", "nested")


@st.composite
def s_composite(draw):
    kind = draw(st.sampled_from(PWA_KINDS))
    c = draw(objs.warp_case(kind="CachedPWA" if kind != "PythonPWA" else "PythonPWA"))
    c["kind"] = kind
    pre = draw(objs.homog_case(d=2, kinds=["Translation", "UniformScale", "Rotation", "Similarity", "Affine"]))
    post = draw(objs.homog_case(d=2, kinds=["Translation", "Affine", "NonUniformScale"]))
    n_out = draw(st.integers(0, 3))
    return {
        "t": c, "pre": pre, "post": post, "form": draw(st.sampled_from(COMPOSITE_FORMS)),
        "inside": draw(objs.bary_picks(0, 6)),
        "outside": draw(st.lists(st.tuples(st.integers(0, 31), gen.q(-3.14, 3.14)).map(list), min_size=n_out, max_size=n_out)),
        "ks": draw(st.lists(st.sampled_from(["1", "2", "3", "n-1", "n", "n+1", "2n+1"]), min_size=1, max_size=3, unique=True)),
    }


def _composite(case):
    """(transform, pre matrix or None): a composite object with one piecewise-affine member; `pre` is what the points
    go through before they reach it."""
    from menpo.transform import TransformChain

    pwa = _build(case["t"])
    pre, post = objs.build_homog(case["pre"]), objs.build_homog(case["post"])
    f = case["form"]
    if f == "chain_pre":
        return TransformChain([pre, pwa]), pre.h_matrix.copy(), None
    if f == "compose_before":
        return pre.compose_before(pwa), pre.h_matrix.copy(), None
    if f == "compose_after":  # pwa first, then post
        return post.compose_after(pwa), None, post.h_matrix.copy()
    if f == "chain_pre_post":
        return TransformChain([pre, pwa, post]), pre.h_matrix.copy(), post.h_matrix.copy()
    return TransformChain([TransformChain([pre, pwa]), post]), pre.h_matrix.copy(), post.h_matrix.copy()


def c_composite(case, ctx):
    tc = case["t"]
    ctx.event("form=%s" % case["form"])
    ctx.event("member=%s" % tc["kind"])
    t, hpre, hpost = _composite(case)
    src = gen.arr(tc["src"])
    tl = np.array(_build(tc).trilist)
    extent = float(np.ptp(src, axis=0).max())
    centroid = src.mean(axis=0)
    dom = [p for p in objs.bary_points(tc["src"], tl, case["inside"])] if case["inside"] else []
    flags = [False] * len(dom)
    for pos, ang in case["outside"]:
        q = centroid + 3.0 * extent * np.array([np.cos(ang), np.sin(ang)])
        k = pos % (len(dom) + 1)
        dom.insert(k, q)
        flags.insert(k, True)
    y = np.array(dom, dtype=float).reshape(len(dom), 2)  # what reaches the piecewise-affine member
    want_mask = np.array(flags, dtype=bool)
    n = y.shape[0]
    if hpre is not None:
        if np.linalg.cond(hpre[:2, :2]) > 50:
            ctx.event("ill-conditioned pre-transform: skipped")
            return
        x = np.linalg.solve(hpre[:2, :2], (y - hpre[:2, 2]).T).T if n else y.copy()
        # the pull-back must land where it was aimed at (otherwise containment would be decided by rounding)
        if n and not bool(np.all(pwa_safely_inside(src, tl, objs.ref_apply_h(hpre, x)[~want_mask], margin=1e-6))):
            ctx.event("pull-back left the safe interior: skipped")
            return
    else:
        x = y.copy()
    ctx.event("n=%d outside=%d" % (n, int(want_mask.sum())))
    ctx.nontrivial(n == 0 or (want_mask.any() and not want_mask.all()))
    d_t = digest.digest(t, skip=_CACHE)

    def expected_values():
        exp, _ = pwa_reference(tc["src"], tc["tgt"], tl, y)
        return exp if hpost is None else objs.ref_apply_h(hpost, exp)

    base_mask, base_val = _outcome(t, x.copy(), None)
    if not ctx.expect(base_mask.shape == (n,), "composite.mask_length", "unbatched: %r for %d points" % (base_mask.shape, n)):
        return
    ctx.expect(np.array_equal(base_mask, want_mask), "composite.unbatched_mask_wrong",
               lambda: "outside=%s expected %s" % (base_mask.astype(int).tolist(), want_mask.astype(int).tolist()))
    if base_val is not None:
        if not ctx.expect(np.asarray(base_val).shape == (n, 2), "composite.result_shape", "%r for %d points" % (np.shape(base_val), n)):
            return
        if n:
            exp = expected_values()
            tol = (1e-9 + 1e-12 * _LAST_PWA_COND[0]) * (1 + np.abs(exp).max()) * max(1.0, float(np.abs(hpost[:2, :2]).sum()) if hpost is not None else 1.0)
            ctx.expect(close(base_val, exp, rtol=0, atol=tol), "composite.values_vs_reference", lambda: describe(base_val, exp))
    for ks in case["ks"]:
        k = _bs(ks, n)
        try:
            m, v = _outcome(t, x.copy(), k)
        except ValueError as e:
            ctx.fail("composite.batched_raises_where_unbatched_does_not", "batch_size=%d n=%d: %s" % (k, n, e))
            continue
        if not ctx.expect(m.shape == (n,), "composite.mask_length", "batch_size=%d: %r for %d points" % (k, m.shape, n)):
            continue
        ctx.expect(np.array_equal(m, base_mask), "composite.batch_size_changes_failure_mask",
                   lambda: "batch_size=%d: outside=%s, unbatched: outside=%s" % (k, m.astype(int).tolist(), base_mask.astype(int).tolist()))
        ctx.expect((v is None) == (base_val is None), "composite.batch_size_changes_outcome", "batch_size=%d" % k)
        if v is not None and base_val is not None:
            ctx.expect(np.shape(v) == np.shape(base_val) and close(v, base_val, rtol=0, atol=1e-12 * (1 + (np.abs(base_val).max() if n else 0.0))),
                       "composite.batched_values_differ", lambda: "batch_size=%d\n%s" % (k, describe(v, base_val)))
    dd = digest.parameter_mutation(d_t, digest.digest(t, skip=_CACHE))
    ctx.expect(dd is None, "composite.transform_parameters_changed", lambda: repr(dd))


# ------------------------------------------------------------------------------------------ explicit meshes, points ON the mesh
MESH_FORMS = ("direct", "direct", "chain_pre", "compose_before", "chain_post", "chain_pre_post", "nested")
# dyadic barycentric weights (eighths) of points strictly inside a triangle
_W8 = [(2, 2, 4), (4, 2, 2), (2, 4, 2), (1, 1, 6), (6, 1, 1), (1, 6, 1), (3, 3, 2), (2, 3, 3)]


@st.composite
def s_gridmesh(draw, rmax=4):
    """A triangulated r x c lattice (each cell cut along one of its diagonals, vertex order of each triangle rotated) in
    integer coordinates - the lattice is mapped by an integer matrix of non-zero determinant and shifted by integers -
    from which a subset of the triangles is REMOVED (holes, notches, separate pieces), and to which up to two kept
    triangles may be appended a second time."""
    r, c = draw(st.integers(2, rmax)), draw(st.integers(2, rmax))
    ntri = 2 * (r - 1) * (c - 1)
    a = draw(st.lists(st.lists(st.integers(-4, 4), min_size=2, max_size=2), min_size=2, max_size=2))
    if a[0][0] * a[1][1] - a[0][1] * a[1][0] == 0:
        a = [[a[0][0] + 5, a[0][1]], [a[1][0], a[1][1] + 5]] if (a[0][0] + 5) * (a[1][1] + 5) - a[0][1] * a[1][0] != 0 else [[1, 0], [0, 1]]
    return {
        "r": r, "c": c, "A": a, "off": draw(st.lists(st.integers(-20, 20), min_size=2, max_size=2)),
        "diag": draw(st.lists(st.booleans(), min_size=ntri // 2, max_size=ntri // 2)),
        "rot": draw(st.lists(st.integers(0, 2), min_size=ntri, max_size=ntri)),
        "keep": draw(st.lists(st.sampled_from([True, True, False]), min_size=ntri, max_size=ntri)), "keep1": draw(st.integers(0, 63)),
        "dup": draw(st.lists(st.tuples(st.integers(0, 63), st.integers(0, 2)).map(list), max_size=2)) if draw(st.integers(0, 3)) == 0 else [],
    }


def _grid_mesh(g):
    """(vertices, kept triangles [with the repeated ones], removed triangles) of a s_gridmesh case; the lattice lines may
    instead be given explicitly ("xs", "ys": increasing integers)."""
    r, c = g["r"], g["c"]
    if "xs" in g:
        v = np.array([[g["xs"][i], g["ys"][j]] for i in range(r) for j in range(c)], dtype=float)
    else:
        v = (np.array([[i, j] for i in range(r) for j in range(c)]).dot(np.array(g["A"]).T) + np.array(g["off"])).astype(float)
    tris = []
    cell = 0
    for i in range(r - 1):
        for j in range(c - 1):
            p, q_, s_, u = i * c + j, i * c + j + 1, (i + 1) * c + j, (i + 1) * c + j + 1
            for tri in ([[p, q_, s_], [q_, u, s_]] if g["diag"][cell] else [[p, q_, u], [p, u, s_]]):
                k = g["rot"][len(tris)]
                tris.append(tri[k:] + tri[:k])
            cell += 1
    tris = np.array(tris)
    keep = np.array(g["keep"], dtype=bool)
    keep[g["keep1"] % len(tris)] = True
    kept = [list(t_) for t_ in tris[keep]]
    for idx, k in g.get("dup") or []:
        tri = kept[idx % int(keep.sum())]
        kept.append(tri[k:] + tri[:k])
    return v, np.array(kept), tris[~keep]


@st.composite
def s_mesh(draw):
    g = draw(s_gridmesh())
    npts = draw(st.integers(1, 8))
    pts = []
    for _ in range(npts):
        what = draw(st.sampled_from(["vertex", "vertex", "midpoint", "midpoint", "interior", "hole", "far", "far"]))
        pts.append([what, draw(st.integers(0, 63)), draw(st.integers(0, 7)), draw(st.sampled_from([1, 2, 7]))])
    m = draw(st.lists(st.lists(st.integers(-3, 3), min_size=2, max_size=2), min_size=2, max_size=2))
    return {
        "g": g, "pts": pts, "member": draw(st.sampled_from(PWA_KINDS)), "form": draw(st.sampled_from(MESH_FORMS)),
        "pre": draw(st.one_of(st.tuples(st.just("t"), st.integers(-9, 9), st.integers(-9, 9)), st.tuples(st.just("s"), st.sampled_from([-2, -1, 1, 2]), st.just(0))).map(list)),
        "post": draw(objs.homog_case(d=2, kinds=["Translation", "Affine", "NonUniformScale"])),
        "tm": m, "tt": draw(st.lists(st.integers(-9, 9), min_size=2, max_size=2)),
        "tn": draw(st.lists(st.lists(gen.q(-0.25, 0.25, 64), min_size=2, max_size=2), min_size=16, max_size=16)),
        "ks": draw(st.lists(st.sampled_from(BATCHES), min_size=1, max_size=3, unique=True)),
    }


def _mesh_points(case, v, kept, gone):
    """The points (what reaches the piecewise-affine member), which of them are outside the mesh, and how many of the
    inside ones lie in more than one triangle (a shared edge / vertex, a repeated triangle)."""
    lo, hi = v.min(axis=0), v.max(axis=0)
    out, flags = [], []
    for what, k, j, dist in case["pts"]:
        if what == "hole" and not len(gone):
            what = "far"
        if what == "vertex":
            out.append(v[kept[k % len(kept)][j % 3]].copy())
        elif what == "midpoint":
            tri = kept[k % len(kept)]
            out.append((v[tri[j % 3]] + v[tri[(j + 1) % 3]]) / 2.0)
        elif what in ("interior", "hole"):
            tri = (kept if what == "interior" else gone)[k % len(kept if what == "interior" else gone)]
            w = _W8[j % len(_W8)]
            out.append((w[0] * v[tri[0]] + w[1] * v[tri[1]] + w[2] * v[tri[2]]) / 8.0)
        else:  # beyond the bounding box of all the vertices, by dist units, on one of its four sides
            side, along = j % 4, k
            span = hi - lo
            if side < 2:
                out.append(np.array([lo[0] - dist if side == 0 else hi[0] + dist, lo[1] + along % int(span[1] + 1)]))
            else:
                out.append(np.array([lo[0] + along % int(span[0] + 1), lo[1] - dist if side == 2 else hi[1] + dist]))
        flags.append(what in ("hole", "far"))
    y = np.array(out, dtype=float).reshape(-1, 2)
    flags = np.array(flags, dtype=bool)
    n_in = np.zeros(len(y), dtype=int)  # number of (listed) triangles that contain each point, boundary included
    for tri in kept:
        n_in += mesh_bary_min(v, [tri], y) >= 0
    return y, flags, n_in


def c_mesh(case, ctx):
    """Source = explicit TriMesh in integer coordinates with removed triangles; inputs = source vertices, midpoints of
    edges, dyadic interior points (all exactly representable, all inside a CLOSED triangle) mixed with points in removed
    triangles and beyond the bounding box: the error names exactly the latter, for every batch size, directly and
    through chains whose other members are exact (integer translation, scaling by a power of two)."""
    import menpo.transform as mt
    from menpo.shape import TriMesh
    from menpo.transform.piecewiseaffine.base import CachedPWA, PythonPWA

    v, kept, gone = _grid_mesh(case["g"])
    tgt = v.dot(np.array(case["tm"], dtype=float).T) + np.array(case["tt"], dtype=float) + gen.arr(case["tn"])[: len(v)]
    y, want_mask, n_in = _mesh_points(case, v, kept, gone)
    n = y.shape[0]
    # the construction must agree with the independent membership reference (a disagreement is a harness error)
    bm = mesh_bary_min(v, kept, y)
    assert np.array_equal(bm < 0, want_mask) and (np.abs(bm[want_mask]) > 1e-3).all(), (bm, want_mask)
    cls = {"PiecewiseAffine": mt.PiecewiseAffine, "CachedPWA": CachedPWA, "PythonPWA": PythonPWA}[case["member"]]
    pwa = cls(TriMesh(v, trilist=kept), PointCloud(tgt))
    pre = mt.Translation(np.array(case["pre"][1:], dtype=float)) if case["pre"][0] == "t" else mt.UniformScale(2.0 ** case["pre"][1], 2)
    post = objs.build_homog(case["post"])
    f = case["form"]
    has_pre = f in ("chain_pre", "compose_before", "chain_pre_post", "nested")
    hpost = post.h_matrix.copy() if f in ("chain_post", "chain_pre_post", "nested") else None
    t = {"direct": lambda: pwa, "chain_pre": lambda: mt.TransformChain([pre, pwa]), "compose_before": lambda: pre.compose_before(pwa),
         "chain_post": lambda: post.compose_after(pwa), "chain_pre_post": lambda: mt.TransformChain([pre, pwa, post]),
         "nested": lambda: mt.TransformChain([mt.TransformChain([pre, pwa]), post])}[f]()
    if has_pre:  # exact pull-back: integers / eighths minus integers, or times a power of two
        x = y - np.array(case["pre"][1:], dtype=float) if case["pre"][0] == "t" else y / 2.0 ** case["pre"][1]
    else:
        x = y.copy()
    multi = int((n_in[~want_mask] > 1).sum())
    ctx.event("form=%s" % f)
    ctx.event("member=%s" % case["member"])
    ctx.event("removed triangles" if len(gone) else "no removed triangle")
    if case["g"].get("dup"):
        ctx.event("a triangle listed twice")
    ctx.event("outside: %s; inside points in 2+ triangles: %s" % ("none" if not want_mask.any() else "all" if want_mask.all() else "some", "yes" if multi else "no"))
    ctx.nontrivial(bool(want_mask.any()) and multi > 0)
    d_t = digest.digest(t, skip=_CACHE)
    exp = None
    if not want_mask.any():
        exp, ref_out = pwa_reference(v, tgt, kept, y)
        assert not ref_out.any()
        if hpost is not None:
            exp = objs.ref_apply_h(hpost, exp)
    vals = {}
    for ks in ["none"] + list(case["ks"]):
        k = _bs(ks, n)
        xin = x.copy()
        m, val = _outcome(t, xin, k)
        ctx.expect(np.array_equal(xin, x), "argument_mutated", "mesh")
        if not ctx.expect(m.shape == (n,), "mesh.mask_length", "batch_size=%r: %r for %d points" % (k, m.shape, n)):
            continue
        if val is not None and want_mask.any():
            ctx.fail("mesh.out_of_domain_point_accepted", "batch_size=%r: no error although points %s lie outside every source triangle (triangles containing each point: %s)"
                     % (k, np.nonzero(want_mask)[0].tolist(), n_in.tolist()))
        elif val is None and not want_mask.any():
            ctx.fail("mesh.point_of_a_closed_triangle_refused", "batch_size=%r: points %s (vertices / edge midpoints / interior points of source triangles) reported outside"
                     % (k, np.nonzero(m)[0].tolist()))
        elif val is None:
            ctx.expect(np.array_equal(m, want_mask), "mesh.failure_mask_wrong_points",
                       lambda: "batch_size=%r: outside=%s expected %s (triangles containing each point: %s)" % (k, m.astype(int).tolist(), want_mask.astype(int).tolist(), n_in.tolist()))
        if val is not None and exp is not None:
            if ctx.expect(np.shape(val) == exp.shape, "mesh.result_shape", "%r" % (np.shape(val),)):
                tol = 1e-9 * (1 + np.abs(exp).max()) * max(1.0, float(np.abs(hpost[:2, :2]).sum()) if hpost is not None else 1.0)
                ctx.expect(close(val, exp, rtol=0, atol=tol), "mesh.values_vs_reference", lambda: "batch_size=%r\n%s" % (k, describe(val, exp)))
                if "none" in vals:
                    ctx.expect(close(val, vals["none"], rtol=0, atol=1e-12 * (1 + np.abs(exp).max())), "mesh.batched_values_differ", lambda: describe(val, vals["none"]))
                vals[ks] = val
    dd = digest.parameter_mutation(d_t, digest.digest(t, skip=_CACHE))
    ctx.expect(dd is None, "mesh.transform_parameters_changed", lambda: repr(dd))


@st.composite
def s_empty(draw):
    tc = draw(s_tcase())
    return {"t": tc, "k": draw(st.sampled_from([1, 2, 3, 7])), "shape": draw(st.booleans()),
            "dtype": draw(st.sampled_from(["float64", "float64", "float32", "int64"]))}


def c_empty(case, ctx):
    """A point set with no points is a point set: batched and unbatched applies agree on it."""
    tc = case["t"]
    t = _build(tc)
    ctx.event("transform=%s" % tc["kind"])
    d_in = 2 if tc["kind"] in PWA_KINDS else tc["d"]
    x = np.zeros((0, d_in), dtype=case["dtype"])
    try:
        plain = t.apply(PointCloud(x)).points if case["shape"] else t.apply(x)
    except Exception as e:  # a class that refuses empty input outright is outside this clause
        ctx.event("unbatched apply of an empty set refused (%s): not judged" % type(e).__name__)
        return
    ctx.nontrivial(True)
    try:
        got = t.apply(PointCloud(x), batch_size=case["k"]).points if case["shape"] else t.apply(x, batch_size=case["k"])
    except Exception as e:
        ctx.fail("empty.batched_raises_where_unbatched_does_not", "%s batch_size=%d: %s: %s" % (tc["kind"], case["k"], type(e).__name__, e))
        return
    ctx.expect(np.shape(got) == np.shape(plain), "empty.batched_shape_differs", "%r vs %r" % (np.shape(got), np.shape(plain)))


CLAUSES = [
    Clause("history", c_history, s_history, quick=1500, thorough=40000, nt_floor=0.5,
           rule="apply histories on one instance (arrays, shapes, landmarked shapes, other dtypes / layouts, batches, mixed-domain "
                "inputs); every returned array is kept and must stay untouched and unaliased; non-trivial: >=3 applies with a re-used / "
                "perturbed input, or a mixed-domain apply"),
    Clause("batch", c_batch, s_batch, quick=2500, thorough=80000, nt_floor=0.2,
           rule="apply(x, batch_size=k) == apply(x); non-trivial: k does not divide n or exceeds it"),
    Clause("boundary", c_boundary, s_boundary, quick=800, thorough=25000, nt_floor=0.5,
           rule="piecewise affine: points on / within a few ulps of the domain boundary mixed with interior points; outcome "
                "(result or failure mask) identical for every batch size and for each point alone (differential, no "
                "containment reference)"),
    Clause("constrain", c_constrain, s_constrain, quick=600, thorough=15000, nt_floor=0.5,
           rule="BooleanImage.constrain_to_pointcloud / constrain_to_landmarks / MaskedImage.constrain_mask_to_landmarks on a PointCloud, "
                "a TriMesh with removed triangles or an integer-lattice TriMesh, blank or random starting mask: independent of batch size, "
                "original image untouched; from a blank mask equal to the convex-hull reference (PointCloud) / the listed-triangle "
                "membership reference (TriMesh)"),
    Clause("composite", c_composite, s_composite, quick=1200, thorough=30000, nt_floor=0.3,
           rule="a chain / compose_before / compose_after result / nested chain with ONE piecewise-affine member, applied to "
                "0..6 in-domain points (pulled back through the exact inverse of what precedes the member) mixed with 0..3 "
                "far-outside points, for several batch sizes: failure mask has one entry per input point, equals the "
                "constructed in/out pattern and the unbatched outcome; values equal barycentric reference followed by the "
                "matrix of what follows; non-trivial: both kinds of point present, or no point at all"),
    Clause("mesh", c_mesh, s_mesh, quick=1500, thorough=40000, nt_floor=0.25,
           rule="piecewise affine whose source is an explicit TriMesh in integer coordinates (sheared / scaled lattice, triangles removed: "
                "holes, non-convex outlines, separate pieces; sometimes a triangle listed twice); 1..8 input points that are source "
                "vertices, midpoints of edges, dyadic interior points (each inside a closed triangle, most in several) or lie in a removed "
                "triangle / beyond the bounding box; directly and through chains with an exact pre-transform, every batch size: error iff "
                "a point is outside, mask == constructed pattern (cross-checked by an edge-function membership reference), values == "
                "barycentric reference; non-trivial: >= 1 outside point together with >= 1 inside point contained in 2+ triangles"),
    Clause("empty", c_empty, s_empty, quick=300, thorough=5000, nt_floor=0.5,
           rule="(0, n_dims) input of several dtypes, array or PointCloud, every transform kind: batched apply returns what "
                "the unbatched apply returns"),
]
