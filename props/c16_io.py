"""C16 - export then import returns the same data; files are never clobbered unasked.

All file I/O happens inside a per-case ``tempfile.TemporaryDirectory`` (system temp dir) that is
removed when the case ends.  Oracles are computed from the plain-data case (expected coordinates,
undirected edge sets, ordered labels, 8-bit levels) and never from the exporter's own output.
"""
import os
import tempfile
from collections import OrderedDict
from pathlib import Path

import numpy as np
from hypothesis import strategies as st

from vlib.runner import Clause
from vlib import gen, objs, digest

import menpo.io as mio
from menpo.io.exceptions import OverwriteError
from menpo.image import Image, MaskedImage, BooleanImage  # noqa: F401
from menpo.shape import PointCloud

import PIL.Image as _PILImage

# Pillow registers its format plugins lazily (none -> the one being opened -> the five common ones -> all).
# menpo's image exporter used to depend on that state (export to .tif/.bmp refused after a PNG import in a
# fresh interpreter; repaired in /repo), which made the outcome of a generated case depend on which case the
# worker process happened to run first. The generated clauses therefore run with Pillow fully initialised;
# the dependence itself is examined in fresh interpreters (which never import this module) by the
# enumerated clause image_fresh_process.
_PILImage.init()

PROPERTY = "C16"
RULE = (
    "Hypothesis-drawn plain-data cases: (ljson) one of the 8 shape classes or a LandmarkManager / dict of 1-4 "
    "groups, 2-D/3-D, NaNs written at drawn (point, axis) positions, awkward float values, float32/int dtypes, "
    "ordered unicode labels, group names with dots; (pts) any 2-D shape class with coordinates in [0, 5000] "
    "(quantised, 3-decimal ties, arbitrary doubles); (pickle) shapes with nested landmarks, landmark managers, "
    "images (with a path attribute), every transform class incl. alignments/TPS/PWA/chains, PCA models, plain and "
    "gzip, protocols 0-5; (images) Image/MaskedImage/BooleanImage, 1/3 channels, shapes 1..40, lossless formats, "
    "8-bit levels k/255 arranged to cover many distinct k, arbitrary floats in [0,1], source files written by "
    "Pillow directly in modes L/RGB/RGBA/P/1; (overwrite) histories of export/import/seed steps over a temp tree "
    "with str/Path, relative/absolute, dotted and upper-case spellings and a dict path->bytes model. Non-trivial: "
    "landmarks with labels, NaN or >= 2 groups; images with >= 64 distinct 8-bit values; histories with a refused "
    "export after a successful one. Added by the audit round: 1- and 2-point groups and a drawn group= fetch (ljson); negative, "
    ">= 1e6, float32 and int64 coordinates (pts); GMRF / linear models, group alignments, RBF kernels, n-D and imported images, PCA "
    "over MaskedImage / TriMesh, each with public behaviour probes on the unpickled copy (pickle); pgm / pbm / pcx / im and JPEG-written "
    "sources (images); refused exports onto empty files, directories and with a mismatching extension= (refused_export); exports into "
    "BytesIO / BufferedWriter / named handles (handle_export); import_image(...).landmarks, import_images and import_landmark_files over "
    "a directory of pictures with .ljson / .pts files (attach). Added in round 5 (reexport): ONE live object - a shape, a host with a "
    "LandmarkManager, an image with landmark groups, arrays plain / read-only / Fortran-ordered / strided - read by 2-4 exports (itself, its "
    "manager, a dict of its groups, one group; .pts / .ljson / image formats / .pkl / .pkl.gz; new path, same path with overwrite=True, BytesIO; "
    "imports in between): the object is unchanged after every export and every file imports back to a pristine twin built from the same plain "
    "data. Distinct = distinct canonical-JSON digest of the case."
)
ASSUMPTIONS = [
    "point clouds have >= 1 point: an empty cloud is written as 'points: []' which carries no dimension and is outside the stated domain",
    "coordinates are finite or NaN (infinities are refused by the JSON writer and are not 'missing values')",
    "the normalised import of level k is accepted within 1 ulp of k/255 (the importer multiplies by 1/255) and must round back to k; uint8 imports must equal k exactly",
    "float images are compared with |delta| < 1/255 exactly as stated (not the tighter 0.5/255 that rounding gives)",
    "the image exporter supports 1 or 3 channels only (documented ValueError for 4): alpha/mask export is not promised and not checked; RGBA is exercised on the import side from Pillow-written files",
    "export_video is exercised only for the overwrite clause (ffmpeg is absent: a permitted export fails with FileNotFoundError, which is classified, not judged)",
    "paths: str or pathlib.Path, relative to a cwd inside the temp tree or absolute, with '.', '..' segments; no '~' or '$VAR' spellings",
    "pickled containers (list/dict of objects) are outside the statement ('any menpo object'); only menpo objects are pickled",
    "jpeg is used only as an overwrite target, never for exactness",
    "generated image clauses run with Pillow fully initialised (PIL.Image.init() at module import) so that a case does not depend on what the worker process did before; the dependence on Pillow's lazy plugin registry is checked separately in fresh interpreters (image_fresh_process)",
    "for a bare shape written to .ljson and for .pts files the single returned group is used whatever its name (only managers / dicts promise group names)",
    "pts coordinates lie in [-4e6, 4e6] (beyond that the double spacing of x + 1 itself approaches the 1e-9 slack added to the 0.5e-3 bound); float32 "
    "points are k/1024 with |x| <= 4000 so that the stored value and the exporter's x + 1 are exact in float32 (the bound is about the format, not about "
    "float32 arithmetic); int64 points up to 1e12",
    "formats are limited to what Pillow itself returns unchanged: no RGB pictures 1 or 3 pixels wide as .pcx (Pillow 12 codec defect), ASCII file "
    "names for .im (Pillow writes the name into an ASCII header and raises UnicodeEncodeError otherwise), no xbm / gif / eps / dcx / pcd / psd / xpm",
    "a JPEG source is judged against Pillow's own decoding of the file (import -> export to a lossless format -> import must be the identity on that data)",
    "pickle behaviour probes compare the original with its unpickled copy (menpo on both sides, same process) within rtol 1e-9; they accompany the state "
    "comparison, they do not replace an independent reference (the other clauses of the owning properties have those); an exception raised by "
    "both sides with the same type counts as agreement",
    "file handles: what the handle received is saved under the same extension and imported (no byte-equality with the path export is demanded: "
    "Pillow's IM writer, for one, embeds the file name); a named handle opened 'wb' has already truncated its file, so only 'OverwriteError unless "
    "overwrite=True' and 'other files unchanged' are judged there; handles whose .name is not a path (tempfile.TemporaryFile: an int) are not generated",
    "a directory at the target with overwrite=False must be refused with OverwriteError ('an existing path'); with overwrite=True nothing is claimed for it; "
    "a mismatching extension= on an existing path may be refused with ValueError or OverwriteError, the tree must be unchanged either way",
    "reexport: 'unchanged' is digest.parameter_mutation over the exported root object (and a dict of its groups): values, dtypes, shapes and "
    "writeable flags of every reachable array, public attributes; private slots that were absent / None may be filled. Files are judged against a "
    "second object built from the same plain data and never exported (public views via digest.public_view, without the .path that import_pickle "
    "sets), never against the live object. Groups written as .pts are 2-D, finite, |x| <= 4e6, float32 values k/1024 (as in the pts clause); 3-D "
    "shapes are never written as .pts here (open known finding C16-pts-3d-truncated stays with the pts clause)",
    "attach: landmark files are attached by menpo's default resolver (same stem); stems are chosen so that no stem is a dotted prefix of another "
    "('a.png' would also pick up 'a.b.ljson'), ljson group names avoid 'PTS' / 'LJSON' (merged dictionaries would clash), 3-D groups next to a 2-D "
    "picture are neither required nor forbidden; order of import_images / import_landmark_files is judged only among lower-case ASCII-letter stems",
]

_SKIP_PATH = (".path",)


# ==============================================================================================
# helpers


class _Tmp(object):
    """Per-case temporary directory; optional cwd change restored on exit."""

    def __init__(self):
        self._td = None
        self._old = None
        self.root = None

    def __enter__(self):
        self._td = tempfile.TemporaryDirectory(prefix="verif-c16-")
        self.root = os.path.realpath(self._td.name)
        # spellings through ~ and $VERIF_IO_DIR resolve into the per-case directory
        self._env = {k: os.environ.get(k) for k in ("HOME", "VERIF_IO_DIR")}
        os.environ["HOME"] = self.root
        os.environ["VERIF_IO_DIR"] = self.root
        return self

    def chdir(self, sub):
        self._old = os.getcwd()
        os.chdir(os.path.join(self.root, sub))

    def __exit__(self, *exc):
        try:
            if self._old is not None:
                os.chdir(self._old)
        finally:
            for k, v in getattr(self, "_env", {}).items():
                if v is None:
                    os.environ.pop(k, None)
                else:
                    os.environ[k] = v
            self._td.cleanup()
        return False


def _as_fp(path_str, as_path):
    return Path(path_str) if as_path else path_str


def _undirected(pairs):
    return sorted(set((min(int(a), int(b)), max(int(a), int(b))) for a, b in pairs))


def expected_edges(case):
    """Undirected edge set of a shape case, from the plain data only."""
    kind = case["kind"]
    if kind in ("TriMesh", "ColouredTriMesh", "TexturedTriMesh"):
        e = []
        for a, b, c in case["tri"]:
            e += [(a, b), (b, c), (c, a)]
        return _undirected(e)
    if "edges" in case:
        return _undirected(case["edges"])
    return []


def adjacency_edges(shape):
    """Undirected edge set of an imported shape, read off its adjacency matrix."""
    adj = getattr(shape, "adjacency_matrix", None)
    if adj is None:
        return []
    coo = adj.tocoo()
    return _undirected([(r, c) for r, c, v in zip(coo.row, coo.col, coo.data) if v != 0])


AWKWARD = [0.1 + 0.2, 1.0 / 3.0, -0.0, 1e-300, -1e300, 5e-324, 123456789.123456789, 2.0 ** -40, -1e-7, 1e21, 4.35, 0.30000000000000004]


LM_KINDS = objs.SHAPE_KINDS + ["LabelledPointUndirectedGraph"] * 3 + ["PointUndirectedGraph", "PointDirectedGraph"]
SMALL_KINDS = [k for k in LM_KINDS if "TriMesh" not in k]


@st.composite
def small_shape_case(draw, d):
    """1- and 2-point shapes in the plain-data form of objs.shape_case (whose edge strategy needs >= 2 vertices)."""
    kind = draw(st.sampled_from(SMALL_KINDS))
    n = 2 if kind == "PointTree" else draw(st.integers(1, 2))  # (menpo refuses a one-vertex tree: "isolated vertices")
    c = {"kind": kind, "d": d, "pts": draw(gen.points_case(n=n, d=d))}
    if kind == "PointTree":
        c["edges"], c["root"] = ([[0, 1]] if n == 2 else []), 0
    elif kind == "PointDirectedGraph":
        c["edges"] = draw(st.sampled_from([[], [[0, 1]], [[1, 0]], [[0, 1], [1, 0]]])) if n == 2 else []
    elif kind != "PointCloud":
        c["edges"] = draw(st.sampled_from([[], [[0, 1]], [[1, 0]]])) if n == 2 else []
    if kind == "LabelledPointUndirectedGraph":
        c["labels"] = draw(objs.label_case(n))
    return c


@st.composite
def lm_shape_case(draw, d, kinds=None):
    """objs.shape_case (no nested landmarks) + NaN positions, awkward values and a points dtype."""
    if kinds is None and draw(st.integers(0, 5)) == 0:
        # 1- and 2-point shapes (no triangle fits): clouds, graphs, trees, labelled graphs
        c = draw(small_shape_case(d))
    else:
        c = draw(objs.shape_case(kinds=kinds or LM_KINDS, d=d, with_landmarks=False))
    n = len(c["pts"])
    nan_mode = draw(st.sampled_from(["none", "few", "few", "prefix"]))
    if nan_mode == "none":
        c["nan"] = []
    elif nan_mode == "few":
        c["nan"] = draw(st.lists(st.tuples(st.integers(0, n - 1), st.integers(0, d - 1)).map(list), min_size=1, max_size=3))
    else:  # a row-major prefix of the coordinate table, up to all of it
        c["nan"] = [[i, j] for i in range(n) for j in range(d)][: draw(st.integers(1, n * d))]
    c["awk"] = draw(st.lists(st.tuples(st.integers(0, n - 1), st.integers(0, d - 1), st.integers(0, len(AWKWARD) - 1)).map(list), max_size=3))
    c["dtype"] = draw(st.sampled_from(["float64", "float64", "float64", "float32", "int"]))
    return c


def build_lm_shape(c):
    """Returns (shape, expected float64 coordinates)."""
    s = objs.build_shape(c)
    pts = np.array(c["pts"], dtype=float)
    for i, j, k in c["awk"]:
        pts[i, j] = AWKWARD[k]
    if c["dtype"] == "float32":
        with np.errstate(over="ignore", under="ignore"):
            pts = pts.astype(np.float32)
        pts[~np.isfinite(pts)] = 1.5  # 1e300 overflows float32
    elif c["dtype"] == "int":
        pts = np.round(np.clip(pts, -1e6, 1e6)).astype(int)
    if c["dtype"] != "int":
        for i, j in c["nan"]:
            pts[i, j] = np.nan
    s.points = pts
    return s, np.array(pts, dtype=np.float64)


def check_landmark_shape(ctx, c, want_pts, back, tag):
    """The four promises for one group: coordinates, undirected edges, ordered labels + masks."""
    if not ctx.expect(isinstance(back, PointCloud), tag + ".type", lambda: type(back).__name__):
        return
    bp = np.asarray(back.points)
    ok = bp.shape == want_pts.shape and np.array_equal(bp.astype(float), want_pts, equal_nan=True)
    if not ok:
        nan_moved = bp.shape == want_pts.shape and not np.array_equal(np.isnan(bp), np.isnan(want_pts))
        ctx.fail(
            tag + (".nan_positions" if nan_moved else ".coordinates"),
            "kind=%s dtype=%s\nwant %r\ngot  %r" % (c["kind"], c["dtype"], want_pts.tolist(), bp.tolist()),
        )
    we, ge = expected_edges(c), adjacency_edges(back)
    ctx.expect(we == ge, tag + ".edges", lambda: "kind=%s want %r got %r" % (c["kind"], we, ge))
    want_labels = [nm for nm, _ in c.get("labels", [])]
    got_labels = list(getattr(back, "labels", []))
    if ctx.expect(got_labels == want_labels, tag + ".label_order" if sorted(got_labels) == sorted(want_labels) else tag + ".labels",
                  lambda: "want %r got %r" % (want_labels, got_labels)):
        for nm, mask in c.get("labels", []):
            gm = np.asarray(back._labels_to_masks[nm])
            ctx.expect(gm.dtype == bool and gm.tolist() == mask, tag + ".label_mask", lambda: "label %r want %r got %r" % (nm, mask, gm.tolist()))


# ==============================================================================================
# 1. LJSON

GROUP_NAMES = ["g", "PTS", "LJSON", "left eye", "ü", "a.b", "x.ljson", "*", "0", "Zeta", "alpha", "a" * 20, "日本", "b/c", " "]
LJSON_FILES = ["lm.ljson", "a.b.ljson", "UP.LJSON", "ü n.ljson", "a.pts.ljson", "x.Ljson"]


def s_ljson():
    @st.composite
    def s(draw):
        form = draw(st.sampled_from(["shape", "shape", "manager", "manager", "dict"]))
        d = draw(st.sampled_from([2, 3]))
        case = {"form": form, "d": d, "file": draw(st.sampled_from(LJSON_FILES)), "as_path": draw(st.booleans()),
                "by_group": draw(st.booleans()), "fetch": draw(st.integers(0, 3)), "fetch_as_path": draw(st.booleans())}
        if form == "shape":
            case["groups"] = [["LJSON", draw(lm_shape_case(d))]]
        else:
            k = draw(st.integers(1, 4))
            names = draw(st.lists(st.sampled_from(GROUP_NAMES), min_size=k, max_size=k, unique=True))
            groups = []
            for nm in names:
                dd = d
                if form == "dict" and draw(st.integers(0, 3)) == 0:
                    dd = 5 - d  # plain dicts may mix 2-D and 3-D groups
                groups.append([nm, draw(lm_shape_case(dd))])
            case["groups"] = groups
        return case

    return s()


def c_ljson(case, ctx):
    form = case["form"]
    built = [(nm, c) + build_lm_shape(c) for nm, c in case["groups"]]
    has_nan = any(np.isnan(w).any() for _, _, _, w in built)
    has_labels = any(c.get("labels") for _, c, _, _ in built)
    ctx.nontrivial(has_nan or has_labels or len(built) >= 2)
    ctx.event("form=%s groups=%d" % (form, len(built)))
    for nm, c, s, w in built:
        ctx.event("kind=%s d=%d" % (c["kind"], c["d"]))
        ctx.event("dtype=" + c["dtype"])
        if len(c["pts"]) < 3:
            ctx.event("n_points=%d" % len(c["pts"]))
        if np.isnan(w).any():
            ctx.event("nan=all" if np.isnan(w).all() else "nan=some")
        if c["kind"] not in ("PointCloud",) and not expected_edges(c):
            ctx.event("empty edge set on a graph class")
        if len(c.get("labels", [])) >= 2:
            names = [x for x, _ in c["labels"]]
            ctx.event("labels unsorted" if names != sorted(names) else "labels sorted")
    if form == "shape":
        obj = built[0][2]
    elif form == "manager":
        host = PointCloud(np.zeros((1, case["d"])))
        for nm, c, s, w in built:
            host.landmarks[nm] = s
        obj = host.landmarks
    else:
        obj = OrderedDict((nm, s) for nm, c, s, w in built)
    with _Tmp() as t:
        p = os.path.join(t.root, case["file"])
        try:
            mio.export_landmark_file(obj, _as_fp(p, case["as_path"]))
        except ValueError as e:
            # defect class (repaired in /repo): the multi-group guard of export_landmark_file compared Path.suffix
            # with '.ljson' case-sensitively, while every other extension decision in menpo.io is case-insensitive
            if form != "shape" and not case["file"].endswith(".ljson") and str(e).startswith("Only the LJSON format supports multiple"):
                ctx.fail("ljson.multi_group_refused.non_lowercase_extension",
                         "export_landmark_file(<%s of %d groups>, %r) raised %r although the same name is accepted for a single shape"
                         % (form, len(built), case["file"], e))
                return
            raise
        back = mio.import_landmark_file(_as_fp(p, not case["as_path"]))
        if not ctx.expect(isinstance(back, dict), "ljson.result_type", lambda: type(back).__name__):
            return
        if form == "shape":
            # a bare shape has no group name of its own: it must come back as exactly one group
            if ctx.expect(len(back) == 1, "ljson.single_shape_groups", lambda: repr(list(back.keys()))):
                nm, c, s, w = built[0]
                check_landmark_shape(ctx, c, w, list(back.values())[0], "ljson")
            return
        want_names = sorted(nm for nm, _, _, _ in built)
        got_names = sorted(back.keys())
        if not ctx.expect(got_names == want_names, "ljson.group_names", lambda: "want %r got %r" % (want_names, got_names)):
            return
        for nm, c, s, w in built:
            check_landmark_shape(ctx, c, w, back[nm], "ljson")
        if case["by_group"]:
            # which group is fetched is drawn (cases recorded before this field existed fetch the last one)
            nm, c, s, w = built[case.get("fetch", len(built) - 1) % len(built)]
            if nm:  # an empty group name means 'no group' to import_landmark_file
                one = mio.import_landmark_file(_as_fp(p, case.get("fetch_as_path", False)), group=nm)
                ctx.event("group= fetch of group %d of %d" % (case.get("fetch", len(built) - 1) % len(built), len(built)))
                check_landmark_shape(ctx, c, w, one, "ljson.group_kwarg")


# ==============================================================================================
# 2. PTS

PTS_FILES = ["p.pts", "p.q.pts", "P.PTS", "a.ljson.pts"]


PTS_LIMIT = 4000000  # |x| + 1 is still printed and parsed with an error far below 1e-9 (ulp of 4e6 is 4.7e-10)


def _coord():
    return st.one_of(
        gen.q(0, 5000),
        st.integers(0, 5000000).map(lambda k: k / 1000.0),
        st.integers(0, 10000000).map(lambda k: k / 2000.0),
        st.floats(min_value=0.0, max_value=5000.0, allow_nan=False, allow_infinity=False),
        st.sampled_from([0.0, 5000.0, 0.0005, 4999.9995, 1e-9, 0.9995]),
    )


def _coord_wide():
    """Negative coordinates and magnitudes up to 4e6 (seven integer digits + three decimals)."""
    return st.one_of(
        gen.q(-5000, 5000),
        st.integers(-PTS_LIMIT * 1000, PTS_LIMIT * 1000).map(lambda k: k / 1000.0),
        st.integers(-PTS_LIMIT * 2000, PTS_LIMIT * 2000).map(lambda k: k / 2000.0),
        st.floats(min_value=-float(PTS_LIMIT), max_value=float(PTS_LIMIT), allow_nan=False, allow_infinity=False),
        st.floats(min_value=999.0, max_value=float(PTS_LIMIT), allow_nan=False, allow_infinity=False),
        st.sampled_from([-1.0, -0.9995, -1.0005, -0.0004, -1e-9, 999999.4995, 1000000.0005, -999999.9995, 1234567.891, 99999.9985]),
    )


def s_pts():
    @st.composite
    def s(draw):
        # the quantifier includes 3-D shapes: one case in eight is 3-D (point clouds and graphs; meshes alike)
        d = draw(st.sampled_from([2, 2, 2, 2, 2, 2, 2, 3]))
        c = draw(objs.shape_case(d=d, with_landmarks=False))
        n = len(c["pts"])
        dtype = draw(st.sampled_from(["float64", "float64", "float64", "float64", "float32", "int64"]))
        if dtype == "float32":
            # k/1024 with |k/1024| <= 4000: the value and value + 1 are exact in float32, so the stored float32 data
            # is exactly what the case says and the exporter's own arithmetic adds no error of its own
            co = gen.q(-4000, 4000)
        elif dtype == "int64":
            co = st.one_of(st.integers(-5000, 5000), st.integers(-10 ** 12, 10 ** 12)).map(float)
        else:
            co = draw(st.sampled_from([_coord(), _coord(), _coord_wide()]))
        c["pts"] = draw(st.lists(st.lists(co, min_size=d, max_size=d), min_size=n, max_size=n))
        return {"shape": c, "file": draw(st.sampled_from(PTS_FILES)), "as_path": draw(st.booleans()), "dtype": dtype}

    return s()


def c_pts(case, ctx):
    c = case["shape"]
    s = objs.build_shape(c)
    dtype = case.get("dtype", "float64")
    stored = np.array(c["pts"], dtype=float).astype(dtype)
    s.points = stored
    # the reference is what the shape holds (for float32 / int64 exactly the case's numbers, by construction)
    want = stored.astype(np.float64)
    ctx.event("kind=" + c["kind"])
    ctx.event("dtype=" + dtype)
    big = float(np.abs(want).max())
    ctx.event("max |coordinate| " + ("< 1e3" if big < 1e3 else "< 1e4" if big < 1e4 else "< 1e6" if big < 1e6 else ">= 1e6"))
    if (want < 0).any():
        ctx.event("negative coordinate")
    ctx.nontrivial(bool((np.abs(want[:, 0] - want[:, 1]) > 0.01).any()))
    ctx.event("d=%d" % want.shape[1])
    with _Tmp() as t:
        p = os.path.join(t.root, case["file"])
        try:
            mio.export_landmark_file(s, _as_fp(p, case["as_path"]))
        except ValueError as e:
            # a format that cannot hold the data may refuse it (never for 2-D)
            ctx.expect(want.shape[1] != 2, "pts.2d_export_refused", str(e))
            ctx.expect(not os.path.exists(p) or os.path.getsize(p) == 0, "pts.refused_export_left_data_behind", p)
            return
        res = mio.import_landmark_file(_as_fp(p, not case["as_path"]))
        if not ctx.expect(isinstance(res, dict) and len(res) == 1, "pts.result", lambda: repr(res)):
            return
        back = list(res.values())[0]
    if want.shape[1] == 3 and isinstance(back, PointCloud) and back.points.shape == (want.shape[0], 2):
        # exactly this: the export was accepted and the third coordinate is gone
        ctx.fail("pts.3d_truncated_to_2d", "3-D %s with %d points came back with shape %r" % (c["kind"], want.shape[0], back.points.shape))
        return
    if not ctx.expect(isinstance(back, PointCloud) and back.points.shape == want.shape, "pts.shape",
                      lambda: "%s %r" % (type(back).__name__, getattr(back, "points", np.zeros(0)).shape)):
        return
    delta = np.abs(back.points - want)
    if delta.max() > 0.5e-3 + 1e-9:
        swapped = np.abs(back.points[:, ::-1] - want).max() <= 0.5e-3 + 1e-9
        ctx.fail("pts.axis_order" if swapped else "pts.precision",
                 "max |delta| = %.6g\nwant %r\ngot  %r" % (delta.max(), want.tolist(), back.points.tolist()))


# ==============================================================================================
# 3. pickle / gzip pickle

PKL_FILES = ["o.pkl", "o.p.pkl", "UP.PKL", "o.pkl.gz", "x.tar.pkl.gz", "w.PKL.GZ", "m.pkl.GZ"]
PKL_WHAT = ["shape", "shape", "manager", "transform", "transform", "image", "image", "pca_shape", "pca_image", "pca_vector",
            # classes added after the audit: every remaining model class, group alignment, kernels, n-D and imported images
            "gmrf", "gmrf_vector", "linear_vector", "mean_linear_vector", "gpa", "rbf", "image_nd", "imported_image",
            "pca_masked", "pca_trimesh"]
_PKL_SEEDED = ("pca_shape", "pca_image", "pca_vector", "gmrf", "gmrf_vector", "linear_vector", "mean_linear_vector", "gpa", "rbf",
               "pca_masked", "pca_trimesh")


def s_pickle():
    @st.composite
    def s(draw):
        what = draw(st.sampled_from(PKL_WHAT))
        case = {"what": what, "file": draw(st.sampled_from(PKL_FILES)), "as_path": draw(st.booleans()),
                "protocol": draw(st.sampled_from([None, None, 0, 1, 2, 3, 4, 5])), "path_attr": draw(st.booleans()),
                "probe_seed": draw(st.integers(0, 2 ** 16))}
        if what in ("shape", "manager"):
            case["obj"] = draw(objs.shape_case())
        elif what == "transform":
            case["obj"] = draw(objs.transform_case())
        elif what == "image":
            case["obj"] = draw(objs.image_case(smin=1, smax=12))
        elif what == "image_nd":
            nd = draw(st.sampled_from([3, 3, 4]))  # (a (ch, n) array is read as a 2-D picture: there is no 1-D image)
            case["obj"] = draw(objs.image_case(ndim=nd, smin=1, smax=5 if nd < 4 else 3, with_landmarks=nd == 3))
        elif what == "imported_image":
            case["obj"] = {"seed": draw(st.integers(0, 2 ** 16)), "shape": draw(st.lists(st.integers(1, 9), min_size=2, max_size=2)),
                           "ch": draw(st.sampled_from([1, 3])), "ext": draw(st.sampled_from(["png", "bmp", "tif", "ppm"])),
                           "stem": draw(st.sampled_from(["src", "a.b", "\u00fc x"])), "normalize": draw(st.booleans()),
                           "landmarks": draw(st.booleans())}
        else:
            case["obj"] = {"seed": draw(st.integers(0, 2 ** 16)), "n_samples": draw(st.integers(2, 6)),
                           "n": draw(st.integers(2, 6)), "d": draw(st.sampled_from([2, 3])),
                           "centre": draw(st.booleans()), "trim": draw(st.sampled_from([None, 1, 2]))}
            if what in ("gmrf", "gmrf_vector"):
                n = case["obj"]["n"]
                case["obj"].update({
                    "graph": draw(st.sampled_from(["chain", "empty", "complete", "tree"])),
                    "mode": draw(st.sampled_from(["concatenation", "subtraction"])),
                    "sparse": draw(st.booleans()), "incremental": draw(st.booleans()),
                    "single": draw(st.booleans()), "n_components": draw(st.sampled_from([None, None, 1])),
                    # an edge's covariance block is (2 d) x (2 d): more than 2 d + 1 random samples keep it invertible
                    "n_samples": draw(st.integers(2 * case["obj"]["d"] + 4, 2 * case["obj"]["d"] + 9)), "bias": draw(st.sampled_from([0, 1])),
                })
            if what == "gpa":
                case["obj"].update({"target": draw(st.booleans()), "mirror": draw(st.booleans()), "n": draw(st.integers(3, 7))})
            if what == "rbf":
                case["obj"]["kernel"] = draw(st.sampled_from(["R2LogR2RBF", "R2LogRRBF"]))
        return case

    return s()


def _graph_adjacency(kind, n, rs):
    a = np.zeros((n, n), dtype=int)
    if kind == "chain":
        for i in range(n - 1):
            a[i, i + 1] = a[i + 1, i] = 1
    elif kind == "complete":
        a[:] = 1
        a[np.arange(n), np.arange(n)] = 0
    elif kind == "tree":
        for i in range(1, n):
            j = int(rs.randint(0, i))
            a[i, j] = a[j, i] = 1
    return a


def build_pickle_obj(case, root=None):
    from menpo.model import PCAModel, PCAVectorModel, GMRFModel, GMRFVectorModel, LinearVectorModel, MeanLinearVectorModel
    from menpo.shape import TriMesh, UndirectedGraph
    from menpo.transform import GeneralizedProcrustesAnalysis
    from menpo.transform import rbf as _rbf

    what, c = case["what"], case["obj"]
    if what == "shape":
        return objs.build_shape(c)
    if what == "manager":
        s = objs.build_shape(c)
        if not c.get("lms"):
            s.landmarks["only"] = PointCloud(np.array(c["pts"], dtype=float))
        return s.landmarks
    if what == "transform":
        return objs.build_transform(c)
    if what in ("image", "image_nd"):
        return objs.build_image(c)
    rs = np.random.RandomState(c["seed"])
    if what == "imported_image":
        # an image as a user gets it from import_image: .path is a concrete PosixPath set by the importer
        k = rs.randint(0, 256, size=(c["ch"],) + tuple(c["shape"])).astype(np.uint8)
        src = os.path.join(root, c["stem"] + "." + c["ext"])
        mio.export_image(Image(k), src)
        if c["landmarks"]:
            mio.export_landmark_file(PointCloud(rs.rand(3, 2) * 4), os.path.join(root, c["stem"] + ".pts"))
        return mio.import_image(src, normalize=c["normalize"])
    if what == "pca_shape":
        m = PCAModel([PointCloud(rs.rand(c["n"], c["d"]) * 10) for _ in range(c["n_samples"])], centre=c["centre"])
    elif what == "pca_image":
        m = PCAModel([Image(rs.rand(1, c["n"], c["n"] + 1)) for _ in range(c["n_samples"])], centre=c["centre"])
    elif what == "pca_vector":
        m = PCAVectorModel(rs.rand(c["n_samples"], c["n"] * c["d"]), centre=c["centre"])
    elif what == "pca_masked":
        mask = objs._mask_array("random", (c["n"], c["n"] + 1), rs)
        m = PCAModel([MaskedImage(rs.rand(c["d"] - 1, c["n"], c["n"] + 1), mask=mask) for _ in range(c["n_samples"])], centre=c["centre"])
    elif what == "pca_trimesh":
        n = c["n"] + 1
        tl = np.array([[i, (i + 1) % n, (i + 2) % n] for i in range(n - 2)])
        m = PCAModel([TriMesh(rs.rand(n, c["d"]) * 10, trilist=tl) for _ in range(c["n_samples"])], centre=c["centre"])
    elif what in ("gmrf", "gmrf_vector"):
        n, d = c["n"], c["d"]
        g = UndirectedGraph(_graph_adjacency(c["graph"], n, rs))
        kw = dict(mode=c["mode"], sparse=c["sparse"], incremental=c["incremental"], n_components=c["n_components"], bias=c["bias"],
                  dtype=np.float32 if c["single"] else np.float64)
        data = rs.rand(c["n_samples"], n * d) * 10
        if what == "gmrf":
            return GMRFModel([PointCloud(row.reshape(n, d)) for row in data], g, **kw)
        return GMRFVectorModel(data, g, **kw)
    elif what == "linear_vector":
        return LinearVectorModel(rs.randn(min(c["n_samples"], c["n"] * c["d"]), c["n"] * c["d"]))
    elif what == "mean_linear_vector":
        return MeanLinearVectorModel(rs.randn(min(c["n_samples"], c["n"] * c["d"]), c["n"] * c["d"]), rs.randn(c["n"] * c["d"]))
    elif what == "gpa":
        base = rs.rand(c["n"], c["d"]) * 10
        srcs = [PointCloud(base * (0.5 + rs.rand()) + rs.randn(c["n"], c["d"]) * 0.3 + rs.randn(c["d"])) for _ in range(c["n_samples"])]
        return GeneralizedProcrustesAnalysis(srcs, target=PointCloud(base) if c["target"] else None, allow_mirror=c["mirror"])
    elif what == "rbf":
        return getattr(_rbf, c["kernel"])(rs.rand(c["n"] + 1, c["d"]) * 10)
    if c["trim"] is not None and m.n_components > c["trim"]:
        m.trim_components(c["trim"])
    return m


def _outcome(f):
    """('ok', value) or ('raised', exception type name): the pair compared between an object and its unpickled copy.
    Any exception type is an outcome here (nothing is swallowed: the two outcomes are compared)."""
    try:
        return ("ok", f())
    except Exception as e:  # noqa: BLE001 - differential: recorded, then compared
        return ("raised", type(e).__name__)


def _as_numbers(v):
    if hasattr(v, "as_vector"):
        return np.asarray(v.as_vector(), dtype=float)
    return np.asarray(v, dtype=float)


def behaviour_probes(obj, seed):
    """[(name, thunk(o))]: public calls whose results must agree between an object and its unpickled copy. The probe
    inputs come from a seeded generator only (never from either object's private state)."""
    import menpo.transform as mt
    from menpo.model import PCAModel, PCAVectorModel, GMRFVectorModel, LinearVectorModel
    from menpo.transform import GeneralizedProcrustesAnalysis

    rs = np.random.RandomState(seed)
    out = []
    if isinstance(obj, GeneralizedProcrustesAnalysis):
        x = rs.rand(4, obj.transforms[0].n_dims) * 10
        out.append(("gpa.mean_aligned_shape", lambda o: o.mean_aligned_shape().points))
        out.append(("gpa.mean_alignment_error", lambda o: o.mean_alignment_error()))
        out.append(("gpa.transforms.apply", lambda o: np.array([t.apply(x) for t in o.transforms])))
        out.append(("gpa.converged", lambda o: [float(o.converged), float(o.n_iterations)]))
    elif isinstance(obj, mt.Transform if hasattr(mt, "Transform") else ()):
        nd = obj.n_dims
        if nd is not None:
            x = rs.rand(6, nd) * 10
            src = getattr(obj, "source", None)
            if src is not None:  # alignments / warps: also at their own source points and at a point inside their hull
                x = np.vstack([x, np.asarray(src.points), np.asarray(src.points).mean(axis=0)[None]])
            out.append(("transform.apply", lambda o: o.apply(x)))
    elif isinstance(obj, GMRFVectorModel):
        q = rs.rand(3, obj.n_features) * 10
        if hasattr(obj, "template_instance"):
            qs = [obj.template_instance.from_vector(r) for r in q]
            out.append(("gmrf.mahalanobis_distance", lambda o: o.mahalanobis_distance(qs)))
            out.append(("gmrf.mean", lambda o: o.mean()))
        else:
            out.append(("gmrf.mahalanobis_distance", lambda o: o.mahalanobis_distance(q)))
            out.append(("gmrf.mean", lambda o: o.mean()))
        out.append(("gmrf.dtype", lambda o: [float(np.dtype(o.dtype).itemsize), float(np.asarray(o.precision.dtype.itemsize))]))
    elif isinstance(obj, (PCAModel, PCAVectorModel, LinearVectorModel)):
        w = rs.randn(obj.n_components)
        out.append(("model.instance", lambda o: o.instance(w)))
        out.append(("model.components", lambda o: o.components))
        if isinstance(obj, (PCAModel, PCAVectorModel)):
            out.append(("model.eigenvalues", lambda o: o.eigenvalues))
            v = rs.rand(obj.n_features)
            if isinstance(obj, PCAModel):
                out.append(("model.project", lambda o: o.project(o.template_instance.from_vector(v))))
            else:
                out.append(("model.project", lambda o: o.project(v)))
    return out


def c_pickle(case, ctx):
    gz = case["file"].lower().endswith(".gz")
    with _Tmp() as t:
        os.makedirs(os.path.join(t.root, "in"))
        obj = build_pickle_obj(case, os.path.join(t.root, "in"))
        ctx.event("class=" + type(obj).__name__)
        ctx.event("what=" + case["what"])
        ctx.event("gz=%s protocol=%s" % (gz, case["protocol"]))
        p = os.path.join(t.root, case["file"])
        if isinstance(getattr(obj, "path", None), Path):
            ctx.event("path attribute set by the importer (%s)" % type(obj.path).__name__)
        elif case["path_attr"] and hasattr(obj, "__dict__"):
            obj.path = Path(t.root) / "source" / "asset.png"
            ctx.event("path attribute set")
        kw = {} if case["protocol"] is None else {"protocol": case["protocol"]}
        d0 = digest.digest(obj, skip=_SKIP_PATH)
        mio.export_pickle(obj, _as_fp(p, case["as_path"]), **kw)
        # exporting never modifies what it exports (lazily filled private caches apart)
        mut = digest.parameter_mutation(d0, digest.digest(obj, skip=_SKIP_PATH))
        ctx.expect(mut is None, "pickle.object_modified", lambda: "%s via %s: %r" % (type(obj).__name__, case["file"], mut))
        with open(p, "rb") as f:
            head = f.read(2)
        ctx.event("gzip header" if head == b"\x1f\x8b" else "plain header")
        back = mio.import_pickle(_as_fp(p, not case["as_path"]))
    n_arrays = sum(1 for _, leaf in digest.walk(obj) if isinstance(leaf, np.ndarray) and leaf.size)
    ctx.nontrivial(n_arrays >= 1)
    diff = digest.state_diff(obj, back, skip=_SKIP_PATH, memo_tolerant=True)
    ctx.expect(diff is None, "pickle.state", lambda: "%s via %s: %s" % (type(obj).__name__, case["file"], diff))
    if not ctx.expect(type(back) is type(obj), "pickle.class", lambda: "%s came back as %s" % (type(obj).__name__, type(back).__name__)):
        return
    # behaviour: what a caller computes with the copy equals what the original computes (same code, equal data; the
    # tolerance only allows for a different memory layout of the unpickled arrays inside BLAS calls)
    for name, probe in behaviour_probes(obj, case.get("probe_seed", 0)):
        a, b = _outcome(lambda: probe(obj)), _outcome(lambda: probe(back))
        ctx.event("probe " + name + (" (raises)" if a[0] == "raised" else ""))
        if a[0] != b[0] or a[0] == "raised":
            ctx.expect(a == b, "pickle.behaviour." + name, lambda: "original: %r, unpickled: %r" % (a, b))
            continue
        va, vb = _as_numbers(a[1]), _as_numbers(b[1])
        ok = va.shape == vb.shape and np.allclose(va, vb, rtol=1e-9, atol=1e-9 * (1.0 + float(np.abs(va[np.isfinite(va)]).max() if np.isfinite(va).any() else 0.0)), equal_nan=True)
        ctx.expect(ok, "pickle.behaviour." + name, lambda: "%s: shapes %r / %r, max |delta| %s" % (
            type(obj).__name__, va.shape, vb.shape, float(np.nanmax(np.abs(va - vb))) if va.shape == vb.shape and va.size else "-"))


# ==============================================================================================
# 4. images

# every extension of menpo's image exporter map that Pillow writes losslessly for 8-bit grey / RGB data (probed: pgm, pbm,
# ppm all take the raw PNM variant of the image's mode; pcx and im are run-length / raw). Not here: xbm (1-bit only: refused
# for mode L), gif (palette + imported through ffmpeg), jpg/jpe/jpeg (lossy), eps (needs Ghostscript to read),
# dcx/pcd/psd/xpm (Pillow has no writer)
IMG_EXTS = ["tif", "png", "bmp", "tiff", "PNG", "png", "Tiff", "BMP", "dib", "ppm", "pgm", "pbm", "pcx", "im", "PGM", "Pcx"]
# levels whose normalised form k * (1/255) falls just below k/255, so that truncating x * 255 loses one level
BAD_LEVELS = [k for k in range(256) if int(k * (1.0 / 255.0) * 255.0) != k]


def levels(case):
    """uint8 array (ch, h, w) covering min(size, 256) distinct values: start + step * index (step odd) mod 256,
    visited in a seeded permutation."""
    ch, (h, w) = case["ch"], case["shape"]
    size = ch * h * w
    k = (case["start"] + case["step"] * np.arange(size)) % 256
    rs = np.random.RandomState(case["seed"])
    if case["fill"] == "random":
        k = rs.randint(0, 256, size=size)
    elif case["fill"] == "bad":
        k = np.array(BAD_LEVELS)[rs.randint(0, len(BAD_LEVELS), size=size)]
    else:
        k = k[rs.permutation(size)]
    return k.reshape(ch, h, w).astype(np.uint8)


def _pcx_width(c, exts):
    """Pillow's own PCX codec (12.x) does not return RGB pictures that are 1 or 3 pixels wide (its writer pads the scan
    line, its reader then reports a truncated file or shifted planes; menpo is not involved): such widths grow by one."""
    if any(e.lower() == "pcx" for e in exts) and c["shape"][1] in (1, 3):
        c["shape"][1] += 1


@st.composite
def img_common(draw):
    cls = draw(st.sampled_from(["Image", "Image", "MaskedImage", "BooleanImage"]))
    big = draw(st.integers(0, 3)) > 0
    shape = draw(st.lists(st.integers(8 if big else 1, 40), min_size=2, max_size=2))
    c = {"cls": cls, "shape": shape, "ch": 1 if cls == "BooleanImage" else draw(st.sampled_from([1, 3])),
         "seed": draw(st.integers(0, 2 ** 16)), "ext": draw(st.sampled_from(IMG_EXTS)),
         "stem": draw(st.sampled_from(["im", "a.b", "ü x", "im.png"])), "as_path": draw(st.booleans())}
    if cls == "MaskedImage":
        c["mask"] = draw(st.sampled_from(["all", "random", "blob", "single"]))
    _pcx_width(c, [c["ext"]])
    if c["ext"].lower() == "im" and not c["stem"].isascii():
        c["stem"] = "im.v2"  # Pillow's IM writer stores the file name in an ASCII header field and raises for other names
    return c


def s_image8():
    @st.composite
    def s(draw):
        c = draw(img_common())
        c["start"] = draw(st.integers(0, 255))
        c["step"] = 2 * draw(st.integers(0, 127)) + 1
        c["fill"] = draw(st.sampled_from(["ramp", "ramp", "random", "bad"]))
        c["repr"] = draw(st.sampled_from(["div", "div", "mul", "float32", "uint8"]))
        return c

    return s()


def build_img(c, px):
    if c["cls"] == "BooleanImage":
        return BooleanImage(px[0].astype(bool))
    if c["cls"] == "MaskedImage":
        rs = np.random.RandomState(c["seed"] + 1)
        return MaskedImage(px, mask=objs._mask_array(c["mask"], tuple(c["shape"]), rs))
    return Image(px)


def to8(px):
    """Pixel data of an imported/constructed image as 8-bit levels."""
    px = np.asarray(px)
    if px.dtype == bool:
        return px.astype(np.uint8) * 255
    if px.dtype == np.uint8:
        return px
    return np.round(px.astype(np.float64) * 255.0).astype(np.int64)


def check_norm_import(ctx, im, k, tag):
    """A normalised import of levels k: float64, within 1 ulp of k/255, rounding back to k."""
    px = im.pixels
    if not ctx.expect(px.shape == k.shape, tag + ".shape", lambda: "%r vs %r" % (px.shape, k.shape)):
        return False
    ok = px.dtype == np.float64 and np.array_equal(to8(px), k) and np.abs(px - k / 255.0).max() <= 1.2e-16
    if not ok:
        bad = np.argwhere(to8(px) != k)
        ctx.fail(tag + ".levels", lambda: "dtype %s; %d of %d pixels differ; first: level %s came back as %s" % (
            px.dtype, len(bad), k.size, k[tuple(bad[0])] if len(bad) else "-", to8(px)[tuple(bad[0])] if len(bad) else "-"))
    return ok


def check_raw_import(ctx, im, k, tag):
    px = im.pixels
    if not ctx.expect(px.shape == k.shape, tag + ".shape", lambda: "%r vs %r" % (px.shape, k.shape)):
        return False
    ok = px.dtype == np.uint8 and np.array_equal(px, k)
    if not ok:
        bad = np.argwhere(px != k)
        ctx.fail(tag + ".levels", lambda: "dtype %s; %d of %d pixels differ; first: level %s came back as %s" % (
            px.dtype, len(bad), k.size, k[tuple(bad[0])] if len(bad) else "-", px[tuple(bad[0])] if len(bad) else "-"))
    return ok


def c_image8(case, ctx):
    k = levels(case)
    if case["cls"] == "BooleanImage":
        k = (k >= 128).astype(np.uint8) * 255
        im = build_img(case, k > 0)
    else:
        if case["repr"] == "div":
            px = k / 255.0
        elif case["repr"] == "mul":
            px = k * (1.0 / 255.0)
        elif case["repr"] == "float32":
            px = (k / 255.0).astype(np.float32)
        else:
            px = k.copy()
        im = build_img(case, px)
    distinct = len(np.unique(k))
    ctx.nontrivial(distinct >= 64)
    ctx.event("cls=%s ch=%d" % (case["cls"], case["ch"]))
    ctx.event("ext=" + case["ext"].lower())
    ctx.event("repr=" + (case["repr"] if case["cls"] != "BooleanImage" else "bool"))
    ctx.event("distinct>=256" if distinct >= 256 else "distinct>=64" if distinct >= 64 else "distinct<64")
    if min(case["shape"]) == 1:
        ctx.event("a side of 1")
    with _Tmp() as t:
        p = os.path.join(t.root, case["stem"] + "." + case["ext"])
        mio.export_image(im, _as_fp(p, case["as_path"]))
        raw = mio.import_image(_as_fp(p, not case["as_path"]), normalize=False)
        nrm = mio.import_image(p)
        check_raw_import(ctx, raw, k, "image8.export_import_uint8")
        ok = check_norm_import(ctx, nrm, k, "image8.export_import")
        # second generation: import -> export -> import is the identity
        p2 = os.path.join(t.root, "second." + case["ext"])
        mio.export_image(nrm, _as_fp(p2, case["as_path"]))
        nrm2 = mio.import_image(p2)
        ctx.expect(nrm2.pixels.dtype == nrm.pixels.dtype and np.array_equal(nrm2.pixels, nrm.pixels),
                   "image8.import_export_import", lambda: "max |delta| %.3g" % np.abs(nrm2.pixels - nrm.pixels).max())
        p3 = os.path.join(t.root, "third." + case["ext"])
        mio.export_image(raw, p3)
        raw2 = mio.import_image(p3, normalize=False)
        ctx.expect(raw2.pixels.dtype == raw.pixels.dtype and np.array_equal(raw2.pixels, raw.pixels),
                   "image8.import_export_import_uint8", "")
    return ok


def s_imagef():
    @st.composite
    def s(draw):
        c = draw(img_common())
        if c["cls"] == "BooleanImage":
            c["cls"] = "Image"
            c["ch"] = draw(st.sampled_from([1, 3]))
        c["dtype"] = draw(st.sampled_from(["float64", "float64", "float32"]))
        c["mode"] = draw(st.sampled_from(["uniform", "uniform", "ties", "near_level", "extremes"]))
        c["special"] = draw(st.lists(gen.q(0, 1, 1 << 20), max_size=4))
        return c

    return s()


def c_imagef(case, ctx):
    ch, (h, w) = case["ch"], case["shape"]
    rs = np.random.RandomState(case["seed"])
    size = ch * h * w
    if case["mode"] == "uniform":
        v = rs.rand(size)
    elif case["mode"] == "ties":
        v = (rs.randint(0, 255, size=size) + 0.5) / 255.0
    elif case["mode"] == "near_level":
        v = np.clip(rs.randint(0, 256, size=size) / 255.0 + (rs.rand(size) - 0.5) * 1e-6, 0, 1)
    else:
        v = rs.choice([0.0, 1.0, 1e-12, 1 - 1e-12, 0.5, 0.998, 0.002], size=size)
    for i, x in enumerate(case["special"]):
        v[i % size] = x
    px = v.reshape(ch, h, w).astype(case["dtype"])
    px = np.clip(px, 0, 1)
    im = build_img(case, px)
    ctx.event("cls=%s ch=%d dtype=%s" % (case["cls"], ch, case["dtype"]))
    ctx.event("mode=" + case["mode"])
    ctx.event("ext=" + case["ext"].lower())
    ctx.nontrivial(len(np.unique(np.floor(px.astype(float) * 255))) >= 64 or case["mode"] == "extremes")
    with _Tmp() as t:
        p = os.path.join(t.root, case["stem"] + "." + case["ext"])
        mio.export_image(im, _as_fp(p, case["as_path"]))
        back = mio.import_image(_as_fp(p, not case["as_path"]))
        if not ctx.expect(back.pixels.shape == px.shape, "imagef.shape", lambda: "%r vs %r" % (back.pixels.shape, px.shape)):
            return
        delta = np.abs(back.pixels.astype(np.float64) - px.astype(np.float64))
        ctx.expect(delta.max() < 1.0 / 255.0, "imagef.quantisation_level", lambda: "max |delta| = %.9g = %.4f levels at value %.17g" % (
            delta.max(), delta.max() * 255, px.ravel()[int(delta.argmax())]))
        # the import is 8-bit data now: export -> import is the identity
        p2 = os.path.join(t.root, "second." + case["ext"])
        mio.export_image(back, p2)
        again = mio.import_image(p2)
        ctx.expect(np.array_equal(again.pixels, back.pixels), "imagef.import_export_import",
                   lambda: "max |delta| %.3g" % np.abs(again.pixels - back.pixels).max())


SRC_MODES = ["L", "RGB", "RGBA", "P", "1"]
JPEG_EXTS = ("jpg", "jpeg", "jpe")


def s_reimport():
    @st.composite
    def s(draw):
        mode = draw(st.sampled_from(SRC_MODES))
        big = draw(st.integers(0, 3)) > 0
        c = {"mode": mode, "shape": draw(st.lists(st.integers(6 if big else 1, 40), min_size=2, max_size=2)),
             "seed": draw(st.integers(0, 2 ** 16)), "start": draw(st.integers(0, 255)), "step": 2 * draw(st.integers(0, 127)) + 1,
             "fill": draw(st.sampled_from(["ramp", "ramp", "random", "bad"])), "normalize": draw(st.sampled_from([True, True, False, None])),
             "as_path": draw(st.booleans())}
        if mode in ("L", "RGB"):
            # jpg / jpeg / JPG: a lossy SOURCE is still 8-bit data once decoded; the reference is Pillow's own decoding
            c["src_ext"] = draw(st.sampled_from(["png", "bmp", "tif", "tiff", "PNG", "ppm", "pcx", "im", "dib", "jpg", "jpeg", "JPG", "jpe"]
                                                + (["pgm"] if mode == "L" else [])))
            if c["src_ext"].lower() in JPEG_EXTS:
                c["jpeg"] = {"quality": draw(st.sampled_from([30, 75, 95])), "smooth": draw(st.booleans())}
        elif mode == "RGBA":
            c["src_ext"] = draw(st.sampled_from(["png", "tif"]))
            c["alpha"] = draw(st.sampled_from(["opaque", "random", "binary"]))
        elif mode == "P":
            c["src_ext"] = draw(st.sampled_from(["png", "tif", "bmp", "pcx", "im", "dib"]))
        else:
            c["src_ext"] = draw(st.sampled_from(["png", "tif", "bmp", "pbm", "pcx", "im", "dib", "PBM"]))
        c["out_ext"] = draw(st.sampled_from(IMG_EXTS))
        _pcx_width(c, [c["src_ext"], c["out_ext"]])
        return c

    return s()


def c_reimport(case, ctx):
    import PIL.Image as PILImage

    mode, (h, w) = case["mode"], case["shape"]
    rs = np.random.RandomState(case["seed"] + 7)
    nch = {"L": 1, "RGB": 3, "RGBA": 3, "P": 1, "1": 1}[mode]
    k = levels(dict(case, ch=nch))
    want_mask = None
    if mode == "L":
        pil = PILImage.fromarray(k[0], mode="L")
        want = k
    elif mode == "RGB":
        pil = PILImage.fromarray(np.ascontiguousarray(np.moveaxis(k, 0, -1)), mode="RGB")
        want = k
    elif mode == "RGBA":
        if case["alpha"] == "opaque":
            a = np.full((h, w), 255, dtype=np.uint8)
        elif case["alpha"] == "binary":
            a = (rs.rand(h, w) > 0.4).astype(np.uint8) * 255
        else:
            a = rs.randint(0, 256, size=(h, w)).astype(np.uint8)
        pil = PILImage.fromarray(np.ascontiguousarray(np.concatenate([np.moveaxis(k, 0, -1), a[..., None]], axis=-1)), mode="RGBA")
        want = k
        want_mask = a != 0
    elif mode == "P":
        palette = rs.randint(0, 256, size=(256, 3)).astype(np.uint8)
        pil = PILImage.fromarray(k[0], mode="P")
        pil.putpalette(palette.ravel().tolist())
        want = np.moveaxis(palette[k[0]], -1, 0)
    else:
        bits = k[0] >= 128
        pil = PILImage.fromarray(bits.astype(np.uint8) * 255, mode="L").convert("1", dither=PILImage.Dither.NONE)
        want = (bits.astype(np.uint8) * 255)[None]
    normalize = case["normalize"]
    kw = {} if normalize is None else {"normalize": normalize}
    norm = normalize is not False
    distinct = len(np.unique(want))
    if not case.get("jpeg"):  # (a JPEG source is judged by what the decoded file holds, below)
        ctx.nontrivial(distinct >= 64 or mode == "1")
    ctx.event("mode=%s normalize=%s" % (mode, normalize))
    ctx.event("src=%s out=%s" % (case["src_ext"].lower(), case["out_ext"].lower()))
    with _Tmp() as t:
        src = os.path.join(t.root, "src." + case["src_ext"])
        if case.get("jpeg"):
            if case["jpeg"]["smooth"]:
                # a smooth picture (JPEG of noise keeps few distinct levels apart): blur the ramp along both axes
                arr = np.asarray(pil).astype(float)
                for ax in (0, 1):
                    arr = (arr + np.roll(arr, 1, axis=ax) + np.roll(arr, -1, axis=ax)) / 3.0
                pil = PILImage.fromarray(np.round(arr).astype(np.uint8), mode=mode)
            pil.save(src, quality=case["jpeg"]["quality"])
            # the file is lossy with respect to the arrays above, but what it now holds is plain 8-bit data: the
            # reference is Pillow's own decoding of it (menpo is not involved)
            with PILImage.open(src) as chk:
                dec = np.asarray(chk)
            want = dec[None] if dec.ndim == 2 else np.moveaxis(dec, -1, 0)
            ctx.nontrivial(len(np.unique(want)) >= 64)
            ctx.event("jpeg source with %s distinct levels" % (">= 64" if len(np.unique(want)) >= 64 else "< 64"))
        else:
            pil.save(src)
        with PILImage.open(src) as chk:
            opened_mode = chk.mode
        if opened_mode != mode:
            # Pillow itself re-encodes some mode/format pairs (e.g. 1-bit BMP opens as 'P'): note it and
            # judge by what the file now holds
            ctx.event("pillow stored %s as %s" % (mode, opened_mode))
            return
        im1 = mio.import_image(_as_fp(src, case["as_path"]), **kw)
        # --- what the import must hold (independent of menpo: the arrays written above)
        ctx.event("first import class=" + type(im1).__name__)
        if mode == "1":
            ctx.expect(im1.pixels.shape == want.shape and np.array_equal(to8(im1.pixels), want), "reimport.first.levels", "mode 1")
        elif mode == "RGBA" and not norm:
            full = np.concatenate([want, (np.asarray(pil)[..., 3])[None]], axis=0)
            check_raw_import(ctx, im1, full, "reimport.first_uint8")
        elif norm:
            check_norm_import(ctx, im1, want, "reimport.first")
        else:
            check_raw_import(ctx, im1, want, "reimport.first_uint8")
        # --- export and re-import
        out = os.path.join(t.root, "out." + case["out_ext"])
        if im1.n_channels == 4:
            try:
                mio.export_image(im1, out)
                ctx.fail("reimport.four_channels_not_refused", "")
            except ValueError:
                ctx.event("4-channel export refused (documented)")
            return
        mio.export_image(im1, _as_fp(out, not case["as_path"]))
        im2 = mio.import_image(out, **kw)
        if not ctx.expect(im2.pixels.shape == im1.pixels.shape, "reimport.second.shape", lambda: "%r vs %r" % (im2.pixels.shape, im1.pixels.shape)):
            return
        ctx.expect(np.array_equal(to8(im2.pixels), to8(im1.pixels)) and np.array_equal(to8(im2.pixels), want), "reimport.second.levels",
                   lambda: "%d pixels differ" % int((to8(im2.pixels) != want).sum()))
        if im1.pixels.dtype == im2.pixels.dtype:
            ctx.expect(np.array_equal(im1.pixels, im2.pixels), "reimport.second.exact", lambda: "max |delta| %.3g" % np.abs(
                im1.pixels.astype(float) - im2.pixels.astype(float)).max())
        else:
            ctx.expect(mode == "1", "reimport.second.dtype", lambda: "%s vs %s" % (im1.pixels.dtype, im2.pixels.dtype))


# ---- the same history in a fresh interpreter (Pillow's plugin registry starts empty there)

_FRESH_SCRIPT = r"""
import sys, json, warnings
warnings.filterwarnings("ignore")
sys.path.insert(0, sys.argv[1])
import numpy as np
import menpo.io as mio
src, out, normalize, first = sys.argv[2], sys.argv[3], sys.argv[4] == "1", sys.argv[5]
def lv(px):
    px = np.asarray(px)
    if px.dtype == bool: return (px.astype(np.uint8) * 255).tolist()
    if px.dtype == np.uint8: return px.tolist()
    return np.round(px.astype(float) * 255).astype(int).tolist()
if first == "import":
    im = mio.import_image(src, normalize=normalize)
else:
    from menpo.image import Image
    import PIL.Image
    im = Image(np.load(src) / 255.0)
res = {"first": lv(im.pixels)}
try:
    mio.export_image(im, out)
except ValueError as e:
    res["refused"] = str(e)
    print(json.dumps(res)); sys.exit(0)
im2 = mio.import_image(out, normalize=normalize)
res["second"] = lv(im2.pixels)
res["exact"] = bool(im2.pixels.dtype == im.pixels.dtype and np.array_equal(im2.pixels, im.pixels))
print(json.dumps(res))
"""


def enum_fresh(tier):
    cases = []
    srcs = ["png", "bmp", "tif", "construct"]
    outs = ["png", "bmp", "tif", "tiff", "dib", "ppm"]
    for si, src in enumerate(srcs):
        for oi, out in enumerate(outs):
            for normalize in (True, False):
                if src == "construct" and not normalize:
                    continue
                if tier == "quick" and (si + oi + int(normalize)) % 3 != 0:
                    continue
                cases.append({"src": src, "out": out, "normalize": normalize, "ch": 3 if (si + oi) % 2 else 1})
    return cases


def c_fresh(case, ctx):
    import json
    import subprocess
    import sys
    from vlib.runner import REPO

    ch = case["ch"]
    k = levels({"ch": ch, "shape": [9, 11], "start": 5, "step": 37, "seed": 3, "fill": "ramp"})
    ctx.nontrivial(True)
    ctx.event("first=%s out=%s normalize=%s" % (case["src"], case["out"], case["normalize"]))
    with _Tmp() as t:
        if case["src"] == "construct":
            src = os.path.join(t.root, "src.npy")
            np.save(src, k)
            first = "construct"
        else:
            src = os.path.join(t.root, "src." + case["src"])
            mode = "L" if ch == 1 else "RGB"
            data = k[0] if ch == 1 else np.ascontiguousarray(np.moveaxis(k, 0, -1))
            _PILImage.frombytes(mode, (k.shape[2], k.shape[1]), data.tobytes()).save(src)
            first = "import"
        out = os.path.join(t.root, "out." + case["out"])
        pr = subprocess.run([sys.executable, "-c", _FRESH_SCRIPT, REPO, src, out, "1" if case["normalize"] else "0", first],
                            capture_output=True, text=True, timeout=600, cwd=t.root)
    if pr.returncode != 0:
        ctx.fail("fresh_process.crash", pr.stderr[-1200:])
        return
    res = json.loads(pr.stdout.strip().splitlines()[-1])
    ctx.expect(np.array_equal(np.array(res["first"]), k), "fresh_process.first.levels", "")
    if "refused" in res:
        if "does not support the provided extension" in res["refused"]:
            ctx.fail("fresh_process.export_refused.pillow_partially_initialised",
                     "fresh interpreter: import_image('src.%s') then export_image(im, 'out.%s') raised ValueError(%r)"
                     % (case["src"], case["out"], res["refused"]))
        else:
            ctx.fail("fresh_process.export_refused", res["refused"])
        return
    ctx.expect(np.array_equal(np.array(res["second"]), k), "fresh_process.second.levels", "")
    if first == "import":  # a constructed k/255.0 and the imported k*(1/255) may differ by one ulp
        ctx.expect(res["exact"], "fresh_process.second.exact", "")


# ==============================================================================================
# 5. overwrite protection (histories)

# exporter kind -> legal file names (dotted stems, compound and upper-case extensions)
HIST_FILES = {
    "landmark": ["a.ljson", "a.b.ljson", "C.LJSON", "p.pts", "p.q.PTS"],
    "image": ["i.png", "i.j.PNG", "k.bmp", "t.u.tiff", "g.jpg", "anim.gif"],
    "pickle": ["o.pkl", "o.pkl.gz", "x.tar.pkl.gz", "y.z.PKL", "w.PKL.GZ"],
    "video": ["v.mp4", "v.w.avi", "anim.gif", "M.MKV"],
}
DIRS = ["work", "work/sub", "other"]  # cwd is <root>/work


def spellings(root, d, name):
    """Every spelling used for file <root>/<d>/<name> when cwd = <root>/work: (text, is_absolute)."""
    absdir = os.path.join(root, d)
    out = [os.path.join(absdir, name), os.path.join(root, "work", "..", d, name), os.path.join(absdir, ".", name)]
    if d == "work":
        rel = [name, "./" + name, "sub/../" + name, "../work/" + name]
    elif d == "work/sub":
        rel = ["sub/" + name, "./sub/" + name, "sub/./" + name, "../work/sub/" + name]
    else:
        rel = ["../other/" + name, "./../other/" + name, "sub/../../other/" + name]
    return [(s, True) for s in out] + [(s, False) for s in rel]


def s_history():
    @st.composite
    def s(draw):
        # a small pool of target files so that steps collide
        nfiles = draw(st.integers(1, 3))
        pool = []
        for _ in range(nfiles):
            kind = draw(st.sampled_from(["landmark", "image", "pickle", "video"]))
            pool.append([draw(st.sampled_from(DIRS)), draw(st.sampled_from(HIST_FILES[kind]))])
        steps = []
        for _ in range(draw(st.integers(3, 10))):
            f = draw(st.integers(0, nfiles - 1))
            op = draw(st.sampled_from(["export", "export", "export", "export", "import", "seed"]))
            steps.append({"op": op, "file": f, "spelling": draw(st.integers(0, 6)), "as_path": draw(st.booleans()),
                          # pickle paths may also be spelled through the home directory or an environment variable
                          # (export_pickle / import_pickle expand both): 0 = not used
                          "expand": draw(st.sampled_from([0, 0, 0, 1, 2, 3])),
                          "overwrite": draw(st.sampled_from([False, False, True, None])),
                          "exporter": draw(st.integers(0, 3)), "ext_kw": draw(st.sampled_from([None, None, "exact", "upper", "nodot"])),
                          "tag": draw(st.integers(0, 250))})
        return {"pool": pool, "steps": steps}

    return s()


def exporters_for(name):
    """Exporter kinds that accept this file name (by its lower-cased extension)."""
    low = name.lower()
    out = []
    if low.endswith(".ljson") or low.endswith(".pts"):
        out.append("landmark")
    if low.rsplit(".", 1)[-1] in ("png", "bmp", "tiff", "jpg", "gif"):
        out.append("image")
    if low.endswith(".pkl") or low.endswith(".pkl.gz"):
        out.append("pickle")
    if low.rsplit(".", 1)[-1] in ("mp4", "avi", "gif", "mkv"):
        out.append("video")
    return out


def tagged_object(kind, tag):
    if kind == "landmark" or kind == "pickle":
        return PointCloud(np.array([[float(tag), 1.0], [2.0, float(tag) + 0.5]]))
    if kind == "image":
        return Image(np.full((1, 3, 4), tag, dtype=np.uint8))
    return [Image(np.full((1, 4, 4), tag / 255.0)), Image(np.zeros((1, 4, 4)))]


def read_tag(kind, name, fp):
    """Import the file through menpo and recover the tag written by tagged_object."""
    if kind == "landmark":
        r = mio.import_landmark_file(fp)
        pc = list(r.values())[0]
        return int(round(float(pc.points[0, 0])))
    if kind == "pickle":
        return int(round(float(mio.import_pickle(fp).points[0, 0])))
    im = mio.import_image(fp, normalize=False, landmark_resolver=None)
    return int(im.pixels[0, 0, 0])


def snapshot(root):
    out = {}
    for d in DIRS:
        for fn in os.listdir(os.path.join(root, d)):
            full = os.path.join(root, d, fn)
            if os.path.isfile(full):
                with open(full, "rb") as f:
                    out[d + "/" + fn] = f.read()
    return out


def c_history(case, ctx):
    model = {}  # "<dir>/<name>" -> bytes
    meta = {}  # "<dir>/<name>" -> (kind, tag) for files written by a menpo exporter
    had_success = False
    with _Tmp() as t:
        for d in DIRS:
            os.makedirs(os.path.join(t.root, d), exist_ok=True)
        t.chdir("work")
        for i, st_ in enumerate(case["steps"]):
            d, name = case["pool"][st_["file"]]
            key = d + "/" + name
            sp = spellings(t.root, d, name)
            text, is_abs = sp[st_["spelling"] % len(sp)]
            fp = _as_fp(text, st_["as_path"])
            spell = "%s/%s" % ("Path" if st_["as_path"] else "str", "abs" if is_abs else "rel")
            if st_["op"] == "seed":
                # a pre-existing foreign file (any exporter must refuse to clobber it)
                # (one in four is an EMPTY file: it exists, so it is protected like any other)
                data = b"" if st_["tag"] % 4 == 0 else b"foreign-%d-" % st_["tag"] + bytes(range(st_["tag"] % 7 + 1))
                with open(os.path.join(t.root, d, name), "wb") as f:
                    f.write(data)
                model[key] = data
                meta.pop(key, None)
                ctx.event("op=seed" + (" (0 bytes)" if not data else ""))
                continue
            if st_["op"] == "import":
                if key not in meta or meta[key][0] == "video" or name.lower().endswith((".jpg", ".gif")):
                    ctx.event("op=import skipped (nothing importable)")
                    continue
                kind, tag = meta[key]
                got = read_tag(kind, name, fp)
                ctx.event("op=import " + spell)
                ctx.expect(got == tag, "history.import_stale_or_wrong." + kind, lambda: "step %d: %s holds tag %d, import gave %d" % (i, key, tag, got))
                snap = snapshot(t.root)
                ctx.expect(snap == model, "history.import_changed_files", lambda: _snapdiff(model, snap))
                continue
            # ---- export
            kinds = exporters_for(name)
            kind = kinds[st_["exporter"] % len(kinds)]
            obj = tagged_object(kind, st_["tag"])
            ow = st_["overwrite"]
            kw = {} if ow is None else {"overwrite": ow}
            if kind in ("landmark", "image") and st_["ext_kw"]:
                ext = "." + name.rsplit(".", 1)[-1]
                kw["extension"] = {"exact": ext, "upper": ext.upper(), "nodot": ext[1:]}[st_["ext_kw"]]
            fn = {"landmark": mio.export_landmark_file, "image": mio.export_image, "pickle": mio.export_pickle, "video": mio.export_video}[kind]
            ex = st_.get("expand", 0)
            if kind == "pickle" and ex:
                text = {1: "~/%s/%s", 2: "$VERIF_IO_DIR/%s/%s", 3: "${VERIF_IO_DIR}/%s/%s"}[ex] % (d, name)
                fp = _as_fp(text, st_["as_path"])
                spell = "%s/%s" % ("Path" if st_["as_path"] else "str", {1: "~", 2: "$VAR", 3: "${VAR}"}[ex])
            exists = key in model
            if kind == "video" and not exists and st_["tag"] % 2:
                # without ffmpeg a video can never be created: put a foreign file there instead
                data = b"video-%d" % st_["tag"]
                with open(os.path.join(t.root, d, name), "wb") as f:
                    f.write(data)
                model[key] = data
                meta.pop(key, None)
                ctx.event("op=seed (video target)")
                continue
            permitted = (not exists) or bool(ow)
            ctx.event("op=export %s %s %s" % (kind, spell, "refuse" if not permitted else ("replace" if exists else "fresh")))
            err = None
            try:
                fn(obj, fp, **kw)
            except OverwriteError as e:
                err = e
            except FileNotFoundError as e:
                if kind != "video" or "ffmpeg" not in str(e):
                    raise
                err = e
            snap = snapshot(t.root)
            if not permitted:
                ctx.nontrivial(had_success)
                if not isinstance(err, OverwriteError):
                    ctx.fail("history.no_overwrite_error." + kind,
                             "step %d: %s(%r, overwrite=%r) on existing %s: %s" % (i, fn.__name__, fp, ow, key, "no error" if err is None else repr(err)))
                if snap != model:
                    ctx.fail("history.clobbered." + kind, "step %d: %s(%r, overwrite=%r): %s" % (i, fn.__name__, fp, ow, _snapdiff(model, snap)))
                    model = snap
                    meta.pop(key, None)
                continue
            # permitted export
            if isinstance(err, OverwriteError):
                ctx.fail("history.spurious_overwrite_error." + kind,
                         "step %d: %s(%r, overwrite=%r), %s: %r" % (i, fn.__name__, fp, ow, "path is fresh" if not exists else "overwrite requested", err))
                ctx.expect(snap == model, "history.clobbered." + kind, lambda: _snapdiff(model, snap))
                model = snap
                continue
            if kind == "video":
                # ffmpeg is absent: nothing can be written; no other file may change
                ctx.event("video export stopped at ffmpeg")
                others_ok = {k: v for k, v in snap.items() if k != key} == {k: v for k, v in model.items() if k != key}
                ctx.expect(others_ok, "history.other_files_changed.video", lambda: _snapdiff(model, snap))
                model = snap
                continue
            had_success = True
            others_ok = {k: v for k, v in snap.items() if k != key} == {k: v for k, v in model.items() if k != key}
            ctx.expect(others_ok, "history.other_files_changed." + kind, lambda: _snapdiff(model, snap))
            if not ctx.expect(key in snap and len(snap[key]) > 0, "history.not_written." + kind,
                              lambda: "step %d: %s(%r) permitted but %s is %s" % (i, fn.__name__, fp, key, "missing" if key not in snap else "empty")):
                model = snap
                meta.pop(key, None)
                continue
            model = snap
            meta[key] = (kind, st_["tag"])
            if not name.lower().endswith((".jpg", ".gif")):
                got = read_tag(kind, name, os.path.join(t.root, d, name))
                ctx.expect(got == st_["tag"], "history.not_replaced." + kind if exists else "history.fresh_content." + kind,
                           lambda: "step %d: wrote tag %d, file holds %d" % (i, st_["tag"], got))


def _snapdiff(model, snap):
    out = []
    for k in sorted(set(model) | set(snap)):
        if k not in snap:
            out.append("%s deleted" % k)
        elif k not in model:
            out.append("%s appeared (%d bytes)" % (k, len(snap[k])))
        elif model[k] != snap[k]:
            out.append("%s changed: %d -> %d bytes (%r... -> %r...)" % (k, len(model[k]), len(snap[k]), model[k][:12], snap[k][:12]))
    return "; ".join(out) or "no difference"


# ==============================================================================================
# 6. refused exports on awkward targets: empty files, directories, a mismatching extension= on an existing path

REFUSE_TARGETS = ["empty_file", "empty_file", "foreign", "own", "dir_empty", "dir_full"]


def tree_snapshot(root):
    """Every entry below root: relative path -> bytes (files) or '<dir>' (directories)."""
    out = {}
    for base, dirs, files in os.walk(root):
        rel = os.path.relpath(base, root)
        for dn in dirs:
            out[os.path.normpath(os.path.join(rel, dn))] = "<dir>"
        for fn in files:
            with open(os.path.join(base, fn), "rb") as f:
                out[os.path.normpath(os.path.join(rel, fn))] = f.read()
    return out


def s_refused():
    @st.composite
    def s(draw):
        kind = draw(st.sampled_from(["landmark", "landmark", "image", "image", "pickle", "pickle", "video"]))
        c = {"kind": kind, "dir": draw(st.sampled_from(DIRS)), "name": draw(st.sampled_from(HIST_FILES[kind])),
             "target": draw(st.sampled_from(REFUSE_TARGETS)), "overwrite": draw(st.sampled_from([False, False, None])),
             "spelling": draw(st.integers(0, 6)), "as_path": draw(st.booleans()), "tag": draw(st.integers(0, 250)),
             "expand": draw(st.sampled_from([0, 0, 1, 2, 3])) if kind == "pickle" else 0,
             "ext_kw": draw(st.sampled_from([None, "match", "mismatch", "mismatch"])) if kind in ("landmark", "image") else None,
             "ext_form": draw(st.sampled_from(["dot", "nodot", "upper"]))}
        if kind == "video" and c["target"] == "own":
            c["target"] = "foreign"  # no video can be written here (ffmpeg is absent)
        return c

    return s()


def _other_extension(kind, name):
    """An extension of the same exporter family that is NOT the one of the file name."""
    ext = name.rsplit(".", 1)[-1].lower()
    pool = ["ljson", "pts"] if kind == "landmark" else ["png", "bmp", "tif", "jpg", "ppm"]
    return [e for e in pool if e != ext and not (ext == "tiff" and e == "tif")][0]


def c_refused(case, ctx):
    kind, d, name = case["kind"], case["dir"], case["name"]
    fn = {"landmark": mio.export_landmark_file, "image": mio.export_image, "pickle": mio.export_pickle, "video": mio.export_video}[kind]
    is_dir = case["target"].startswith("dir")
    tclass = "directory" if is_dir else "empty_file" if case["target"] == "empty_file" else "file"
    ctx.nontrivial(True)
    ctx.event("exporter=%s target=%s" % (kind, case["target"]))
    with _Tmp() as t:
        for dd in DIRS:
            os.makedirs(os.path.join(t.root, dd), exist_ok=True)
        t.chdir("work")
        full = os.path.join(t.root, d, name)
        with open(os.path.join(t.root, d, "keep.bin"), "wb") as f:  # a neighbour that nobody may touch
            f.write(b"neighbour")
        if case["target"] == "empty_file":
            open(full, "wb").close()
        elif case["target"] == "foreign":
            with open(full, "wb") as f:
                f.write(b"foreign-%d" % case["tag"])
        elif case["target"] == "own":
            fn(tagged_object(kind, (case["tag"] + 1) % 251), full)
        else:
            os.makedirs(full)
            if case["target"] == "dir_full":
                with open(os.path.join(full, "child.bin"), "wb") as f:
                    f.write(b"child-%d" % case["tag"])
        sp = spellings(t.root, d, name)
        text, is_abs = sp[case["spelling"] % len(sp)]
        if case["expand"]:
            text = {1: "~/%s/%s", 2: "$VERIF_IO_DIR/%s/%s", 3: "${VERIF_IO_DIR}/%s/%s"}[case["expand"]] % (d, name)
        fp = _as_fp(text, case["as_path"])
        kw = {} if case["overwrite"] is None else {"overwrite": case["overwrite"]}
        mismatch = False
        if case["ext_kw"]:
            ext = name.rsplit(".", 1)[-1] if case["ext_kw"] == "match" else _other_extension(kind, name)
            mismatch = case["ext_kw"] == "mismatch"
            kw["extension"] = {"dot": "." + ext, "nodot": ext, "upper": "." + ext.upper()}[case["ext_form"]]
            ctx.event("extension= " + case["ext_kw"])
        before = tree_snapshot(t.root)
        err = None
        try:
            fn(tagged_object(kind, case["tag"]), fp, **kw)
        except OverwriteError as e:
            err = e
        except FileNotFoundError as e:
            # the video writer was reached (and stopped because ffmpeg is absent): the export was not refused
            if kind != "video" or "ffmpeg" not in str(e):
                raise
            ctx.event("video export reached the ffmpeg call")
        except ValueError as e:
            # only the documented "extensions do not match" refusal may take precedence over the overwrite refusal
            if not mismatch:
                raise
            err = e
        except OSError as e:
            # a directory cannot be opened for writing: that is a refusal too, but not the promised one
            if not is_dir:
                raise
            err = e
        after = tree_snapshot(t.root)
        call = "%s(<obj>, %r%s)" % (fn.__name__, fp, "".join(", %s=%r" % kv for kv in sorted(kw.items())))
        ctx.event("refused with " + type(err).__name__ if err is not None else "not refused")
        if err is None:
            ctx.fail("refused.no_error.%s.%s" % (tclass, kind), "%s on existing %s %s/%s returned normally" % (call, case["target"], d, name))
        elif not isinstance(err, (OverwriteError, ValueError)):
            ctx.fail("refused.no_overwrite_error.%s.%s" % (tclass, kind), "%s on existing %s: %r" % (call, case["target"], err))
        ctx.expect(before == after, "refused.clobbered.%s.%s" % ("extension_mismatch" if mismatch and not is_dir else tclass, kind),
                   lambda: "%s on existing %s: %s" % (call, case["target"], _snapdiff(
                       {k: (v if isinstance(v, bytes) else b"<dir>") for k, v in before.items()},
                       {k: (v if isinstance(v, bytes) else b"<dir>") for k, v in after.items()})))


# ==============================================================================================
# 7. export into file handles (BytesIO, named binary files) with an explicit extension=

HANDLE_FORMATS = {
    "ljson": ("landmark", "ljson"), "pts": ("landmark", "pts"),
    # (no 'im': Pillow's IM writer needs the file name; no lossy format: the bytes are imported and compared)
    "png": ("image", "png"), "bmp": ("image", "bmp"), "tif": ("image", "tif"), "ppm": ("image", "ppm"), "pcx": ("image", "pcx"),
    "pkl": ("pickle", "pkl"),
}


def s_handles():
    @st.composite
    def s(draw):
        fmt = draw(st.sampled_from(["ljson", "ljson", "pts", "pts", "png", "png", "bmp", "tif", "ppm", "pcx", "pkl", "pkl"]))
        kind = HANDLE_FORMATS[fmt][0]
        c = {"fmt": fmt, "handle": draw(st.sampled_from(["bytesio", "bytesio", "buffered", "named", "named", "named_existing", "bytesio_noext"])),
             "overwrite": draw(st.sampled_from([False, True, True, None])),
             "ext_form": draw(st.sampled_from(["nodot", "dot", "upper", "mixed"])),
             "stem": draw(st.sampled_from(["h", "h.v2", "\u00fc h"])), "seed": draw(st.integers(0, 2 ** 16))}
        if fmt == "ljson":
            c["obj"] = draw(lm_shape_case(draw(st.sampled_from([2, 3]))))
            c["form"] = draw(st.sampled_from(["shape", "manager", "dict"]))
        elif fmt == "pts":
            sc = draw(objs.shape_case(d=2, with_landmarks=False))
            sc["pts"] = draw(st.lists(st.lists(st.one_of(_coord(), _coord_wide()), min_size=2, max_size=2), min_size=len(sc["pts"]), max_size=len(sc["pts"])))
            c["obj"] = sc
        elif kind == "image":
            c["obj"] = {"shape": draw(st.lists(st.integers(1, 12), min_size=2, max_size=2)), "ch": draw(st.sampled_from([1, 3]))}
            _pcx_width(c["obj"], [fmt])
        else:
            c["obj"] = draw(st.one_of(objs.shape_case(), objs.transform_case()))
            c["protocol"] = draw(st.sampled_from([None, 0, 2, 4]))
        return c

    return s()


def c_handles(case, ctx):
    import io

    fmt = case["fmt"]
    kind, ext = HANDLE_FORMATS[fmt]
    fn = {"landmark": mio.export_landmark_file, "image": mio.export_image, "pickle": mio.export_pickle}[kind]
    # ---- the object and what must come back
    if fmt == "ljson":
        shape, want = build_lm_shape(case["obj"])
        if case["form"] == "manager":
            host = PointCloud(np.zeros((1, case["obj"]["d"])))
            host.landmarks["grp"] = shape
            obj = host.landmarks
        elif case["form"] == "dict":
            obj = OrderedDict([("grp", shape)])
        else:
            obj = shape
    elif fmt == "pts":
        obj = objs.build_shape(case["obj"])
        want = np.array(case["obj"]["pts"], dtype=float)
    elif kind == "image":
        rs = np.random.RandomState(case["seed"])
        want = rs.randint(0, 256, size=(case["obj"]["ch"],) + tuple(case["obj"]["shape"])).astype(np.uint8)
        obj = Image(want.copy())
    else:
        oc = case["obj"]
        obj = objs.build_shape(oc) if oc["kind"] in objs.SHAPE_KINDS else objs.build_transform(oc)
    kw = {}
    if case["overwrite"] is not None:
        kw["overwrite"] = case["overwrite"]
    if kind != "pickle" and case["handle"] != "bytesio_noext":
        kw["extension"] = {"nodot": ext, "dot": "." + ext, "upper": "." + ext.upper(), "mixed": ext[0].upper() + ext[1:]}[case["ext_form"]]
    if kind == "pickle" and case.get("protocol") is not None:
        kw["protocol"] = case["protocol"]
    handle = case["handle"]
    if kind == "pickle" and handle == "bytesio_noext":
        handle = "bytesio"  # export_pickle has no extension argument
    ctx.event("format=%s handle=%s overwrite=%s" % (fmt, handle, case["overwrite"]))
    ctx.nontrivial(handle != "bytesio_noext")
    call = "%s(<%s>, <%s>%s)" % (fn.__name__, type(obj).__name__, handle, "".join(", %s=%r" % kv for kv in sorted(kw.items())))
    with _Tmp() as t:
        os.makedirs(os.path.join(t.root, "d"))
        with open(os.path.join(t.root, "d", "keep.bin"), "wb") as f:
            f.write(b"neighbour")
        target = os.path.join(t.root, "d", case["stem"] + "." + ext)
        data = None
        if handle in ("bytesio", "buffered", "bytesio_noext"):
            raw = io.BytesIO()
            fh = io.BufferedWriter(raw) if handle == "buffered" else raw
            try:
                fn(obj, fh, **kw)
            except ValueError as e:
                # documented: a file-like object needs an extension
                ctx.expect(handle == "bytesio_noext", "handle.nameless_buffer_refused", lambda: "%s: %r" % (call, e))
                ctx.event("no extension: ValueError")
                return
            if handle == "bytesio_noext":
                ctx.fail("handle.missing_extension_not_refused", "%s returned normally; %d bytes written" % (call, len(raw.getvalue())))
                return
            fh.flush()
            data = raw.getvalue()
        else:
            if handle == "named_existing":
                with open(target, "wb") as f:
                    f.write(b"previous content")
            before = tree_snapshot(t.root)
            err = None
            with open(target, "wb") as fh:  # from here on the path exists, whatever it held: the caller's open truncated it
                try:
                    fn(obj, fh, **kw)
                except OverwriteError as e:
                    err = e
            permitted = bool(case["overwrite"])
            after = tree_snapshot(t.root)
            rel = os.path.relpath(target, t.root)
            others = lambda snap: {k: v for k, v in snap.items() if k != rel}  # noqa: E731
            ctx.expect(others(before) == others(after), "handle.other_files_changed", lambda: call)
            if not permitted:
                ctx.event("named handle refused" if err is not None else "named handle NOT refused")
                ctx.expect(err is not None, "handle.named.no_overwrite_error." + kind,
                           lambda: "%s on an open handle whose name is an existing path returned normally (%d bytes written)" % (call, len(after[rel])))
                return
            if err is not None:
                ctx.fail("handle.named.spurious_overwrite_error." + kind, "%s: %r" % (call, err))
                return
            data = after[rel]
        # ---- what the handle received is a complete file of that format: it imports back to the data
        ctx.expect(len(data) > 0, "handle.nothing_written." + kind, call)
        back_path = os.path.join(t.root, "back." + ext)
        with open(back_path, "wb") as f:
            f.write(data)
        if fmt == "ljson":
            res = mio.import_landmark_file(back_path)
            if ctx.expect(isinstance(res, dict) and len(res) == 1, "handle.ljson.groups", lambda: repr(res)):
                if case["form"] != "shape":
                    ctx.expect(list(res.keys()) == ["grp"], "handle.ljson.group_names", lambda: repr(list(res.keys())))
                check_landmark_shape(ctx, case["obj"], want, list(res.values())[0], "handle.ljson")
        elif fmt == "pts":
            res = mio.import_landmark_file(back_path)
            if ctx.expect(isinstance(res, dict) and len(res) == 1, "handle.pts.result", lambda: repr(res)):
                bp = list(res.values())[0].points
                ctx.expect(bp.shape == want.shape and np.abs(bp - want).max() <= 0.5e-3 + 1e-9, "handle.pts.precision",
                           lambda: "want %r got %r" % (want.tolist(), bp.tolist()))
        elif kind == "image":
            check_raw_import(ctx, mio.import_image(back_path, normalize=False), want, "handle.image")
        else:
            back = mio.import_pickle(back_path)
            diff = digest.state_diff(obj, back, skip=_SKIP_PATH, memo_tolerant=True)
            ctx.expect(diff is None, "handle.pickle.state", lambda: "%s: %s" % (type(obj).__name__, diff))


# ==============================================================================================
# 8. the other import entry points: import_image(...).landmarks, import_images, import_landmark_files

ATTACH_STEMS = ["im", "b.c", "\u00fc x", "Q", "k-1", "face_01", "zz.v2.final", "a", "face", "zeta"]
ATTACH_GROUPS = [g for g in GROUP_NAMES if g not in ("PTS", "LJSON")]
_PLAIN = set("abcdefghijklmnopqrstuvwxyz")


def s_attach():
    @st.composite
    def s(draw):
        k = draw(st.integers(1, 3))
        stems = draw(st.lists(st.sampled_from(ATTACH_STEMS), min_size=k, max_size=k, unique=True))
        images = []
        for stem in stems:
            im = {"stem": stem, "ext": draw(st.sampled_from(["png", "png", "bmp", "tif", "jpg", "PNG"])),
                  "shape": draw(st.lists(st.integers(2, 9), min_size=2, max_size=2)), "ch": draw(st.sampled_from([1, 3])),
                  "tag": draw(st.integers(0, 255)), "ljson": None, "pts": None}
            which = draw(st.sampled_from(["ljson", "pts", "both", "both", "none"]))
            if which in ("ljson", "both"):
                form = draw(st.sampled_from(["shape", "manager", "dict"]))
                if form == "shape":
                    groups = [["LJSON", draw(lm_shape_case(2))]]
                else:
                    g = draw(st.integers(1, 3))
                    names = draw(st.lists(st.sampled_from(ATTACH_GROUPS), min_size=g, max_size=g, unique=True))
                    # a plain dict may also hold 3-D groups: they cannot belong to a 2-D image
                    groups = [[nm, draw(lm_shape_case(3 if form == "dict" and draw(st.integers(0, 3)) == 0 else 2))] for nm in names]
                im["ljson"] = {"form": form, "groups": groups, "ext": draw(st.sampled_from(["ljson", "ljson", "LJSON"]))}
            if which in ("pts", "both"):
                sc = draw(objs.shape_case(d=2, with_landmarks=False))
                sc["pts"] = draw(st.lists(st.lists(_coord(), min_size=2, max_size=2), min_size=len(sc["pts"]), max_size=len(sc["pts"])))
                im["pts"] = {"shape": sc, "ext": draw(st.sampled_from(["pts", "pts", "PTS"]))}
            images.append(im)
        return {"images": images, "as_path": draw(st.booleans()), "pattern": draw(st.sampled_from(["dir/*", "dir", "dir/*.*"])),
                "normalize": draw(st.booleans())}

    return s()


def _write_attach_set(root, case):
    """Writes the directory; returns per image (file name, {group: ('ljson', shape case, want) | ('pts', want)}, [3-D group names])."""
    out = []
    for im in case["images"]:
        ch, (h, w) = im["ch"], im["shape"]
        px = np.full((h, w, ch), im["tag"], dtype=np.uint8)
        fname = im["stem"] + "." + im["ext"]
        # the picture is written by Pillow directly (menpo's exporter is not part of this clause)
        _PILImage.fromarray(px[..., 0] if ch == 1 else px).save(os.path.join(root, fname))
        expect, three_d = OrderedDict(), []
        if im["ljson"]:
            built = [(nm, c) + build_lm_shape(c) for nm, c in im["ljson"]["groups"]]
            form = im["ljson"]["form"]
            if form == "shape":
                obj = built[0][2]
            elif form == "manager":
                host = PointCloud(np.zeros((1, 2)))
                for nm, c, s, wnt in built:
                    host.landmarks[nm] = s
                obj = host.landmarks
            else:
                obj = OrderedDict((nm, s) for nm, c, s, wnt in built)
            mio.export_landmark_file(obj, os.path.join(root, im["stem"] + "." + im["ljson"]["ext"]))
            for nm, c, s, wnt in built:
                if c["d"] == 2:
                    expect[nm] = ("ljson", c, wnt)
                else:
                    three_d.append(nm)
        if im["pts"]:
            sc = im["pts"]["shape"]
            mio.export_landmark_file(objs.build_shape(sc), os.path.join(root, im["stem"] + "." + im["pts"]["ext"]))
            expect["PTS"] = ("pts", sc, np.array(sc["pts"], dtype=float))
        out.append((fname, expect, three_d))
    return out


def _check_attached(ctx, im_obj, fname, expect, three_d, tag):
    """The 2-D groups of the landmark files next to an image are attached under their names, with their data."""
    got = list(im_obj.landmarks.keys()) if im_obj.has_landmarks else []
    missing = [g for g in expect if g not in got]
    extra = [g for g in got if g not in expect and g not in three_d]
    ctx.expect(not missing, tag + ".group_missing", lambda: "%s: expected groups %r, attached %r" % (fname, list(expect), got))
    ctx.expect(not extra, tag + ".group_unexpected", lambda: "%s: expected groups %r, attached %r" % (fname, list(expect), got))
    for g, spec in expect.items():
        if g not in got:
            continue
        lm = im_obj.landmarks[g]
        if spec[0] == "ljson":
            check_landmark_shape(ctx, spec[1], spec[2], lm, tag + ".ljson")
        else:
            want = spec[2]
            ok = isinstance(lm, PointCloud) and lm.points.shape == want.shape and np.abs(lm.points - want).max() <= 0.5e-3 + 1e-9
            ctx.expect(ok, tag + ".pts", lambda: "%s: want %r got %r" % (fname, want.tolist(), np.asarray(lm.points).tolist()))


def _plain_order_ok(names):
    """Names made of lower-case ASCII letters (before the extension) must appear in sorted order: the documented
    'alphanumerically ordered' leaves no freedom there (case, digits and non-ASCII letters are not judged)."""
    plain = [n.rsplit(".", 1)[0] for n in names if set(n.rsplit(".", 1)[0]) <= _PLAIN]
    return plain == sorted(plain)


def c_attach(case, ctx):
    with _Tmp() as t:
        root = os.path.join(t.root, "set")
        os.makedirs(root)
        files = _write_attach_set(root, case)
        by_name = {fname: (expect, three_d) for fname, expect, three_d in files}
        n_lm_files = sum((im["ljson"] is not None) + (im["pts"] is not None) for im in case["images"])
        ctx.nontrivial(any(len(e) >= 1 for _, e, _ in files))
        ctx.event("images=%d landmark files=%d" % (len(files), n_lm_files))
        if any(td for _, _, td in files):
            ctx.event("a 3-D group next to a 2-D image")
        kw = {"normalize": case["normalize"]}
        # ---- import_image
        for (fname, expect, three_d), im in zip(files, case["images"]):
            one = mio.import_image(_as_fp(os.path.join(root, fname), case["as_path"]), **kw)
            ctx.event("groups expected=%d" % len(expect))
            _check_attached(ctx, one, fname, expect, three_d, "attach.import_image")
            if im["ext"].lower() != "jpg":
                lv = to8(one.pixels)
                ctx.expect(one.pixels.shape == (im["ch"],) + tuple(im["shape"]) and bool((lv == im["tag"]).all()), "attach.import_image.pixels",
                           lambda: "%s: level %d expected, got levels %r" % (fname, im["tag"], np.unique(lv).tolist()))
            bare = mio.import_image(os.path.join(root, fname), landmark_resolver=None)
            ctx.expect(not bare.has_landmarks, "attach.landmark_resolver_none", lambda: "%s: %r" % (fname, list(bare.landmarks.keys())))
        # ---- import_images over the directory
        pattern = {"dir/*": os.path.join(root, "*"), "dir": root, "dir/*.*": os.path.join(root, "*.*")}[case["pattern"]]
        lazy = mio.import_images(_as_fp(pattern, case["as_path"]), **kw)
        names = []
        if ctx.expect(len(lazy) == len(files), "attach.import_images.count", lambda: "%d images for %d files" % (len(lazy), len(files))):
            for i in range(len(lazy)):
                x = lazy[i]
                nm = getattr(getattr(x, "path", None), "name", None)
                names.append(nm)
                if not ctx.expect(nm in by_name, "attach.import_images.path", lambda: "item %d has path %r" % (i, getattr(x, "path", None))):
                    continue
                _check_attached(ctx, x, nm, by_name[nm][0], by_name[nm][1], "attach.import_images")
            ctx.expect(sorted(n for n in names if n) == sorted(by_name), "attach.import_images.files", lambda: "%r vs %r" % (names, sorted(by_name)))
            ctx.expect(_plain_order_ok([n for n in names if n]), "attach.import_images.order", lambda: repr(names))
        # ---- import_landmark_files over the directory
        if n_lm_files == 0:
            try:
                mio.import_landmark_files(pattern)
                ctx.fail("attach.import_landmark_files.empty_glob_not_refused", pattern)
            except ValueError:
                ctx.event("no landmark files: ValueError (documented)")
            return
        lms = mio.import_landmark_files(pattern)
        if not ctx.expect(len(lms) == n_lm_files, "attach.import_landmark_files.count", lambda: "%d results for %d files" % (len(lms), n_lm_files)):
            return
        want_files = {}
        for im in case["images"]:
            if im["ljson"]:
                want_files[im["stem"] + "." + im["ljson"]["ext"]] = ("ljson", im)
            if im["pts"]:
                want_files[im["stem"] + "." + im["pts"]["ext"]] = ("pts", im)
        seen = []
        for i in range(len(lms)):
            res = lms[i]
            if not ctx.expect(isinstance(res, dict) and len(res) >= 1, "attach.import_landmark_files.result_type", lambda: type(res).__name__):
                continue
            nm = getattr(getattr(list(res.values())[0], "path", None), "name", None)
            seen.append(nm)
            if not ctx.expect(nm in want_files, "attach.import_landmark_files.path", lambda: "item %d: path name %r, files %r" % (i, nm, sorted(want_files))):
                continue
            typ, im = want_files[nm]
            if typ == "pts":
                want = np.array(im["pts"]["shape"]["pts"], dtype=float)
                bp = list(res.values())[0].points
                ctx.expect(len(res) == 1 and bp.shape == want.shape and np.abs(bp - want).max() <= 0.5e-3 + 1e-9,
                           "attach.import_landmark_files.pts", lambda: "%s: want %r got %r" % (nm, want.tolist(), bp.tolist()))
            else:
                built = [(g, c) + build_lm_shape(c) for g, c in im["ljson"]["groups"]]
                if im["ljson"]["form"] == "shape":
                    if ctx.expect(len(res) == 1, "attach.import_landmark_files.single_shape_groups", lambda: repr(list(res.keys()))):
                        check_landmark_shape(ctx, built[0][1], built[0][3], list(res.values())[0], "attach.import_landmark_files.ljson")
                elif ctx.expect(sorted(res.keys()) == sorted(g for g, _, _, _ in built), "attach.import_landmark_files.group_names",
                                lambda: "%r vs %r" % (sorted(res.keys()), sorted(g for g, _, _, _ in built))):
                    for g, c, s_, wnt in built:
                        check_landmark_shape(ctx, c, wnt, res[g], "attach.import_landmark_files.ljson")
        ctx.expect(sorted(n for n in seen if n) == sorted(want_files), "attach.import_landmark_files.files", lambda: "%r vs %r" % (seen, sorted(want_files)))
        ctx.expect(_plain_order_ok([n for n in seen if n]), "attach.import_landmark_files.order", lambda: repr(seen))


# ==============================================================================================
# 9. histories that export the SAME live object several times; exports never modify what they export

# memory layouts / flags of the live object's arrays (the pristine twin, built from the same plain data, stays plain)
LAYOUTS = ["plain", "plain", "readonly", "fortran", "strided", "readonly_strided"]
REEXPORT_IMG_EXTS = ["png", "bmp", "tif", "ppm", "PNG", "tiff"]


def _relayout(a, layout):
    """An array with the same values, dtype and shape but the drawn memory layout / writeable flag."""
    a = np.array(a)  # own C-ordered copy
    if layout in ("strided", "readonly_strided"):
        # every second element along every axis of a larger buffer (the gaps hold a sentinel nobody may read or write)
        big = np.full(tuple(2 * s for s in a.shape), 77).astype(a.dtype)
        v = big[tuple(slice(0, None, 2) for _ in a.shape)]
        v[...] = a
        a = v
    elif layout == "fortran":
        a = np.asfortranarray(a)
    if layout.startswith("readonly"):
        a.flags.writeable = False
    return a


@st.composite
def reexport_group(draw, d):
    """One landmark group: {'lm': lm_shape_case, 'pts_ok': whether it lies in the domain of the points format}."""
    if d == 2 and draw(st.integers(0, 2)) > 0:
        # 2-D, finite, |x| <= 4e6, float32 exact (as in the pts clause): may be written as .pts as well
        c = draw(objs.shape_case(kinds=LM_KINDS, d=2, with_landmarks=False))
        n = len(c["pts"])
        dtype = draw(st.sampled_from(["float64", "float64", "float32", "int"]))
        if dtype == "float32":
            co = gen.q(-4000, 4000)
        elif dtype == "int":
            co = st.integers(-5000, 5000).map(float)
        else:
            co = draw(st.sampled_from([_coord(), _coord(), _coord_wide()]))
        c["pts"] = draw(st.lists(st.lists(co, min_size=2, max_size=2), min_size=n, max_size=n))
        c["nan"], c["awk"], c["dtype"] = [], [], dtype
        return {"lm": c, "pts_ok": True}
    return {"lm": draw(lm_shape_case(d)), "pts_ok": False}


def s_reexport():
    @st.composite
    def s(draw):
        what = draw(st.sampled_from(["shape", "shape", "manager", "manager", "image"]))
        c = {"what": what, "layout": draw(st.sampled_from(LAYOUTS))}
        if what == "shape":
            d = draw(st.sampled_from([2, 2, 2, 3]))
            c["groups"] = [["LJSON", draw(reexport_group(d))]]
        else:
            d = 2 if what == "image" else draw(st.sampled_from([2, 2, 3]))
            k = draw(st.integers(0 if what == "image" else 1, 3 if what == "manager" else 2))
            names = draw(st.lists(st.sampled_from(ATTACH_GROUPS), min_size=k, max_size=k, unique=True))
            c["groups"] = [[nm, draw(reexport_group(d))] for nm in names]
        c["d"] = d
        if what == "image":
            cls = draw(st.sampled_from(["Image", "Image", "MaskedImage", "BooleanImage"]))
            c["image"] = {"cls": cls, "shape": draw(st.lists(st.integers(1, 12), min_size=2, max_size=2)),
                          "ch": 1 if cls == "BooleanImage" else draw(st.sampled_from([1, 3])), "seed": draw(st.integers(0, 2 ** 16)),
                          "repr": draw(st.sampled_from(["uint8", "div", "mul", "float32"])),
                          "mask": draw(st.sampled_from(["all", "random", "blob", "single"]))}
        c["steps"] = [{"subject": draw(st.sampled_from([0, 0, 0, 1, 2, 3, 4])), "fmt": draw(st.integers(0, 7)),
                       "target": draw(st.sampled_from(["new", "new", "same", "same", "handle"])), "as_path": draw(st.booleans()),
                       "import_before": draw(st.booleans()), "overwrite": draw(st.sampled_from([None, True, False]))}
                      for _ in range(draw(st.integers(2, 4)))]
        return c

    return s()


def _build_reexport(case, layout):
    """(root, {name: (group object held by root, shape case, want)}, 8-bit levels or None), all from the plain data."""
    built = OrderedDict()
    k = None
    if case["what"] == "shape":
        nm, g = case["groups"][0]
        root, want = build_lm_shape(g["lm"])
        root.points = _relayout(root.points, layout)
        built[nm] = (root, g, want)
        return root, built, k
    if case["what"] == "manager":
        root = PointCloud(np.zeros((1, case["d"])))
    else:
        ic = case["image"]
        k = np.random.RandomState(ic["seed"]).randint(0, 256, size=(ic["ch"],) + tuple(ic["shape"])).astype(np.uint8)
        if ic["cls"] == "BooleanImage":
            k = (k >= 128).astype(np.uint8) * 255
            root = build_img(ic, k > 0)
        else:
            px = {"uint8": k.copy(), "div": k / 255.0, "mul": k * (1.0 / 255.0), "float32": (k / 255.0).astype(np.float32)}[ic["repr"]]
            root = build_img(ic, px)
        root.pixels = _relayout(root.pixels, layout)
        if ic["cls"] == "MaskedImage":
            root.mask.pixels = _relayout(root.mask.pixels, layout)
    for nm, g in case["groups"]:
        s, want = build_lm_shape(g["lm"])
        root.landmarks[nm] = s  # (the manager stores its own copy: the layout is applied to that copy)
        held = root.landmarks[nm]
        held.points = _relayout(held.points, layout)
        built[nm] = (held, g, want)
    return root, built, k


def _reexport_subjects(case, root, built):
    """[(label, live object, formats)]: everything of the root that an export_* entry point accepts."""
    def group_formats(g):
        return (["pts", "pts", "PTS", "pts"] if g["pts_ok"] else []) + ["ljson", "pkl", "pkl.gz", "LJSON"]

    if case["what"] == "shape":
        nm = list(built)[0]
        return [("group:" + nm, root, group_formats(built[nm][1]))]
    subs = []
    if case["what"] == "image":
        subs += [("image", root, REEXPORT_IMG_EXTS + ["pkl", "pkl.gz"])] * (2 if built else 1)
    for nm, (held, g, want) in built.items():
        subs.append(("group:" + nm, held, group_formats(g)))
    if built:
        subs.append(("manager", root.landmarks, ["ljson", "pkl", "ljson", "pkl.gz"]))
        subs.append(("dict", OrderedDict((nm, b[0]) for nm, b in built.items()), ["ljson", "LJSON"]))
    if case["what"] == "manager":
        subs.append(("host", root, ["pkl", "pkl.gz"]))
    return subs


def _pub_diff(ref, back):
    """digest.public_diff without the path attribute (import_pickle sets .path on what it returns)."""
    va, vb = digest.public_view(ref), digest.public_view(back)
    for v in (va, vb):
        if isinstance(v, dict):
            v.pop("path", None)
    return digest.state_diff(va, vb, memo_tolerant=True)


def _reexport_verify(ctx, path, label, fmt, built, pristine, k):
    """Re-import one file and judge it against the pristine twin / the plain data (never against the live object)."""
    low = fmt.lower()
    p_root, p_built = pristine
    if low == "pts":
        nm = label.split(":", 1)[1]
        want = built[nm][2]
        res = mio.import_landmark_file(path)
        if ctx.expect(isinstance(res, dict) and len(res) == 1, "reexport.pts.result", lambda: repr(res)):
            bp = np.asarray(list(res.values())[0].points)
            ok = bp.shape == want.shape and np.abs(bp - want).max() <= 0.5e-3 + 1e-9
            ctx.expect(ok, "reexport.pts.precision", lambda: "%s: max |delta| %s\nwant %r\ngot  %r" % (
                os.path.basename(path), float(np.abs(bp - want).max()) if bp.shape == want.shape else "-", want.tolist(), bp.tolist()))
    elif low == "ljson":
        res = mio.import_landmark_file(path)
        if not ctx.expect(isinstance(res, dict), "reexport.ljson.result_type", lambda: type(res).__name__):
            return
        if label.startswith("group:"):
            nm = label.split(":", 1)[1]
            if ctx.expect(len(res) == 1, "reexport.ljson.single_shape_groups", lambda: repr(list(res.keys()))):
                check_landmark_shape(ctx, built[nm][1]["lm"], built[nm][2], list(res.values())[0], "reexport.ljson")
        elif ctx.expect(sorted(res.keys()) == sorted(built), "reexport.ljson.group_names", lambda: "%r vs %r" % (sorted(res.keys()), sorted(built))):
            for nm, (held, g, want) in built.items():
                check_landmark_shape(ctx, g["lm"], want, res[nm], "reexport.ljson")
    elif low in ("pkl", "pkl.gz"):
        back = mio.import_pickle(path)
        if label.startswith("group:"):
            ref = p_built[label.split(":", 1)[1]][0]
        elif label == "manager":
            ref = p_root.landmarks
        else:
            ref = p_root
        if not ctx.expect(type(back) is type(ref), "reexport.pickle.class", lambda: "%s came back as %s" % (type(ref).__name__, type(back).__name__)):
            return
        if label == "manager":
            if ctx.expect(sorted(back.keys()) == sorted(ref.keys()), "reexport.pickle.group_names", lambda: "%r vs %r" % (sorted(back.keys()), sorted(ref.keys()))):
                for nm in ref.keys():
                    diff = _pub_diff(ref[nm], back[nm])
                    ctx.expect(diff is None, "reexport.pickle.state", lambda: "group %r of the manager: %s" % (nm, diff))
        else:
            diff = _pub_diff(ref, back)
            ctx.expect(diff is None, "reexport.pickle.state", lambda: "%s: %s" % (label, diff))
    else:
        check_raw_import(ctx, mio.import_image(path, normalize=False, landmark_resolver=None), k, "reexport.image")


def c_reexport(case, ctx):
    import io

    root, built, k = _build_reexport(case, case["layout"])
    p_root, p_built, _ = _build_reexport(case, "plain")  # the pristine twin: same plain data, never handed to an exporter
    pristine = (p_root, p_built)
    subjects = _reexport_subjects(case, root, built)
    watched = [root] + [s[1] for s in subjects if s[0] == "dict"]
    d0 = digest.digest(watched, skip=_SKIP_PATH)
    ctx.event("what=%s groups=%d layout=%s" % (case["what"], len(built), case["layout"]))
    for nm, (held, g, want) in built.items():
        ctx.event("group dtype=%s%s" % (g["lm"]["dtype"], " (pts domain)" if g["pts_ok"] else ""))
    touched = {}  # what an export read -> number of exports that read it
    files = OrderedDict()  # path -> (label, fmt) of the export that wrote it last
    fams = []
    with _Tmp() as t:
        for i, st_ in enumerate(case["steps"]):
            label, obj, fmts = subjects[st_["subject"] % len(subjects)]
            fmt = fmts[st_["fmt"] % len(fmts)]
            low = fmt.lower()
            fam = "pts" if low == "pts" else "ljson" if low == "ljson" else "pickle" if low.startswith("pkl") else "image"
            fn = {"pts": mio.export_landmark_file, "ljson": mio.export_landmark_file, "pickle": mio.export_pickle, "image": mio.export_image}[fam]
            if st_["import_before"] and files:
                # export -> import -> export of the original again (the import must not disturb anything either)
                lp = list(files)[-1]
                _reexport_verify(ctx, lp, files[lp][0], files[lp][1], built, pristine, k)
                ctx.event("import between two exports")
            reads = {label}
            if label in ("manager", "dict", "host") or (label == "image" and fam == "pickle"):
                reads |= {"group:" + nm for nm in built}
            for r in reads:
                touched[r] = touched.get(r, 0) + 1
            target = st_["target"]
            same = [p for p, (lb, f) in files.items() if f.lower() == low]
            if target == "same" and not same:
                target = "new"
            if target == "handle" and low == "pkl.gz":
                target = "new"  # (a nameless buffer cannot ask for compression)
            if target == "same":
                path = same[-1]
                fn(obj, _as_fp(path, st_["as_path"]), overwrite=True)
                ctx.event("same path again, overwrite=True")
            elif target == "handle":
                path = os.path.join(t.root, "f%d.%s" % (i, fmt))
                buf = io.BytesIO()
                if fam == "pickle":
                    fn(obj, buf)
                else:
                    fn(obj, buf, extension=fmt)
                with open(path, "wb") as f:
                    f.write(buf.getvalue())
                ctx.event("into a BytesIO")
            else:
                path = os.path.join(t.root, "f%d.%s" % (i, fmt))
                kw = {} if st_["overwrite"] is None else {"overwrite": st_["overwrite"]}
                fn(obj, _as_fp(path, st_["as_path"]), **kw)
            files[path] = (label, fmt)
            fams.append(fam)
            ctx.event("export %s of %s" % (fam, label.split(":")[0]))
            # (1) the exported object, its manager, groups, pixels and mask are what they were before the first export
            d1 = digest.digest(watched, skip=_SKIP_PATH)
            mut = digest.parameter_mutation(d0, d1)
            if mut is not None:
                ctx.fail("reexport.object_modified." + fam, "step %d: %s(<%s %s>, ...) changed the exported object (layout %s): %r" % (
                    i, fn.__name__, label, type(obj).__name__, case["layout"], mut))
                d0 = d1  # (reported once: later steps are judged from here)
            # (2) this file holds the original data, however many exports came before it
            _reexport_verify(ctx, path, label, fmt, built, pristine, k)
        # every file of the history still holds the original data
        for path, (label, fmt) in files.items():
            _reexport_verify(ctx, path, label, fmt, built, pristine, k)
    repeated = any(v >= 2 for v in touched.values())
    ctx.nontrivial(repeated)
    if repeated:
        ctx.event("same object exported %s" % ("in one format several times" if len(set(fams)) < len(fams) else "in different formats"))


CLAUSES = [
    Clause("ljson", c_ljson, s_ljson, quick=500, thorough=14000, nt_floor=0.4,
           rule="8 shape classes / LandmarkManager / dict of 1-4 groups x 2-D/3-D x 1-9 points x NaN positions x awkward floats x float32/int points; "
                "a drawn group fetched through group= by str or Path; non-trivial: labels, NaN or >= 2 groups"),
    Clause("pts", c_pts, s_pts, quick=300, thorough=8000, nt_floor=0.5,
           rule="any shape class (one in eight 3-D), coordinates in [0, 5000] or [-4e6, 4e6] (k/1024, k/1000, k/2000 ties, arbitrary doubles), "
                "float64 / float32 / int64 points; non-trivial: some point has x != y"),
    Clause("pickle", c_pickle, s_pickle, quick=400, thorough=10000, nt_floor=0.5,
           rule="shapes with nested landmarks, landmark managers, 2-D / 3-D / 4-D and imported images, all transform classes, RBF kernels, group "
                "alignments, PCA (shapes, images, masked images, meshes, vectors) / GMRF / linear models x .pkl/.pkl.gz x protocol; equal state and "
                "equal results of public calls (apply, instance, project, mahalanobis_distance, ...) on the copy; non-trivial: object holds a non-empty array"),
    Clause("image_8bit", c_image8, s_image8, quick=350, thorough=9000, nt_floor=0.4,
           rule="Image/MaskedImage/BooleanImage x 1/3 channels x shapes 1..40 x lossless formats x levels k/255 (division, multiplication, float32, uint8); "
                "non-trivial: >= 64 distinct levels"),
    Clause("image_float", c_imagef, s_imagef, quick=250, thorough=7000, nt_floor=0.4,
           rule="float32/float64 images with arbitrary values in [0,1] (uniform, half-level ties, near-level, extremes); non-trivial: >= 64 distinct levels"),
    Clause("image_reimport", c_reimport, s_reimport, quick=300, thorough=8000, nt_floor=0.4,
           rule="source files written by Pillow (L/RGB/RGBA/P/1; png/bmp/tif/ppm/pgm/pbm/pcx/im/dib and JPEG) -> import_image(normalize=True/False/default) "
                "-> export_image -> import_image"),
    Clause("image_fresh_process", c_fresh, enumerate=enum_fresh, max_shards=12,
           rule="exhaustive: first action in a fresh interpreter (import png/bmp/tif or construct) x output format x normalize; "
                "import -> export -> import must succeed and be the identity whatever Pillow has loaded so far"),
    Clause("refused_export", c_refused, s_refused, quick=300, thorough=6000, nt_floor=0.9,
           rule="one export with overwrite False/default onto an existing empty file / foreign file / menpo-written file / empty or non-empty "
                "directory, optional extension= (matching or mismatching), 7 spellings, str/Path, ~ and $VAR for pickles; the call must raise "
                "and the whole tree (recursive) must be unchanged; every case is non-trivial"),
    Clause("handle_export", c_handles, s_handles, quick=300, thorough=6000, nt_floor=0.6,
           rule="export into BytesIO / BufferedWriter / a named binary file with extension= spelled 'ljson', '.ljson', '.LJSON', 'Ljson': "
                "the received bytes, saved under that extension, import back to the data; a named handle is an existing path (OverwriteError "
                "unless overwrite=True); a nameless buffer without extension= raises ValueError; non-trivial: an export that must succeed or be refused by name"),
    Clause("attach", c_attach, s_attach, quick=250, thorough=5000, nt_floor=0.5,
           rule="a directory of 1-3 Pillow-written pictures with .ljson (shape / manager / dict) and / or .pts files of the same stem: "
                "import_image(p).landmarks, import_images(dir)[i] and import_landmark_files(dir)[i] hold the 2-D groups under their names "
                "with the exported data; non-trivial: some picture has a landmark group"),
    Clause("reexport", c_reexport, s_reexport, quick=400, thorough=10000, nt_floor=0.5,
           rule="ONE live object (a shape, a host with a LandmarkManager of 1-3 groups, an Image / MaskedImage / BooleanImage with 0-2 groups; arrays "
                "plain / read-only / Fortran-ordered / strided views; float64 / float32 / int points, uint8 / float / bool pixels) goes through 2-4 exports: "
                "the object, its manager, a dict of its groups or one group; .pts / .ljson / image formats / .pkl / .pkl.gz; a new path, the same path "
                "with overwrite=True or a BytesIO; optionally an import in between. After every export the object is unchanged "
                "(digest.parameter_mutation) and EVERY file written so far imports back to the data of a pristine twin built from the same plain "
                "data (three decimals for .pts, exact otherwise); non-trivial: some object was read by at least two exports"),
    Clause("overwrite_history", c_history, s_history, quick=400, thorough=8000, nt_floor=0.3,
           rule="3-10 steps (export with overwrite False/True/default, import, foreign file) over 1-3 files in 3 directories, 7 spellings each, "
                "str/Path; non-trivial: a refused export after a successful one"),
]
