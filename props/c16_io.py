"""C16 - export then import returns the same data; files are never clobbered unasked.

All file I/O happens inside a per-case ``tempfile.TemporaryDirectory`` (system temp dir) that is
removed when the case ends.  Oracles are computed from the plain-data case (expected coordinates,
undirected edge sets, ordered labels, 8-bit levels) and never from the exporter's own output.
"""
import os
import tempfile
from collections import OrderedDict
from pathlib import Path

import numpy as np
from hypothesis import strategies as st

from vlib.runner import Clause
from vlib import gen, objs, digest

import menpo.io as mio
from menpo.io.exceptions import OverwriteError
from menpo.image import Image, MaskedImage, BooleanImage  # noqa: F401
from menpo.shape import PointCloud

import PIL.Image as _PILImage

# Pillow registers its format plugins lazily (none -> the one being opened -> the five common ones -> all).
# menpo's image exporter used to depend on that state (export to .tif/.bmp refused after a PNG import in a
# fresh interpreter; repaired in /repo), which made the outcome of a generated case depend on which case the
# worker process happened to run first. The generated clauses therefore run with Pillow fully initialised;
# the dependence itself is examined in fresh interpreters (which never import this module) by the
# enumerated clause image_fresh_process.
_PILImage.init()

PROPERTY = "C16"
RULE = (
    "Hypothesis-drawn plain-data cases: (ljson) one of the 8 shape classes or a LandmarkManager / dict of 1-4 "
    "groups, 2-D/3-D, NaNs written at drawn (point, axis) positions, awkward float values, float32/int dtypes, "
    "ordered unicode labels, group names with dots; (pts) any 2-D shape class with coordinates in [0, 5000] "
    "(quantised, 3-decimal ties, arbitrary doubles); (pickle) shapes with nested landmarks, landmark managers, "
    "images (with a path attribute), every transform class incl. alignments/TPS/PWA/chains, PCA models, plain and "
    "gzip, protocols 0-5; (images) Image/MaskedImage/BooleanImage, 1/3 channels, shapes 1..40, lossless formats, "
    "8-bit levels k/255 arranged to cover many distinct k, arbitrary floats in [0,1], source files written by "
    "Pillow directly in modes L/RGB/RGBA/P/1; (overwrite) histories of export/import/seed steps over a temp tree "
    "with str/Path, relative/absolute, dotted and upper-case spellings and a dict path->bytes model. Non-trivial: "
    "landmarks with labels, NaN or >= 2 groups; images with >= 64 distinct 8-bit values; histories with a refused "
    "export after a successful one. Distinct = distinct canonical-JSON digest of the case."
)
ASSUMPTIONS = [
    "point clouds have >= 1 point: an empty cloud is written as 'points: []' which carries no dimension and is outside the stated domain",
    "coordinates are finite or NaN (infinities are refused by the JSON writer and are not 'missing values')",
    "the normalised import of level k is accepted within 1 ulp of k/255 (the importer multiplies by 1/255) and must round back to k; uint8 imports must equal k exactly",
    "float images are compared with |delta| < 1/255 exactly as stated (not the tighter 0.5/255 that rounding gives)",
    "the image exporter supports 1 or 3 channels only (documented ValueError for 4): alpha/mask export is not promised and not checked; RGBA is exercised on the import side from Pillow-written files",
    "export_video is exercised only for the overwrite clause (ffmpeg is absent: a permitted export fails with FileNotFoundError, which is classified, not judged)",
    "paths: str or pathlib.Path, relative to a cwd inside the temp tree or absolute, with '.', '..' segments; no '~' or '$VAR' spellings",
    "pickled containers (list/dict of objects) are outside the statement ('any menpo object'); only menpo objects are pickled",
    "jpeg is used only as an overwrite target, never for exactness",
    "generated image clauses run with Pillow fully initialised (PIL.Image.init() at module import) so that a case does not depend on what the worker process did before; the dependence on Pillow's lazy plugin registry is checked separately in fresh interpreters (image_fresh_process)",
    "for a bare shape written to .ljson and for .pts files the single returned group is used whatever its name (only managers / dicts promise group names)",
]

_SKIP_PATH = (".path",)


# ==============================================================================================
# helpers


class _Tmp(object):
    """Per-case temporary directory; optional cwd change restored on exit."""

    def __init__(self):
        self._td = None
        self._old = None
        self.root = None

    def __enter__(self):
        self._td = tempfile.TemporaryDirectory(prefix="verif-c16-")
        self.root = os.path.realpath(self._td.name)
        # spellings through ~ and $VERIF_IO_DIR resolve into the per-case directory
        self._env = {k: os.environ.get(k) for k in ("HOME", "VERIF_IO_DIR")}
        os.environ["HOME"] = self.root
        os.environ["VERIF_IO_DIR"] = self.root
        return self

    def chdir(self, sub):
        self._old = os.getcwd()
        os.chdir(os.path.join(self.root, sub))

    def __exit__(self, *exc):
        try:
            if self._old is not None:
                os.chdir(self._old)
        finally:
            for k, v in getattr(self, "_env", {}).items():
                if v is None:
                    os.environ.pop(k, None)
                else:
                    os.environ[k] = v
            self._td.cleanup()
        return False


def _as_fp(path_str, as_path):
    return Path(path_str) if as_path else path_str


def _undirected(pairs):
    return sorted(set((min(int(a), int(b)), max(int(a), int(b))) for a, b in pairs))


def expected_edges(case):
    """Undirected edge set of a shape case, from the plain data only."""
    kind = case["kind"]
    if kind in ("TriMesh", "ColouredTriMesh", "TexturedTriMesh"):
        e = []
        for a, b, c in case["tri"]:
            e += [(a, b), (b, c), (c, a)]
        return _undirected(e)
    if "edges" in case:
        return _undirected(case["edges"])
    return []


def adjacency_edges(shape):
    """Undirected edge set of an imported shape, read off its adjacency matrix."""
    adj = getattr(shape, "adjacency_matrix", None)
    if adj is None:
        return []
    coo = adj.tocoo()
    return _undirected([(r, c) for r, c, v in zip(coo.row, coo.col, coo.data) if v != 0])


AWKWARD = [0.1 + 0.2, 1.0 / 3.0, -0.0, 1e-300, -1e300, 5e-324, 123456789.123456789, 2.0 ** -40, -1e-7, 1e21, 4.35, 0.30000000000000004]


LM_KINDS = objs.SHAPE_KINDS + ["LabelledPointUndirectedGraph"] * 3 + ["PointUndirectedGraph", "PointDirectedGraph"]


@st.composite
def lm_shape_case(draw, d, kinds=None):
    """objs.shape_case (no nested landmarks) + NaN positions, awkward values and a points dtype."""
    c = draw(objs.shape_case(kinds=kinds or LM_KINDS, d=d, with_landmarks=False))
    n = len(c["pts"])
    nan_mode = draw(st.sampled_from(["none", "few", "few", "prefix"]))
    if nan_mode == "none":
        c["nan"] = []
    elif nan_mode == "few":
        c["nan"] = draw(st.lists(st.tuples(st.integers(0, n - 1), st.integers(0, d - 1)).map(list), min_size=1, max_size=3))
    else:  # a row-major prefix of the coordinate table, up to all of it
        c["nan"] = [[i, j] for i in range(n) for j in range(d)][: draw(st.integers(1, n * d))]
    c["awk"] = draw(st.lists(st.tuples(st.integers(0, n - 1), st.integers(0, d - 1), st.integers(0, len(AWKWARD) - 1)).map(list), max_size=3))
    c["dtype"] = draw(st.sampled_from(["float64", "float64", "float64", "float32", "int"]))
    return c


def build_lm_shape(c):
    """Returns (shape, expected float64 coordinates)."""
    s = objs.build_shape(c)
    pts = np.array(c["pts"], dtype=float)
    for i, j, k in c["awk"]:
        pts[i, j] = AWKWARD[k]
    if c["dtype"] == "float32":
        with np.errstate(over="ignore", under="ignore"):
            pts = pts.astype(np.float32)
        pts[~np.isfinite(pts)] = 1.5  # 1e300 overflows float32
    elif c["dtype"] == "int":
        pts = np.round(np.clip(pts, -1e6, 1e6)).astype(int)
    if c["dtype"] != "int":
        for i, j in c["nan"]:
            pts[i, j] = np.nan
    s.points = pts
    return s, np.array(pts, dtype=np.float64)


def check_landmark_shape(ctx, c, want_pts, back, tag):
    """The four promises for one group: coordinates, undirected edges, ordered labels + masks."""
    if not ctx.expect(isinstance(back, PointCloud), tag + ".type", lambda: type(back).__name__):
        return
    bp = np.asarray(back.points)
    ok = bp.shape == want_pts.shape and np.array_equal(bp.astype(float), want_pts, equal_nan=True)
    if not ok:
        nan_moved = bp.shape == want_pts.shape and not np.array_equal(np.isnan(bp), np.isnan(want_pts))
        ctx.fail(
            tag + (".nan_positions" if nan_moved else ".coordinates"),
            "kind=%s dtype=%s\nwant %r\ngot  %r" % (c["kind"], c["dtype"], want_pts.tolist(), bp.tolist()),
        )
    we, ge = expected_edges(c), adjacency_edges(back)
    ctx.expect(we == ge, tag + ".edges", lambda: "kind=%s want %r got %r" % (c["kind"], we, ge))
    want_labels = [nm for nm, _ in c.get("labels", [])]
    got_labels = list(getattr(back, "labels", []))
    if ctx.expect(got_labels == want_labels, tag + ".label_order" if sorted(got_labels) == sorted(want_labels) else tag + ".labels",
                  lambda: "want %r got %r" % (want_labels, got_labels)):
        for nm, mask in c.get("labels", []):
            gm = np.asarray(back._labels_to_masks[nm])
            ctx.expect(gm.dtype == bool and gm.tolist() == mask, tag + ".label_mask", lambda: "label %r want %r got %r" % (nm, mask, gm.tolist()))


# ==============================================================================================
# 1. LJSON

GROUP_NAMES = ["g", "PTS", "LJSON", "left eye", "ü", "a.b", "x.ljson", "*", "0", "Zeta", "alpha", "a" * 20, "日本", "b/c", " "]
LJSON_FILES = ["lm.ljson", "a.b.ljson", "UP.LJSON", "ü n.ljson", "a.pts.ljson", "x.Ljson"]


def s_ljson():
    @st.composite
    def s(draw):
        form = draw(st.sampled_from(["shape", "shape", "manager", "manager", "dict"]))
        d = draw(st.sampled_from([2, 3]))
        case = {"form": form, "d": d, "file": draw(st.sampled_from(LJSON_FILES)), "as_path": draw(st.booleans()),
                "by_group": draw(st.booleans())}
        if form == "shape":
            case["groups"] = [["LJSON", draw(lm_shape_case(d))]]
        else:
            k = draw(st.integers(1, 4))
            names = draw(st.lists(st.sampled_from(GROUP_NAMES), min_size=k, max_size=k, unique=True))
            groups = []
            for nm in names:
                dd = d
                if form == "dict" and draw(st.integers(0, 3)) == 0:
                    dd = 5 - d  # plain dicts may mix 2-D and 3-D groups
                groups.append([nm, draw(lm_shape_case(dd))])
            case["groups"] = groups
        return case

    return s()


def c_ljson(case, ctx):
    form = case["form"]
    built = [(nm, c) + build_lm_shape(c) for nm, c in case["groups"]]
    has_nan = any(np.isnan(w).any() for _, _, _, w in built)
    has_labels = any(c.get("labels") for _, c, _, _ in built)
    ctx.nontrivial(has_nan or has_labels or len(built) >= 2)
    ctx.event("form=%s groups=%d" % (form, len(built)))
    for nm, c, s, w in built:
        ctx.event("kind=%s d=%d" % (c["kind"], c["d"]))
        ctx.event("dtype=" + c["dtype"])
        if np.isnan(w).any():
            ctx.event("nan=all" if np.isnan(w).all() else "nan=some")
        if c["kind"] not in ("PointCloud",) and not expected_edges(c):
            ctx.event("empty edge set on a graph class")
        if len(c.get("labels", [])) >= 2:
            names = [x for x, _ in c["labels"]]
            ctx.event("labels unsorted" if names != sorted(names) else "labels sorted")
    if form == "shape":
        obj = built[0][2]
    elif form == "manager":
        host = PointCloud(np.zeros((1, case["d"])))
        for nm, c, s, w in built:
            host.landmarks[nm] = s
        obj = host.landmarks
    else:
        obj = OrderedDict((nm, s) for nm, c, s, w in built)
    with _Tmp() as t:
        p = os.path.join(t.root, case["file"])
        try:
            mio.export_landmark_file(obj, _as_fp(p, case["as_path"]))
        except ValueError as e:
            # defect class (repaired in /repo): the multi-group guard of export_landmark_file compared Path.suffix
            # with '.ljson' case-sensitively, while every other extension decision in menpo.io is case-insensitive
            if form != "shape" and not case["file"].endswith(".ljson") and str(e).startswith("Only the LJSON format supports multiple"):
                ctx.fail("ljson.multi_group_refused.non_lowercase_extension",
                         "export_landmark_file(<%s of %d groups>, %r) raised %r although the same name is accepted for a single shape"
                         % (form, len(built), case["file"], e))
                return
            raise
        back = mio.import_landmark_file(_as_fp(p, not case["as_path"]))
        if not ctx.expect(isinstance(back, dict), "ljson.result_type", lambda: type(back).__name__):
            return
        if form == "shape":
            # a bare shape has no group name of its own: it must come back as exactly one group
            if ctx.expect(len(back) == 1, "ljson.single_shape_groups", lambda: repr(list(back.keys()))):
                nm, c, s, w = built[0]
                check_landmark_shape(ctx, c, w, list(back.values())[0], "ljson")
            return
        want_names = sorted(nm for nm, _, _, _ in built)
        got_names = sorted(back.keys())
        if not ctx.expect(got_names == want_names, "ljson.group_names", lambda: "want %r got %r" % (want_names, got_names)):
            return
        for nm, c, s, w in built:
            check_landmark_shape(ctx, c, w, back[nm], "ljson")
        if case["by_group"]:
            nm, c, s, w = built[-1]
            if nm:  # an empty group name means 'no group' to import_landmark_file
                one = mio.import_landmark_file(p, group=nm)
                check_landmark_shape(ctx, c, w, one, "ljson.group_kwarg")


# ==============================================================================================
# 2. PTS

PTS_FILES = ["p.pts", "p.q.pts", "P.PTS", "a.ljson.pts"]


def _coord():
    return st.one_of(
        gen.q(0, 5000),
        st.integers(0, 5000000).map(lambda k: k / 1000.0),
        st.integers(0, 10000000).map(lambda k: k / 2000.0),
        st.floats(min_value=0.0, max_value=5000.0, allow_nan=False, allow_infinity=False),
        st.sampled_from([0.0, 5000.0, 0.0005, 4999.9995, 1e-9, 0.9995]),
    )


def s_pts():
    @st.composite
    def s(draw):
        # the quantifier includes 3-D shapes: one case in eight is 3-D (point clouds and graphs; meshes alike)
        d = draw(st.sampled_from([2, 2, 2, 2, 2, 2, 2, 3]))
        c = draw(objs.shape_case(d=d, with_landmarks=False))
        n = len(c["pts"])
        c["pts"] = draw(st.lists(st.lists(_coord(), min_size=d, max_size=d), min_size=n, max_size=n))
        return {"shape": c, "file": draw(st.sampled_from(PTS_FILES)), "as_path": draw(st.booleans())}

    return s()


def c_pts(case, ctx):
    c = case["shape"]
    s = objs.build_shape(c)
    want = np.array(c["pts"], dtype=float)
    ctx.event("kind=" + c["kind"])
    ctx.nontrivial(bool((np.abs(want[:, 0] - want[:, 1]) > 0.01).any()))
    ctx.event("d=%d" % want.shape[1])
    with _Tmp() as t:
        p = os.path.join(t.root, case["file"])
        try:
            mio.export_landmark_file(s, _as_fp(p, case["as_path"]))
        except ValueError as e:
            # a format that cannot hold the data may refuse it (never for 2-D)
            ctx.expect(want.shape[1] != 2, "pts.2d_export_refused", str(e))
            ctx.expect(not os.path.exists(p) or os.path.getsize(p) == 0, "pts.refused_export_left_data_behind", p)
            return
        res = mio.import_landmark_file(_as_fp(p, not case["as_path"]))
        if not ctx.expect(isinstance(res, dict) and len(res) == 1, "pts.result", lambda: repr(res)):
            return
        back = list(res.values())[0]
    if want.shape[1] == 3 and isinstance(back, PointCloud) and back.points.shape == (want.shape[0], 2):
        # exactly this: the export was accepted and the third coordinate is gone
        ctx.fail("pts.3d_truncated_to_2d", "3-D %s with %d points came back with shape %r" % (c["kind"], want.shape[0], back.points.shape))
        return
    if not ctx.expect(isinstance(back, PointCloud) and back.points.shape == want.shape, "pts.shape",
                      lambda: "%s %r" % (type(back).__name__, getattr(back, "points", np.zeros(0)).shape)):
        return
    delta = np.abs(back.points - want)
    if delta.max() > 0.5e-3 + 1e-9:
        swapped = np.abs(back.points[:, ::-1] - want).max() <= 0.5e-3 + 1e-9
        ctx.fail("pts.axis_order" if swapped else "pts.precision",
                 "max |delta| = %.6g\nwant %r\ngot  %r" % (delta.max(), want.tolist(), back.points.tolist()))


# ==============================================================================================
# 3. pickle / gzip pickle

PKL_FILES = ["o.pkl", "o.p.pkl", "UP.PKL", "o.pkl.gz", "x.tar.pkl.gz", "w.PKL.GZ", "m.pkl.GZ"]
PKL_WHAT = ["shape", "shape", "manager", "transform", "transform", "image", "image", "pca_shape", "pca_image", "pca_vector"]


def s_pickle():
    @st.composite
    def s(draw):
        what = draw(st.sampled_from(PKL_WHAT))
        case = {"what": what, "file": draw(st.sampled_from(PKL_FILES)), "as_path": draw(st.booleans()),
                "protocol": draw(st.sampled_from([None, None, 0, 1, 2, 3, 4, 5])), "path_attr": draw(st.booleans())}
        if what in ("shape", "manager"):
            case["obj"] = draw(objs.shape_case())
        elif what == "transform":
            case["obj"] = draw(objs.transform_case())
        elif what == "image":
            case["obj"] = draw(objs.image_case(smin=1, smax=12))
        else:
            case["obj"] = {"seed": draw(st.integers(0, 2 ** 16)), "n_samples": draw(st.integers(2, 6)),
                           "n": draw(st.integers(2, 6)), "d": draw(st.sampled_from([2, 3])),
                           "centre": draw(st.booleans()), "trim": draw(st.sampled_from([None, 1, 2]))}
        return case

    return s()


def build_pickle_obj(case):
    from menpo.model import PCAModel, PCAVectorModel

    what, c = case["what"], case["obj"]
    if what == "shape":
        return objs.build_shape(c)
    if what == "manager":
        s = objs.build_shape(c)
        if not c.get("lms"):
            s.landmarks["only"] = PointCloud(np.array(c["pts"], dtype=float))
        return s.landmarks
    if what == "transform":
        return objs.build_transform(c)
    if what == "image":
        return objs.build_image(c)
    rs = np.random.RandomState(c["seed"])
    if what == "pca_shape":
        m = PCAModel([PointCloud(rs.rand(c["n"], c["d"]) * 10) for _ in range(c["n_samples"])], centre=c["centre"])
    elif what == "pca_image":
        m = PCAModel([Image(rs.rand(1, c["n"], c["n"] + 1)) for _ in range(c["n_samples"])], centre=c["centre"])
    else:
        m = PCAVectorModel(rs.rand(c["n_samples"], c["n"] * c["d"]), centre=c["centre"])
    if c["trim"] is not None and m.n_components > c["trim"]:
        m.trim_components(c["trim"])
    return m


def c_pickle(case, ctx):
    obj = build_pickle_obj(case)
    gz = case["file"].lower().endswith(".gz")
    ctx.event("class=" + type(obj).__name__)
    ctx.event("gz=%s protocol=%s" % (gz, case["protocol"]))
    with _Tmp() as t:
        p = os.path.join(t.root, case["file"])
        if case["path_attr"] and hasattr(obj, "__dict__"):
            obj.path = Path(t.root) / "source" / "asset.png"
            ctx.event("path attribute set")
        kw = {} if case["protocol"] is None else {"protocol": case["protocol"]}
        mio.export_pickle(obj, _as_fp(p, case["as_path"]), **kw)
        with open(p, "rb") as f:
            head = f.read(2)
        ctx.event("gzip header" if head == b"\x1f\x8b" else "plain header")
        back = mio.import_pickle(_as_fp(p, not case["as_path"]))
    n_arrays = sum(1 for _, leaf in digest.walk(obj) if isinstance(leaf, np.ndarray) and leaf.size)
    ctx.nontrivial(n_arrays >= 1)
    diff = digest.state_diff(obj, back, skip=_SKIP_PATH, memo_tolerant=True)
    ctx.expect(diff is None, "pickle.state", lambda: "%s via %s: %s" % (type(obj).__name__, case["file"], diff))


# ==============================================================================================
# 4. images

IMG_EXTS = ["tif", "png", "bmp", "tiff", "PNG", "png", "Tiff", "BMP", "dib", "ppm"]
# levels whose normalised form k * (1/255) falls just below k/255, so that truncating x * 255 loses one level
BAD_LEVELS = [k for k in range(256) if int(k * (1.0 / 255.0) * 255.0) != k]


def levels(case):
    """uint8 array (ch, h, w) covering min(size, 256) distinct values: start + step * index (step odd) mod 256,
    visited in a seeded permutation."""
    ch, (h, w) = case["ch"], case["shape"]
    size = ch * h * w
    k = (case["start"] + case["step"] * np.arange(size)) % 256
    rs = np.random.RandomState(case["seed"])
    if case["fill"] == "random":
        k = rs.randint(0, 256, size=size)
    elif case["fill"] == "bad":
        k = np.array(BAD_LEVELS)[rs.randint(0, len(BAD_LEVELS), size=size)]
    else:
        k = k[rs.permutation(size)]
    return k.reshape(ch, h, w).astype(np.uint8)


@st.composite
def img_common(draw):
    cls = draw(st.sampled_from(["Image", "Image", "MaskedImage", "BooleanImage"]))
    big = draw(st.integers(0, 3)) > 0
    shape = draw(st.lists(st.integers(8 if big else 1, 40), min_size=2, max_size=2))
    c = {"cls": cls, "shape": shape, "ch": 1 if cls == "BooleanImage" else draw(st.sampled_from([1, 3])),
         "seed": draw(st.integers(0, 2 ** 16)), "ext": draw(st.sampled_from(IMG_EXTS)),
         "stem": draw(st.sampled_from(["im", "a.b", "ü x", "im.png"])), "as_path": draw(st.booleans())}
    if cls == "MaskedImage":
        c["mask"] = draw(st.sampled_from(["all", "random", "blob", "single"]))
    return c


def s_image8():
    @st.composite
    def s(draw):
        c = draw(img_common())
        c["start"] = draw(st.integers(0, 255))
        c["step"] = 2 * draw(st.integers(0, 127)) + 1
        c["fill"] = draw(st.sampled_from(["ramp", "ramp", "random", "bad"]))
        c["repr"] = draw(st.sampled_from(["div", "div", "mul", "float32", "uint8"]))
        return c

    return s()


def build_img(c, px):
    if c["cls"] == "BooleanImage":
        return BooleanImage(px[0].astype(bool))
    if c["cls"] == "MaskedImage":
        rs = np.random.RandomState(c["seed"] + 1)
        return MaskedImage(px, mask=objs._mask_array(c["mask"], tuple(c["shape"]), rs))
    return Image(px)


def to8(px):
    """Pixel data of an imported/constructed image as 8-bit levels."""
    px = np.asarray(px)
    if px.dtype == bool:
        return px.astype(np.uint8) * 255
    if px.dtype == np.uint8:
        return px
    return np.round(px.astype(np.float64) * 255.0).astype(np.int64)


def check_norm_import(ctx, im, k, tag):
    """A normalised import of levels k: float64, within 1 ulp of k/255, rounding back to k."""
    px = im.pixels
    if not ctx.expect(px.shape == k.shape, tag + ".shape", lambda: "%r vs %r" % (px.shape, k.shape)):
        return False
    ok = px.dtype == np.float64 and np.array_equal(to8(px), k) and np.abs(px - k / 255.0).max() <= 1.2e-16
    if not ok:
        bad = np.argwhere(to8(px) != k)
        ctx.fail(tag + ".levels", lambda: "dtype %s; %d of %d pixels differ; first: level %s came back as %s" % (
            px.dtype, len(bad), k.size, k[tuple(bad[0])] if len(bad) else "-", to8(px)[tuple(bad[0])] if len(bad) else "-"))
    return ok


def check_raw_import(ctx, im, k, tag):
    px = im.pixels
    if not ctx.expect(px.shape == k.shape, tag + ".shape", lambda: "%r vs %r" % (px.shape, k.shape)):
        return False
    ok = px.dtype == np.uint8 and np.array_equal(px, k)
    if not ok:
        bad = np.argwhere(px != k)
        ctx.fail(tag + ".levels", lambda: "dtype %s; %d of %d pixels differ; first: level %s came back as %s" % (
            px.dtype, len(bad), k.size, k[tuple(bad[0])] if len(bad) else "-", px[tuple(bad[0])] if len(bad) else "-"))
    return ok


def c_image8(case, ctx):
    k = levels(case)
    if case["cls"] == "BooleanImage":
        k = (k >= 128).astype(np.uint8) * 255
        im = build_img(case, k > 0)
    else:
        if case["repr"] == "div":
            px = k / 255.0
        elif case["repr"] == "mul":
            px = k * (1.0 / 255.0)
        elif case["repr"] == "float32":
            px = (k / 255.0).astype(np.float32)
        else:
            px = k.copy()
        im = build_img(case, px)
    distinct = len(np.unique(k))
    ctx.nontrivial(distinct >= 64)
    ctx.event("cls=%s ch=%d" % (case["cls"], case["ch"]))
    ctx.event("ext=" + case["ext"].lower())
    ctx.event("repr=" + (case["repr"] if case["cls"] != "BooleanImage" else "bool"))
    ctx.event("distinct>=256" if distinct >= 256 else "distinct>=64" if distinct >= 64 else "distinct<64")
    if min(case["shape"]) == 1:
        ctx.event("a side of 1")
    with _Tmp() as t:
        p = os.path.join(t.root, case["stem"] + "." + case["ext"])
        mio.export_image(im, _as_fp(p, case["as_path"]))
        raw = mio.import_image(_as_fp(p, not case["as_path"]), normalize=False)
        nrm = mio.import_image(p)
        check_raw_import(ctx, raw, k, "image8.export_import_uint8")
        ok = check_norm_import(ctx, nrm, k, "image8.export_import")
        # second generation: import -> export -> import is the identity
        p2 = os.path.join(t.root, "second." + case["ext"])
        mio.export_image(nrm, _as_fp(p2, case["as_path"]))
        nrm2 = mio.import_image(p2)
        ctx.expect(nrm2.pixels.dtype == nrm.pixels.dtype and np.array_equal(nrm2.pixels, nrm.pixels),
                   "image8.import_export_import", lambda: "max |delta| %.3g" % np.abs(nrm2.pixels - nrm.pixels).max())
        p3 = os.path.join(t.root, "third." + case["ext"])
        mio.export_image(raw, p3)
        raw2 = mio.import_image(p3, normalize=False)
        ctx.expect(raw2.pixels.dtype == raw.pixels.dtype and np.array_equal(raw2.pixels, raw.pixels),
                   "image8.import_export_import_uint8", "")
    return ok


def s_imagef():
    @st.composite
    def s(draw):
        c = draw(img_common())
        if c["cls"] == "BooleanImage":
            c["cls"] = "Image"
            c["ch"] = draw(st.sampled_from([1, 3]))
        c["dtype"] = draw(st.sampled_from(["float64", "float64", "float32"]))
        c["mode"] = draw(st.sampled_from(["uniform", "uniform", "ties", "near_level", "extremes"]))
        c["special"] = draw(st.lists(gen.q(0, 1, 1 << 20), max_size=4))
        return c

    return s()


def c_imagef(case, ctx):
    ch, (h, w) = case["ch"], case["shape"]
    rs = np.random.RandomState(case["seed"])
    size = ch * h * w
    if case["mode"] == "uniform":
        v = rs.rand(size)
    elif case["mode"] == "ties":
        v = (rs.randint(0, 255, size=size) + 0.5) / 255.0
    elif case["mode"] == "near_level":
        v = np.clip(rs.randint(0, 256, size=size) / 255.0 + (rs.rand(size) - 0.5) * 1e-6, 0, 1)
    else:
        v = rs.choice([0.0, 1.0, 1e-12, 1 - 1e-12, 0.5, 0.998, 0.002], size=size)
    for i, x in enumerate(case["special"]):
        v[i % size] = x
    px = v.reshape(ch, h, w).astype(case["dtype"])
    px = np.clip(px, 0, 1)
    im = build_img(case, px)
    ctx.event("cls=%s ch=%d dtype=%s" % (case["cls"], ch, case["dtype"]))
    ctx.event("mode=" + case["mode"])
    ctx.event("ext=" + case["ext"].lower())
    ctx.nontrivial(len(np.unique(np.floor(px.astype(float) * 255))) >= 64 or case["mode"] == "extremes")
    with _Tmp() as t:
        p = os.path.join(t.root, case["stem"] + "." + case["ext"])
        mio.export_image(im, _as_fp(p, case["as_path"]))
        back = mio.import_image(_as_fp(p, not case["as_path"]))
        if not ctx.expect(back.pixels.shape == px.shape, "imagef.shape", lambda: "%r vs %r" % (back.pixels.shape, px.shape)):
            return
        delta = np.abs(back.pixels.astype(np.float64) - px.astype(np.float64))
        ctx.expect(delta.max() < 1.0 / 255.0, "imagef.quantisation_level", lambda: "max |delta| = %.9g = %.4f levels at value %.17g" % (
            delta.max(), delta.max() * 255, px.ravel()[int(delta.argmax())]))
        # the import is 8-bit data now: export -> import is the identity
        p2 = os.path.join(t.root, "second." + case["ext"])
        mio.export_image(back, p2)
        again = mio.import_image(p2)
        ctx.expect(np.array_equal(again.pixels, back.pixels), "imagef.import_export_import",
                   lambda: "max |delta| %.3g" % np.abs(again.pixels - back.pixels).max())


SRC_MODES = ["L", "RGB", "RGBA", "P", "1"]


def s_reimport():
    @st.composite
    def s(draw):
        mode = draw(st.sampled_from(SRC_MODES))
        big = draw(st.integers(0, 3)) > 0
        c = {"mode": mode, "shape": draw(st.lists(st.integers(6 if big else 1, 40), min_size=2, max_size=2)),
             "seed": draw(st.integers(0, 2 ** 16)), "start": draw(st.integers(0, 255)), "step": 2 * draw(st.integers(0, 127)) + 1,
             "fill": draw(st.sampled_from(["ramp", "ramp", "random", "bad"])), "normalize": draw(st.sampled_from([True, True, False, None])),
             "as_path": draw(st.booleans())}
        if mode in ("L", "RGB"):
            c["src_ext"] = draw(st.sampled_from(["png", "bmp", "tif", "tiff", "PNG", "ppm"]))
        elif mode == "RGBA":
            c["src_ext"] = draw(st.sampled_from(["png", "tif"]))
            c["alpha"] = draw(st.sampled_from(["opaque", "random", "binary"]))
        else:
            c["src_ext"] = draw(st.sampled_from(["png", "tif", "bmp"]))
        c["out_ext"] = draw(st.sampled_from(IMG_EXTS))
        return c

    return s()


def c_reimport(case, ctx):
    import PIL.Image as PILImage

    mode, (h, w) = case["mode"], case["shape"]
    rs = np.random.RandomState(case["seed"] + 7)
    nch = {"L": 1, "RGB": 3, "RGBA": 3, "P": 1, "1": 1}[mode]
    k = levels(dict(case, ch=nch))
    want_mask = None
    if mode == "L":
        pil = PILImage.fromarray(k[0], mode="L")
        want = k
    elif mode == "RGB":
        pil = PILImage.fromarray(np.ascontiguousarray(np.moveaxis(k, 0, -1)), mode="RGB")
        want = k
    elif mode == "RGBA":
        if case["alpha"] == "opaque":
            a = np.full((h, w), 255, dtype=np.uint8)
        elif case["alpha"] == "binary":
            a = (rs.rand(h, w) > 0.4).astype(np.uint8) * 255
        else:
            a = rs.randint(0, 256, size=(h, w)).astype(np.uint8)
        pil = PILImage.fromarray(np.ascontiguousarray(np.concatenate([np.moveaxis(k, 0, -1), a[..., None]], axis=-1)), mode="RGBA")
        want = k
        want_mask = a != 0
    elif mode == "P":
        palette = rs.randint(0, 256, size=(256, 3)).astype(np.uint8)
        pil = PILImage.fromarray(k[0], mode="P")
        pil.putpalette(palette.ravel().tolist())
        want = np.moveaxis(palette[k[0]], -1, 0)
    else:
        bits = k[0] >= 128
        pil = PILImage.fromarray(bits.astype(np.uint8) * 255, mode="L").convert("1", dither=PILImage.Dither.NONE)
        want = (bits.astype(np.uint8) * 255)[None]
    normalize = case["normalize"]
    kw = {} if normalize is None else {"normalize": normalize}
    norm = normalize is not False
    distinct = len(np.unique(want))
    ctx.nontrivial(distinct >= 64 or mode == "1")
    ctx.event("mode=%s normalize=%s" % (mode, normalize))
    ctx.event("src=%s out=%s" % (case["src_ext"].lower(), case["out_ext"].lower()))
    with _Tmp() as t:
        src = os.path.join(t.root, "src." + case["src_ext"])
        pil.save(src)
        with PILImage.open(src) as chk:
            opened_mode = chk.mode
        if opened_mode != mode:
            # Pillow itself re-encodes some mode/format pairs (e.g. 1-bit BMP opens as 'P'): note it and
            # judge by what the file now holds
            ctx.event("pillow stored %s as %s" % (mode, opened_mode))
            return
        im1 = mio.import_image(_as_fp(src, case["as_path"]), **kw)
        # --- what the import must hold (independent of menpo: the arrays written above)
        ctx.event("first import class=" + type(im1).__name__)
        if mode == "1":
            ctx.expect(im1.pixels.shape == want.shape and np.array_equal(to8(im1.pixels), want), "reimport.first.levels", "mode 1")
        elif mode == "RGBA" and not norm:
            full = np.concatenate([want, (np.asarray(pil)[..., 3])[None]], axis=0)
            check_raw_import(ctx, im1, full, "reimport.first_uint8")
        elif norm:
            check_norm_import(ctx, im1, want, "reimport.first")
        else:
            check_raw_import(ctx, im1, want, "reimport.first_uint8")
        # --- export and re-import
        out = os.path.join(t.root, "out." + case["out_ext"])
        if im1.n_channels == 4:
            try:
                mio.export_image(im1, out)
                ctx.fail("reimport.four_channels_not_refused", "")
            except ValueError:
                ctx.event("4-channel export refused (documented)")
            return
        mio.export_image(im1, _as_fp(out, not case["as_path"]))
        im2 = mio.import_image(out, **kw)
        if not ctx.expect(im2.pixels.shape == im1.pixels.shape, "reimport.second.shape", lambda: "%r vs %r" % (im2.pixels.shape, im1.pixels.shape)):
            return
        ctx.expect(np.array_equal(to8(im2.pixels), to8(im1.pixels)) and np.array_equal(to8(im2.pixels), want), "reimport.second.levels",
                   lambda: "%d pixels differ" % int((to8(im2.pixels) != want).sum()))
        if im1.pixels.dtype == im2.pixels.dtype:
            ctx.expect(np.array_equal(im1.pixels, im2.pixels), "reimport.second.exact", lambda: "max |delta| %.3g" % np.abs(
                im1.pixels.astype(float) - im2.pixels.astype(float)).max())
        else:
            ctx.expect(mode == "1", "reimport.second.dtype", lambda: "%s vs %s" % (im1.pixels.dtype, im2.pixels.dtype))


# ---- the same history in a fresh interpreter (Pillow's plugin registry starts empty there)

_FRESH_SCRIPT = r"""
import sys, json, warnings
warnings.filterwarnings("ignore")
sys.path.insert(0, sys.argv[1])
import numpy as np
import menpo.io as mio
src, out, normalize, first = sys.argv[2], sys.argv[3], sys.argv[4] == "1", sys.argv[5]
def lv(px):
    px = np.asarray(px)
    if px.dtype == bool: return (px.astype(np.uint8) * 255).tolist()
    if px.dtype == np.uint8: return px.tolist()
    return np.round(px.astype(float) * 255).astype(int).tolist()
if first == "import":
    im = mio.import_image(src, normalize=normalize)
else:
    from menpo.image import Image
    import PIL.Image
    im = Image(np.load(src) / 255.0)
res = {"first": lv(im.pixels)}
try:
    mio.export_image(im, out)
except ValueError as e:
    res["refused"] = str(e)
    print(json.dumps(res)); sys.exit(0)
im2 = mio.import_image(out, normalize=normalize)
res["second"] = lv(im2.pixels)
res["exact"] = bool(im2.pixels.dtype == im.pixels.dtype and np.array_equal(im2.pixels, im.pixels))
print(json.dumps(res))
"""


def enum_fresh(tier):
    cases = []
    srcs = ["png", "bmp", "tif", "construct"]
    outs = ["png", "bmp", "tif", "tiff", "dib", "ppm"]
    for si, src in enumerate(srcs):
        for oi, out in enumerate(outs):
            for normalize in (True, False):
                if src == "construct" and not normalize:
                    continue
                if tier == "quick" and (si + oi + int(normalize)) % 3 != 0:
                    continue
                cases.append({"src": src, "out": out, "normalize": normalize, "ch": 3 if (si + oi) % 2 else 1})
    return cases


def c_fresh(case, ctx):
    import json
    import subprocess
    import sys
    from vlib.runner import REPO

    ch = case["ch"]
    k = levels({"ch": ch, "shape": [9, 11], "start": 5, "step": 37, "seed": 3, "fill": "ramp"})
    ctx.nontrivial(True)
    ctx.event("first=%s out=%s normalize=%s" % (case["src"], case["out"], case["normalize"]))
    with _Tmp() as t:
        if case["src"] == "construct":
            src = os.path.join(t.root, "src.npy")
            np.save(src, k)
            first = "construct"
        else:
            src = os.path.join(t.root, "src." + case["src"])
            mode = "L" if ch == 1 else "RGB"
            data = k[0] if ch == 1 else np.ascontiguousarray(np.moveaxis(k, 0, -1))
            _PILImage.frombytes(mode, (k.shape[2], k.shape[1]), data.tobytes()).save(src)
            first = "import"
        out = os.path.join(t.root, "out." + case["out"])
        pr = subprocess.run([sys.executable, "-c", _FRESH_SCRIPT, REPO, src, out, "1" if case["normalize"] else "0", first],
                            capture_output=True, text=True, timeout=600, cwd=t.root)
    if pr.returncode != 0:
        ctx.fail("fresh_process.crash", pr.stderr[-1200:])
        return
    res = json.loads(pr.stdout.strip().splitlines()[-1])
    ctx.expect(np.array_equal(np.array(res["first"]), k), "fresh_process.first.levels", "")
    if "refused" in res:
        if "does not support the provided extension" in res["refused"]:
            ctx.fail("fresh_process.export_refused.pillow_partially_initialised",
                     "fresh interpreter: import_image('src.%s') then export_image(im, 'out.%s') raised ValueError(%r)"
                     % (case["src"], case["out"], res["refused"]))
        else:
            ctx.fail("fresh_process.export_refused", res["refused"])
        return
    ctx.expect(np.array_equal(np.array(res["second"]), k), "fresh_process.second.levels", "")
    if first == "import":  # a constructed k/255.0 and the imported k*(1/255) may differ by one ulp
        ctx.expect(res["exact"], "fresh_process.second.exact", "")


# ==============================================================================================
# 5. overwrite protection (histories)

# exporter kind -> legal file names (dotted stems, compound and upper-case extensions)
HIST_FILES = {
    "landmark": ["a.ljson", "a.b.ljson", "C.LJSON", "p.pts", "p.q.PTS"],
    "image": ["i.png", "i.j.PNG", "k.bmp", "t.u.tiff", "g.jpg", "anim.gif"],
    "pickle": ["o.pkl", "o.pkl.gz", "x.tar.pkl.gz", "y.z.PKL", "w.PKL.GZ"],
    "video": ["v.mp4", "v.w.avi", "anim.gif", "M.MKV"],
}
DIRS = ["work", "work/sub", "other"]  # cwd is <root>/work


def spellings(root, d, name):
    """Every spelling used for file <root>/<d>/<name> when cwd = <root>/work: (text, is_absolute)."""
    absdir = os.path.join(root, d)
    out = [os.path.join(absdir, name), os.path.join(root, "work", "..", d, name), os.path.join(absdir, ".", name)]
    if d == "work":
        rel = [name, "./" + name, "sub/../" + name, "../work/" + name]
    elif d == "work/sub":
        rel = ["sub/" + name, "./sub/" + name, "sub/./" + name, "../work/sub/" + name]
    else:
        rel = ["../other/" + name, "./../other/" + name, "sub/../../other/" + name]
    return [(s, True) for s in out] + [(s, False) for s in rel]


def s_history():
    @st.composite
    def s(draw):
        # a small pool of target files so that steps collide
        nfiles = draw(st.integers(1, 3))
        pool = []
        for _ in range(nfiles):
            kind = draw(st.sampled_from(["landmark", "image", "pickle", "video"]))
            pool.append([draw(st.sampled_from(DIRS)), draw(st.sampled_from(HIST_FILES[kind]))])
        steps = []
        for _ in range(draw(st.integers(3, 10))):
            f = draw(st.integers(0, nfiles - 1))
            op = draw(st.sampled_from(["export", "export", "export", "export", "import", "seed"]))
            steps.append({"op": op, "file": f, "spelling": draw(st.integers(0, 6)), "as_path": draw(st.booleans()),
                          # pickle paths may also be spelled through the home directory or an environment variable
                          # (export_pickle / import_pickle expand both): 0 = not used
                          "expand": draw(st.sampled_from([0, 0, 0, 1, 2, 3])),
                          "overwrite": draw(st.sampled_from([False, False, True, None])),
                          "exporter": draw(st.integers(0, 3)), "ext_kw": draw(st.sampled_from([None, None, "exact", "upper", "nodot"])),
                          "tag": draw(st.integers(0, 250))})
        return {"pool": pool, "steps": steps}

    return s()


def exporters_for(name):
    """Exporter kinds that accept this file name (by its lower-cased extension)."""
    low = name.lower()
    out = []
    if low.endswith(".ljson") or low.endswith(".pts"):
        out.append("landmark")
    if low.rsplit(".", 1)[-1] in ("png", "bmp", "tiff", "jpg", "gif"):
        out.append("image")
    if low.endswith(".pkl") or low.endswith(".pkl.gz"):
        out.append("pickle")
    if low.rsplit(".", 1)[-1] in ("mp4", "avi", "gif", "mkv"):
        out.append("video")
    return out


def tagged_object(kind, tag):
    if kind == "landmark" or kind == "pickle":
        return PointCloud(np.array([[float(tag), 1.0], [2.0, float(tag) + 0.5]]))
    if kind == "image":
        return Image(np.full((1, 3, 4), tag, dtype=np.uint8))
    return [Image(np.full((1, 4, 4), tag / 255.0)), Image(np.zeros((1, 4, 4)))]


def read_tag(kind, name, fp):
    """Import the file through menpo and recover the tag written by tagged_object."""
    if kind == "landmark":
        r = mio.import_landmark_file(fp)
        pc = list(r.values())[0]
        return int(round(float(pc.points[0, 0])))
    if kind == "pickle":
        return int(round(float(mio.import_pickle(fp).points[0, 0])))
    im = mio.import_image(fp, normalize=False, landmark_resolver=None)
    return int(im.pixels[0, 0, 0])


def snapshot(root):
    out = {}
    for d in DIRS:
        for fn in os.listdir(os.path.join(root, d)):
            full = os.path.join(root, d, fn)
            if os.path.isfile(full):
                with open(full, "rb") as f:
                    out[d + "/" + fn] = f.read()
    return out


def c_history(case, ctx):
    model = {}  # "<dir>/<name>" -> bytes
    meta = {}  # "<dir>/<name>" -> (kind, tag) for files written by a menpo exporter
    had_success = False
    with _Tmp() as t:
        for d in DIRS:
            os.makedirs(os.path.join(t.root, d), exist_ok=True)
        t.chdir("work")
        for i, st_ in enumerate(case["steps"]):
            d, name = case["pool"][st_["file"]]
            key = d + "/" + name
            sp = spellings(t.root, d, name)
            text, is_abs = sp[st_["spelling"] % len(sp)]
            fp = _as_fp(text, st_["as_path"])
            spell = "%s/%s" % ("Path" if st_["as_path"] else "str", "abs" if is_abs else "rel")
            if st_["op"] == "seed":
                # a pre-existing foreign file (any exporter must refuse to clobber it)
                data = b"foreign-%d-" % st_["tag"] + bytes(range(st_["tag"] % 7 + 1))
                with open(os.path.join(t.root, d, name), "wb") as f:
                    f.write(data)
                model[key] = data
                meta.pop(key, None)
                ctx.event("op=seed")
                continue
            if st_["op"] == "import":
                if key not in meta or meta[key][0] == "video" or name.lower().endswith((".jpg", ".gif")):
                    ctx.event("op=import skipped (nothing importable)")
                    continue
                kind, tag = meta[key]
                got = read_tag(kind, name, fp)
                ctx.event("op=import " + spell)
                ctx.expect(got == tag, "history.import_stale_or_wrong." + kind, lambda: "step %d: %s holds tag %d, import gave %d" % (i, key, tag, got))
                snap = snapshot(t.root)
                ctx.expect(snap == model, "history.import_changed_files", lambda: _snapdiff(model, snap))
                continue
            # ---- export
            kinds = exporters_for(name)
            kind = kinds[st_["exporter"] % len(kinds)]
            obj = tagged_object(kind, st_["tag"])
            ow = st_["overwrite"]
            kw = {} if ow is None else {"overwrite": ow}
            if kind in ("landmark", "image") and st_["ext_kw"]:
                ext = "." + name.rsplit(".", 1)[-1]
                kw["extension"] = {"exact": ext, "upper": ext.upper(), "nodot": ext[1:]}[st_["ext_kw"]]
            fn = {"landmark": mio.export_landmark_file, "image": mio.export_image, "pickle": mio.export_pickle, "video": mio.export_video}[kind]
            ex = st_.get("expand", 0)
            if kind == "pickle" and ex:
                text = {1: "~/%s/%s", 2: "$VERIF_IO_DIR/%s/%s", 3: "${VERIF_IO_DIR}/%s/%s"}[ex] % (d, name)
                fp = _as_fp(text, st_["as_path"])
                spell = "%s/%s" % ("Path" if st_["as_path"] else "str", {1: "~", 2: "$VAR", 3: "${VAR}"}[ex])
            exists = key in model
            if kind == "video" and not exists and st_["tag"] % 2:
                # without ffmpeg a video can never be created: put a foreign file there instead
                data = b"video-%d" % st_["tag"]
                with open(os.path.join(t.root, d, name), "wb") as f:
                    f.write(data)
                model[key] = data
                meta.pop(key, None)
                ctx.event("op=seed (video target)")
                continue
            permitted = (not exists) or bool(ow)
            ctx.event("op=export %s %s %s" % (kind, spell, "refuse" if not permitted else ("replace" if exists else "fresh")))
            err = None
            try:
                fn(obj, fp, **kw)
            except OverwriteError as e:
                err = e
            except FileNotFoundError as e:
                if kind != "video" or "ffmpeg" not in str(e):
                    raise
                err = e
            snap = snapshot(t.root)
            if not permitted:
                ctx.nontrivial(had_success)
                if not isinstance(err, OverwriteError):
                    ctx.fail("history.no_overwrite_error." + kind,
                             "step %d: %s(%r, overwrite=%r) on existing %s: %s" % (i, fn.__name__, fp, ow, key, "no error" if err is None else repr(err)))
                if snap != model:
                    ctx.fail("history.clobbered." + kind, "step %d: %s(%r, overwrite=%r): %s" % (i, fn.__name__, fp, ow, _snapdiff(model, snap)))
                    model = snap
                    meta.pop(key, None)
                continue
            # permitted export
            if isinstance(err, OverwriteError):
                ctx.fail("history.spurious_overwrite_error." + kind,
                         "step %d: %s(%r, overwrite=%r), %s: %r" % (i, fn.__name__, fp, ow, "path is fresh" if not exists else "overwrite requested", err))
                ctx.expect(snap == model, "history.clobbered." + kind, lambda: _snapdiff(model, snap))
                model = snap
                continue
            if kind == "video":
                # ffmpeg is absent: nothing can be written; no other file may change
                ctx.event("video export stopped at ffmpeg")
                others_ok = {k: v for k, v in snap.items() if k != key} == {k: v for k, v in model.items() if k != key}
                ctx.expect(others_ok, "history.other_files_changed.video", lambda: _snapdiff(model, snap))
                model = snap
                continue
            had_success = True
            others_ok = {k: v for k, v in snap.items() if k != key} == {k: v for k, v in model.items() if k != key}
            ctx.expect(others_ok, "history.other_files_changed." + kind, lambda: _snapdiff(model, snap))
            if not ctx.expect(key in snap and len(snap[key]) > 0, "history.not_written." + kind,
                              lambda: "step %d: %s(%r) permitted but %s is %s" % (i, fn.__name__, fp, key, "missing" if key not in snap else "empty")):
                model = snap
                meta.pop(key, None)
                continue
            model = snap
            meta[key] = (kind, st_["tag"])
            if not name.lower().endswith((".jpg", ".gif")):
                got = read_tag(kind, name, os.path.join(t.root, d, name))
                ctx.expect(got == st_["tag"], "history.not_replaced." + kind if exists else "history.fresh_content." + kind,
                           lambda: "step %d: wrote tag %d, file holds %d" % (i, st_["tag"], got))


def _snapdiff(model, snap):
    out = []
    for k in sorted(set(model) | set(snap)):
        if k not in snap:
            out.append("%s deleted" % k)
        elif k not in model:
            out.append("%s appeared (%d bytes)" % (k, len(snap[k])))
        elif model[k] != snap[k]:
            out.append("%s changed: %d -> %d bytes (%r... -> %r...)" % (k, len(model[k]), len(snap[k]), model[k][:12], snap[k][:12]))
    return "; ".join(out) or "no difference"


CLAUSES = [
    Clause("ljson", c_ljson, s_ljson, quick=500, thorough=14000, nt_floor=0.4,
           rule="8 shape classes / LandmarkManager / dict of 1-4 groups x 2-D/3-D x NaN positions x awkward floats x float32/int points; "
                "non-trivial: labels, NaN or >= 2 groups"),
    Clause("pts", c_pts, s_pts, quick=300, thorough=8000, nt_floor=0.5,
           rule="any 2-D shape class, coordinates in [0, 5000] (k/1024, k/1000, k/2000 ties, arbitrary doubles); non-trivial: some point has x != y"),
    Clause("pickle", c_pickle, s_pickle, quick=400, thorough=10000, nt_floor=0.5,
           rule="shapes with nested landmarks, landmark managers, images, all transform classes, PCA models x .pkl/.pkl.gz x protocol; "
                "non-trivial: object holds a non-empty array"),
    Clause("image_8bit", c_image8, s_image8, quick=350, thorough=9000, nt_floor=0.4,
           rule="Image/MaskedImage/BooleanImage x 1/3 channels x shapes 1..40 x lossless formats x levels k/255 (division, multiplication, float32, uint8); "
                "non-trivial: >= 64 distinct levels"),
    Clause("image_float", c_imagef, s_imagef, quick=250, thorough=7000, nt_floor=0.4,
           rule="float32/float64 images with arbitrary values in [0,1] (uniform, half-level ties, near-level, extremes); non-trivial: >= 64 distinct levels"),
    Clause("image_reimport", c_reimport, s_reimport, quick=300, thorough=8000, nt_floor=0.4,
           rule="source files written by Pillow (L/RGB/RGBA/P/1) -> import_image(normalize=True/False/default) -> export_image -> import_image"),
    Clause("image_fresh_process", c_fresh, enumerate=enum_fresh, max_shards=12,
           rule="exhaustive: first action in a fresh interpreter (import png/bmp/tif or construct) x output format x normalize; "
                "import -> export -> import must succeed and be the identity whatever Pillow has loaded so far"),
    Clause("overwrite_history", c_history, s_history, quick=400, thorough=8000, nt_floor=0.3,
           rule="3-10 steps (export with overwrite False/True/default, import, foreign file) over 1-3 files in 3 directories, 7 spellings each, "
                "str/Path; non-trivial: a refused export after a successful one"),
]
