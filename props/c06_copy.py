"""C06 - copies are equal and fully independent; attached landmarks are owned copies."""
from collections import OrderedDict
from functools import partial

import numpy as np
from hypothesis import strategies as st

from vlib.runner import Clause
from vlib import gen, objs, digest
from vlib import refs_state as rs
from vlib.tol import close

import menpo.shape
import menpo.image
import menpo.transform
import menpo.model
import menpo.landmark
import menpo.base
import menpo.transform.rbf
import menpo.transform.piecewiseaffine.base
from menpo.base import Copyable, LazyList
from menpo.landmark import LandmarkManager
from menpo.shape import PointCloud, TriMesh, PointUndirectedGraph, LabelledPointUndirectedGraph
from menpo.image import Image, MaskedImage
from menpo.transform import Translation, Affine
from menpo.model import LinearVectorModel, MeanLinearVectorModel, PCAVectorModel, PCAModel

PROPERTY = "C06"
RULE = (
    "(objects) one object of every concrete Copyable class found by walking Copyable.__subclasses__() - 8 shape "
    "classes with 0-3 landmark groups, 3 image classes, 12 homogeneous-family transforms, TransformChain, WithDims, "
    "ThinPlateSplines (3 kernels) / CachedPWA / PythonPWA before and after an apply, both RBF kernels, LandmarkManager, "
    "LazyList, LinearVectorModel, MeanLinearVectorModel, PCAVectorModel and PCAModel (plain, reduced active count, "
    "trimmed, after increment) - is built from drawn plain data, copied, and then probed: a drawn side (original or "
    "copy) gets a sentinel written into a drawn writable buffer and 1-3 drawn public mutators applied; the other "
    "side's deep digest must not move. Non-trivial: the object has >= 2 distinct reachable buffers or a mutator ran. "
    "(histories) 4-30 landmark-manager operations drawn as data and interpreted against a pool of managers and owners "
    "(PointCloud, TriMesh, Image, MaskedImage), indices modulo pool size, group names arbitrary text incl. glob "
    "metacharacters; an ordered-dict model of numpy copies (with one identity token per stored copy) is compared after "
    "every step. Non-trivial: an assignment followed by a mutation of the assigned value, or a copy / owner assignment "
    "followed by a mutation. Distinct = distinct canonical-JSON digest of the case."
)
ASSUMPTIONS = [
    "documented sharing that is NOT a violation: _source / _target point sets of any alignment (HomogFamilyAlignment.copy "
    "is documented shallow except for the matrix), member transforms of a TransformChain (the list itself must be new), "
    "the callables of a LazyList (the list itself must be new), immutable scalars / strings",
    "_landmarks None and an empty LandmarkManager are the same observable state",
    "sparse matrices are probed through their data buffer (writing indices / indptr would only corrupt the probed side); "
    "sharing of indices / indptr is still reported by the memory-sharing query",
    "manager[name] returns the stored object itself (edits through it are visible in that manager and nowhere else); "
    "set / owner.landmarks = / copy / transform create new stored copies",
    "manager[None] / set under None / wrong dimension / non-PointCloud value: ValueError and no change, as the docstrings "
    "and messages state; lookups and deletes of a missing name: KeyError (mapping protocol)",
    "glob lookups (keys_matching / items_matching) are compared against an independent matcher for patterns made of "
    "literals, '*', '?' and one plain character class; names themselves are arbitrary text",
    "CachedPWA's memo of its last apply (_iab, a tuple of arrays replaced - never written - by apply) is shared by copy(); "
    "the property quantifies transforms over parameter arrays and public mutators, so this is recorded as an event and "
    "not reported; every public mutator is still required to leave the other side's cache untouched",
    "PCA mutators stay inside their documented domain (integer component counts in 1..n_components, increments of >= 2 "
    "samples of the right width)",
]

# ------------------------------------------------------------------------------------------ discovery
ABSTRACT = {
    "Copyable", "Vectorizable", "Targetable", "Landmarkable", "Transform", "Transformable", "Alignment",
    "ComposableTransform", "HomogFamilyAlignment", "AbstractPWA", "RadialBasisFunction", "Shape", "PointGraph",
}
WARP_KINDS = ["ThinPlateSplines", "CachedPWA", "PythonPWA"]
RBF_CLASSES = ["R2LogR2RBF", "R2LogRRBF"]
MODEL_KINDS = ["LinearVectorModel", "MeanLinearVectorModel", "PCAVectorModel", "PCAModel"]
IMAGE_KINDS = ["Image", "MaskedImage", "BooleanImage"]
OTHER = ["TransformChain", "WithDims", "LandmarkManager", "LazyList"]
COVERED = set(objs.SHAPE_KINDS) | set(IMAGE_KINDS) | set(objs.HOMOG_KINDS) | set(WARP_KINDS) | set(RBF_CLASSES) | set(MODEL_KINDS) | set(OTHER)


def _walk_subclasses(root):
    seen, todo = [], [root]
    while todo:
        c = todo.pop()
        for s in c.__subclasses__():
            if s not in seen:
                seen.append(s)
                todo.append(s)
    return seen


DISCOVERED = sorted({c.__name__ for c in _walk_subclasses(Copyable) if not c.__name__.startswith("_") and c.__module__.startswith("menpo.")})
UNCOVERED = [n for n in DISCOVERED if n not in COVERED and n not in ABSTRACT]
if UNCOVERED:
    raise RuntimeError("C06: Copyable classes without a builder: %r - add a builder (or list them as abstract) before running" % (UNCOVERED,))
MISSING = [n for n in COVERED if n not in DISCOVERED]
if MISSING:
    raise RuntimeError("C06: builders for classes that are no longer Copyable subclasses: %r" % (MISSING,))


def evidence_extra(tier):
    return {"copyable_classes_discovered": DISCOVERED, "treated_as_abstract": sorted(ABSTRACT)}


# ------------------------------------------------------------------------------------------ object cases
def _lazy_f(scale, x):
    return np.asarray(x, dtype=float) * scale


@st.composite
def s_model(draw, kind):
    c = {"kind": kind, "seed": draw(st.integers(0, 2**16))}
    if kind == "PCAModel":
        c["npts"] = draw(st.integers(2, 4))
        c["n"] = draw(st.integers(4, 7))
    else:
        c["f"] = draw(st.integers(3, 7))
        c["n"] = draw(st.integers(4, 8))
    if kind in ("LinearVectorModel", "MeanLinearVectorModel"):
        c["k"] = draw(st.integers(1, 3))
    else:
        c["centre"] = draw(st.booleans())
        c["state"] = draw(st.sampled_from(["plain", "active", "trimmed", "incremented", "trimmed+incremented"]))
        c["k"] = draw(st.integers(1, 3))
    return c


@st.composite
def s_object(draw):
    fam = draw(st.sampled_from(["shape", "shape", "image", "homog", "homog", "chain", "withdims", "warp", "warp", "rbf",
                                "manager", "lazy", "model", "model"]))
    if fam == "shape":
        c = {"fam": fam, "obj": draw(objs.shape_case())}
    elif fam == "image":
        nd = draw(st.sampled_from([2, 2, 3]))
        c = {"fam": fam, "obj": draw(objs.image_case(ndim=nd, smin=1, smax=7 if nd == 2 else 4, fills=("random",)))}
    elif fam == "homog":
        tc = draw(objs.homog_case())
        plain = tc["kind"].replace("Alignment", "")
        c = {"fam": fam, "obj": tc, "partner": draw(objs.homog_case(kind=plain, d=tc["d"]))}
    elif fam == "chain":
        c = {"fam": fam, "obj": draw(objs.transform_case(kinds=["TransformChain"]))}
    elif fam == "withdims":
        c = {"fam": fam, "obj": draw(objs.transform_case(kinds=["WithDims"]))}
    elif fam == "warp":
        wc = draw(objs.warp_case())
        c = {"fam": fam, "obj": wc, "applied": draw(st.booleans()), "picks": draw(objs.bary_picks(2, 5))}
    elif fam == "rbf":
        c = {"fam": fam, "obj": {"kind": draw(st.sampled_from(RBF_CLASSES)), "c": draw(gen.points_case(n_min=2, n_max=6, d=2))}}
    elif fam == "manager":
        d = draw(st.sampled_from([2, 3]))
        k = draw(st.integers(0, 3))
        names = draw(st.lists(st.text(max_size=4), min_size=k, max_size=k, unique=True))
        c = {"fam": fam, "obj": {"kind": "LandmarkManager", "d": d,
                                 "groups": [[nm, draw(objs.shape_case(d=d, with_landmarks=False, n_min=3, n_max=5))] for nm in names]}}
    elif fam == "lazy":
        k = draw(st.integers(0, 4))
        c = {"fam": fam, "obj": {"kind": "LazyList", "items": draw(st.lists(st.lists(gen.q(-4, 4), min_size=1, max_size=3), min_size=k, max_size=k)),
                                 "scale": draw(gen.q(0.5, 2))}}
    else:
        c = {"fam": fam, "obj": draw(s_model(draw(st.sampled_from(MODEL_KINDS))))}
    c["side"] = draw(st.sampled_from(["orig", "copy"]))
    c["buf"] = draw(st.integers(0, 63))
    c["ops"] = draw(st.lists(st.tuples(st.integers(0, 15), st.integers(0, 2**16)).map(list), min_size=1, max_size=3))
    return c


def build_model(c):
    r = np.random.RandomState(c["seed"])
    kind = c["kind"]
    if kind == "LinearVectorModel":
        return LinearVectorModel(r.randn(c["k"], c["f"]))
    if kind == "MeanLinearVectorModel":
        return MeanLinearVectorModel(r.randn(c["k"], c["f"]), r.randn(c["f"]))
    if kind == "PCAVectorModel":
        f = c["f"]
        m = PCAVectorModel(r.randn(c["n"], f) * (1.0 + np.arange(f)), centre=c["centre"])
        new = lambda: r.randn(3, f) * (1.0 + np.arange(f))  # noqa: E731
    else:
        f = 2 * c["npts"]
        m = PCAModel([PointCloud(r.randn(c["npts"], 2) * 3) for _ in range(c["n"])], centre=c["centre"])
        new = lambda: [PointCloud(r.randn(c["npts"], 2) * 3) for _ in range(3)]  # noqa: E731
    st_ = c["state"]
    k = max(1, min(c["k"], m.n_components - 1)) if m.n_components > 1 else 1
    if st_ == "active":
        m.n_active_components = k
    if st_.startswith("trimmed"):
        m.trim_components(k)
    if st_.endswith("incremented"):
        m.increment(new())
    return m


def build_object(case):
    fam, oc = case["fam"], case["obj"]
    if fam == "shape":
        return objs.build_shape(oc)
    if fam == "image":
        return objs.build_image(oc)
    if fam in ("homog", "chain", "withdims"):
        return objs.build_transform(oc)
    if fam == "warp":
        t = objs.build_warp(oc)
        if case["applied"]:
            t.apply(_warp_points(case, t))
        return t
    if fam == "rbf":
        return getattr(menpo.transform.rbf, oc["kind"])(np.array(oc["c"], dtype=float))
    if fam == "manager":
        m = LandmarkManager()
        for nm, sc in oc["groups"]:
            m[nm] = objs.build_shape(sc)
        return m
    if fam == "lazy":
        return LazyList.init_from_iterable([np.array(x, dtype=float) for x in oc["items"]], f=partial(_lazy_f, oc["scale"]))
    return build_model(oc)


def _warp_points(case, t):
    oc = case["obj"]
    if oc["kind"] == "ThinPlateSplines":
        return np.array(oc["src"], dtype=float)[:3] + 0.125
    return objs.bary_points(oc["src"], np.array(t.trilist), case["picks"])


# ------------------------------------------------------------------------------------------ aliasing queries
def containers(obj):
    """(path, object) for every mutable container / attribute-carrying object reachable from obj
    (dict, list, sparse matrix, instance with __dict__); callables and immutable leaves are not listed."""
    import scipy.sparse as sp

    out = []
    leaf = (np.ndarray, str, bytes, int, float, complex, bool, type(None), np.generic)

    def rec(o, path, seen):
        if isinstance(o, leaf) or id(o) in seen:
            return
        seen = seen | {id(o)}
        if isinstance(o, tuple):
            for i, v in enumerate(o):
                rec(v, "%s[%d]" % (path, i), seen)
            return
        if sp.issparse(o):
            out.append((path, o))
            return
        ch = digest._children(o)
        if ch is None:
            return
        out.append((path, o))
        for name, v in ch:
            rec(v, path + name, seen)

    rec(obj, "", set())
    return out


def shared_containers(a, b):
    ia = {id(o): p for p, o in containers(a) if p != ""}
    return [(ia[id(o)], p) for p, o in containers(b) if id(o) in ia and p != ""]


# ------------------------------------------------------------------------------------------ mutators
def _small_pc(seed, d, n=3):
    r = np.random.RandomState(seed)
    return PointCloud(np.round(r.rand(n, d) * 8 * 64) / 64)


def mutators_for(case, x, y=None):
    """List of (name, callable(x, seed)) public mutators applicable to this object; each returns True when it ran."""
    fam, oc = case["fam"], case["obj"]
    out = []
    if fam in ("shape", "image"):
        d = x.n_dims

        def lm_set(o, s):
            names = ["new", "g", "PTS", "*"]
            o.landmarks[names[s % 4]] = _small_pc(s, d)
            return True

        def lm_del(o, s):
            if not o.has_landmarks:
                return False
            keys = list(o.landmarks)
            del o.landmarks[keys[s % len(keys)]]
            return True

        def lm_edit(o, s):
            if not o.has_landmarks:
                return False
            keys = list(o.landmarks)
            o.landmarks[keys[s % len(keys)]].points[0, 0] += 1.5
            return True

        def lm_assign(o, s):
            m = LandmarkManager()
            m["assigned"] = _small_pc(s, d)
            o.landmarks = m
            return True

        def fvi(o, s):
            n = o.n_parameters
            v = rs_vector(s, n, o.as_vector().dtype)
            o._from_vector_inplace(v)
            return True

        out += [("landmarks.__setitem__", lm_set), ("landmarks.__delitem__", lm_del), ("landmarks[...].points edit", lm_edit),
                ("landmarks =", lm_assign), ("_from_vector_inplace", fvi)]
        if fam == "shape":
            def tr_inplace(o, s):
                o._transform_inplace(Translation(np.arange(1, d + 1) * 0.5).apply)
                return True

            out.append(("_transform_inplace", tr_inplace))
    elif fam == "homog":
        kind, d = oc["kind"], oc["d"]

        def cbi(o, s):
            o.compose_before_inplace(objs.build_homog(case["partner"]))
            return True

        def cai(o, s):
            o.compose_after_inplace(objs.build_homog(case["partner"]))
            return True

        out += [("compose_before_inplace", cbi), ("compose_after_inplace", cai)]
        if y is not None:
            # the OTHER side of the copy pair passed as the argument: composing a transform with its own copy
            def cbi_other(o, s):
                if not isinstance(y, o.composes_inplace_with):
                    return False
                o.compose_before_inplace(y)
                return True

            def cai_other(o, s):
                if not isinstance(y, o.composes_inplace_with):
                    return False
                o.compose_after_inplace(y)
                return True

            out += [("compose_before_inplace(other side)", cbi_other), ("compose_after_inplace(other side)", cai_other)]
        if (kind.replace("Alignment", ""), d) not in (("Similarity", 3), ("Rotation", 2)):
            def fvi(o, s):
                n = o.n_parameters
                if "Rotation" in kind:
                    r = np.random.RandomState(s)
                    v = gen.build_unit_quaternion(list(r.rand(4) + 0.1))
                else:
                    v = rs_vector(s, n, "float64")
                o._from_vector_inplace(v)
                return True

            out.append(("_from_vector_inplace", fvi))
        if kind in objs.ALIGN_KINDS:
            def set_target(o, s):
                r = np.random.RandomState(s)
                t = np.array(oc["tgt"], dtype=float)
                o.set_target(PointCloud(t + np.round(r.rand(*t.shape) * 64) / 64))
                return True

            out.append(("set_target", set_target))
    elif fam == "chain":
        d = oc["d"]

        def cbi(o, s):
            o.compose_before_inplace(Translation(np.ones(d)))
            return True

        def cai(o, s):
            o.compose_after_inplace(Translation(np.ones(d) * 2))
            return True

        out += [("compose_before_inplace", cbi), ("compose_after_inplace", cai)]
    elif fam == "warp":
        def set_target(o, s):
            r = np.random.RandomState(s)
            t = np.array(oc["tgt"], dtype=float)
            o.set_target(PointCloud(t + (np.round(r.rand(*t.shape) * 64) / 64 - 0.5) * 0.05))
            return True

        def apply_(o, s):
            o.apply(_warp_points(case, o))
            return True

        out += [("set_target", set_target), ("apply", apply_)]
    elif fam == "manager":
        d = oc["d"]

        def lm_set(o, s):
            o[["new", "*", "", "a b"][s % 4]] = _small_pc(s, d)
            return True

        def lm_del(o, s):
            keys = list(o)
            if not keys:
                return False
            del o[keys[s % len(keys)]]
            return True

        def lm_edit(o, s):
            keys = list(o)
            if not keys:
                return False
            o[keys[s % len(keys)]].points[0, 0] += 1.5
            return True

        def tr_inplace(o, s):
            o._transform_inplace(Translation(np.arange(1, d + 1) * 0.5).apply)
            return True

        out += [("__setitem__", lm_set), ("__delitem__", lm_del), ("[...].points edit", lm_edit), ("_transform_inplace", tr_inplace)]
    elif fam == "lazy":
        def app(o, s):
            o._callables.append(partial(_lazy_f, 1.0, [float(s % 7)]))
            return True

        def pop(o, s):
            if not len(o):
                return False
            o._callables.pop(s % len(o))
            return True

        out += [("_callables.append", app), ("_callables.pop", pop)]
    elif fam == "model":
        kind = oc["kind"]

        def comp_set(o, s):
            r = np.random.RandomState(s)
            o.components = r.randn(*o._components.shape)
            return True

        def ortho(o, s):
            o.orthonormalize_inplace()
            return True

        if kind in ("LinearVectorModel", "MeanLinearVectorModel"):
            out += [("components =", comp_set), ("orthonormalize_inplace", ortho)]
        else:
            def nac(o, s):
                o.n_active_components = 1 + s % o.n_components
                return True

            def trim(o, s):
                if o.n_components < 2:
                    return False
                o.trim_components(1 + s % (o.n_components - 1))
                return True

            def inc(o, s):
                r = np.random.RandomState(s)
                if kind == "PCAModel":
                    o.increment([PointCloud(r.randn(oc["npts"], 2) * 3) for _ in range(2)])
                else:
                    o.increment(r.randn(2, oc["f"]) * (1.0 + np.arange(oc["f"])))
                return True

            out += [("n_active_components =", nac), ("trim_components", trim), ("increment", inc), ("components =", comp_set)]
    return out


def rs_vector(seed, n, dtype):
    r = np.random.RandomState(seed)
    dtype = np.dtype(dtype)
    if dtype == bool:
        return r.rand(n) > 0.5
    if dtype.kind in "iu":
        return r.randint(0, 200, size=n).astype(dtype)
    return (np.round(r.rand(n) * 8 * 64) / 64 + 0.25).astype(dtype)


def _memo(path):
    """CachedPWA memoises (index, alpha, beta) of its last apply in the tuple _iab. It is neither a parameter array nor
    written in place by any public operation (apply replaces the tuple), so a copy sharing it is outside the property's
    quantifier for transforms ("their own parameter arrays and every public mutator"); public mutators are still probed."""
    return path.startswith("._iab[")


def sig_path(cls, path):
    """Root-cause key of an aliasing finding: the attribute of the copied object that is shared (one bucket for
    everything below a Landmarkable's landmark manager, whose copy is LandmarkManager.copy's business)."""
    comps = [c for c in rs.strip_keys(path).split(".") if c]
    if comps and comps[0] == "_landmarks":
        return "landmarks:" + ".".join(comps[1:2])
    return "%s:%s" % (cls, ".".join(comps[:1]))


def c_object(case, ctx):
    fam = case["fam"]
    o = build_object(case)
    cls = type(o).__name__
    ctx.event("class=%s" % cls)
    if fam == "warp":
        ctx.event("%s applied=%s" % (cls, case["applied"]))
    if fam == "model" and "state" in case["obj"]:
        ctx.event("%s state=%s" % (cls, case["obj"]["state"]))
    d_o = rs.ndigest(o)
    c = o.copy()
    # 1. same type, equal state, original untouched by the act of copying
    ctx.expect(type(c) is type(o), "copy.class:" + cls, lambda: type(c).__name__)
    sd = rs.nstate_diff(o, c)
    if sd is not None:
        ctx.fail("copy.state_differs:" + sig_path(cls, rs.strip_keys(sd).split(": ")[0].split(" missing")[0]), sd)
    dd = rs.ndiff(d_o, rs.ndigest(o))
    ctx.expect(dd is None, "copy.mutated_original:" + cls, lambda: repr(dd))
    if fam == "lazy":
        ctx.expect(len(c) == len(o) and all(np.array_equal(c[i], o[i]) for i in range(len(o))), "copy.lazylist_items_differ", "")
    # 2. no shared memory / containers beyond the documented whitelist
    for pa, pb in digest.shared_buffers(o, c):
        if _memo(pa) and _memo(pb):
            ctx.event("shared memo cache (CachedPWA._iab)")
            continue
        if not rs.sharing_allowed(pa, pb):
            ctx.fail("copy.shares_buffer:" + sig_path(cls, pa), "original%s and copy%s share memory" % (pa, pb))
    for pa, pb in shared_containers(o, c):
        if not rs.sharing_allowed(pa, pb):
            ctx.fail("copy.shares_container:" + sig_path(cls, pa), "original%s and copy%s are the same %s object" % (pa, pb, type(o).__name__))
    n_bufs = len([1 for p, b in digest.buffers(o) if b.size])
    # 3. behavioural independence
    side = case["side"]
    x, y = (o, c) if side == "orig" else (c, o)
    ctx.event("mutated side=%s" % side)
    d_y = rs.ndigest(y)
    cand = [(p, b) for p, b in rs.writable_buffers(x) if not rs.is_shared_by_design(p) and not _memo(p) and not p.endswith((".indices", ".indptr", ".row", ".col"))]
    ran = False
    if cand:
        p, b = cand[case["buf"] % len(cand)]
        rs.poke(b)
        dd = rs.ndiff(d_y, rs.ndigest(y))
        if dd is not None:
            ctx.fail("write.visible_in_other:" + sig_path(cls, p), "wrote into %s%s; the %s changed at %r" % (side, p, "copy" if side == "orig" else "original", dd))
    # public mutators on a second, freshly built pair (the sentinel above may have corrupted the probed side)
    o2 = build_object(case)
    c2 = o2.copy()
    x, y = (o2, c2) if side == "orig" else (c2, o2)
    d_y = rs.ndigest(y)
    muts = mutators_for(case, x, y)
    for k, seed in case["ops"]:
        if not muts:
            break
        name, f = muts[k % len(muts)]
        if f(x, seed):
            ran = True
            ctx.event("mutator=%s" % name)
            dd = rs.ndiff(d_y, rs.ndigest(y))
            if dd is not None:
                ctx.fail("mutator.visible_in_other:%s:%s" % (cls, name), "%s on the %s changed the %s at %r" % (name, side, "copy" if side == "orig" else "original", dd))
                break
    if ran and not ctx.fails:
        # the mutated object must not have picked up memory of the other one either
        for pa, pb in digest.shared_buffers(x, y):
            if not (rs.sharing_allowed(pa, pb) or (_memo(pa) and _memo(pb))):
                ctx.fail("mutator.created_sharing:" + sig_path(cls, pa), "after the mutators %s%s and other%s share memory" % (side, pa, pb))
    ctx.nontrivial(n_bufs >= 2 or ran)


# ------------------------------------------------------------------------------------------ histories
NAME_POOL = ["a", "b", "*", "?", "[ab]", "", "a*", "ü", "left eye", "PTS", "[", "]", "a?b", "A"]
PATTERN_ATOMS = ["*", "?", "a", "b", "[ab]", "ü", " ", "P", "T", "S"]


def s_name():
    return st.one_of(st.sampled_from(NAME_POOL), st.sampled_from(NAME_POOL), st.text(max_size=5))


@st.composite
def s_lshape(draw, d=None):
    """Small landmark shape spec."""
    if d is None:
        d = draw(st.sampled_from([2, 2, 2, 3]))
    n = draw(st.integers(1, 4))
    kind = draw(st.sampled_from(["PointCloud", "PointCloud", "PointUndirectedGraph", "LabelledPointUndirectedGraph", "TriMesh"]))
    if kind == "TriMesh" and n < 3:
        kind = "PointCloud"
    return {"kind": kind, "d": d, "pts": draw(st.lists(st.lists(gen.q(0, 6, 64), min_size=d, max_size=d), min_size=n, max_size=n))}


def build_lshape(spec):
    pts = np.array(spec["pts"], dtype=float)
    n = pts.shape[0]
    k = spec["kind"]
    if k == "PointCloud":
        return PointCloud(pts)
    if k == "TriMesh":
        return TriMesh(pts, trilist=np.array([[0, 1, 2]]))
    adj = np.zeros((n, n), dtype=int)
    for i in range(n - 1):
        adj[i, i + 1] = adj[i + 1, i] = 1
    if k == "PointUndirectedGraph":
        return PointUndirectedGraph(pts, adj)
    l2m = OrderedDict()
    l2m["all"] = np.ones(n, dtype=bool)
    first = np.zeros(n, dtype=bool)
    first[0] = True
    l2m["first"] = first
    return LabelledPointUndirectedGraph(pts, adj, l2m)


@st.composite
def s_history(draw):
    owners = []
    for _ in range(draw(st.integers(1, 3))):
        k = draw(st.sampled_from(["PointCloud", "TriMesh", "Image", "MaskedImage", "PointCloud3", "TriMesh3"]))
        owners.append({"kind": k, "seed": draw(st.integers(0, 999))})
    n_steps = draw(st.integers(4, 30))
    steps = []
    kinds = ["set", "set", "set", "set_own_group", "get", "get_none", "del", "query", "copy", "assign", "assign", "mutate_assigned", "mutate_assigned",
             "mutate_handle", "mutate_handle", "transform", "set_wrong_dim", "set_none", "set_bad_type", "glob", "get_missing"]
    for _ in range(n_steps):
        k = draw(st.sampled_from(kinds))
        slot = draw(st.integers(0, 31))
        if k == "set":
            # the 5th entry (optional) makes one set in three re-use a name the manager already holds (a replacement)
            steps.append([k, slot, draw(s_name()), draw(s_lshape()), draw(st.integers(0, 31))])
        elif k in ("get", "del", "get_missing", "set_own_group"):
            steps.append([k, slot, draw(s_name()), draw(st.integers(0, 31))])
        elif k in ("get_none", "query", "copy"):
            steps.append([k, slot])
        elif k == "assign":
            steps.append([k, slot, draw(st.integers(0, 31))])
        elif k in ("mutate_assigned", "mutate_handle"):
            steps.append([k, draw(st.integers(0, 31)), draw(st.integers(0, 31)), draw(st.integers(0, 2)), draw(gen.qnz(-2, 2, 1 / 16, 64)), draw(st.booleans())])
        elif k == "transform":
            steps.append([k, slot, draw(st.sampled_from(["Translation", "Affine"])), draw(st.integers(0, 999))])
        elif k in ("set_wrong_dim", "set_bad_type"):
            steps.append([k, slot, draw(s_name()), draw(st.integers(0, 999))])
        elif k == "set_none":
            steps.append([k, slot, draw(s_lshape())])
        elif k == "glob":
            steps.append([k, slot, "".join(draw(st.lists(st.sampled_from(PATTERN_ATOMS), min_size=0, max_size=4)))])
    return {"owners": owners, "steps": steps}


def glob_match(name, pat):
    """Independent matcher for patterns made of literals, '*', '?' and '[xyz]' (plain character list)."""
    toks = []
    i = 0
    while i < len(pat):
        ch = pat[i]
        if ch == "[":
            j = pat.index("]", i)
            toks.append(("set", pat[i + 1:j]))
            i = j + 1
        elif ch == "*":
            toks.append(("star", None))
            i += 1
        elif ch == "?":
            toks.append(("any", None))
            i += 1
        else:
            toks.append(("lit", ch))
            i += 1

    def m(ti, ni):
        if ti == len(toks):
            return ni == len(name)
        kind, arg = toks[ti]
        if kind == "star":
            return any(m(ti + 1, k) for k in range(ni, len(name) + 1))
        if ni >= len(name):
            return False
        if kind == "any":
            return m(ti + 1, ni + 1)
        if kind == "set":
            return name[ni] in arg and m(ti + 1, ni + 1)
        return name[ni] == arg and m(ti + 1, ni + 1)

    return m(0, 0)


class _Tok(object):
    n = 0

    @classmethod
    def new(cls):
        cls.n += 1
        return cls.n


def model_value(shape_obj):
    """Model entry: numpy copies of everything that can be edited, plus a fresh identity token."""
    mv = {"cls": type(shape_obj).__name__, "points": np.array(shape_obj.points, dtype=float, copy=True), "d": int(shape_obj.points.shape[1]),
          "tok": _Tok.new(), "masks": None}
    if isinstance(shape_obj, LabelledPointUndirectedGraph):
        mv["masks"] = [[lab, np.array(shape_obj._labels_to_masks[lab], copy=True)] for lab in shape_obj.labels]
    return mv


def copy_model(model):
    out = OrderedDict()
    for k, mv in model.items():
        nv = dict(mv, points=mv["points"].copy(), tok=_Tok.new())
        if mv["masks"] is not None:
            nv["masks"] = [[lab, m.copy()] for lab, m in mv["masks"]]
        out[k] = nv
    return out


def differs_from_model(g, mv):
    if type(g).__name__ != mv["cls"]:
        return "class %s, model %s" % (type(g).__name__, mv["cls"])
    if g.points.shape != mv["points"].shape or not np.array_equal(g.points, mv["points"]):
        return "points differ from the model (max |diff| %s)" % (float(np.abs(g.points - mv["points"]).max()) if g.points.shape == mv["points"].shape else "shape")
    if mv["masks"] is not None:
        if list(g.labels) != [lab for lab, _ in mv["masks"]]:
            return "labels %r, model %r" % (list(g.labels), [lab for lab, _ in mv["masks"]])
        for lab, m in mv["masks"]:
            if not np.array_equal(g._labels_to_masks[lab], m):
                return "mask of label %r differs from the model" % lab
    return None


def _build_owner(spec):
    r = np.random.RandomState(spec["seed"])
    k = spec["kind"]
    if k.startswith("PointCloud"):
        return PointCloud(np.round(r.rand(4, 3 if k.endswith("3") else 2) * 640) / 64)
    if k.startswith("TriMesh"):
        return TriMesh(np.round(r.rand(4, 3 if k.endswith("3") else 2) * 640) / 64, trilist=np.array([[0, 1, 2], [1, 2, 3]]))
    if k == "Image":
        return Image(r.rand(2, 5, 6))
    return MaskedImage(r.rand(1, 5, 6), mask=r.rand(5, 6) > 0.3)


class Slot(object):
    __slots__ = ("owner", "mgr", "model", "d")

    def __init__(self, owner=None, mgr=None, model=None, d=None):
        self.owner, self.mgr, self.model, self.d = owner, mgr, model if model is not None else OrderedDict(), d

    @property
    def manager(self):
        return self.owner.landmarks if self.owner is not None else self.mgr

    def dims(self):
        for mv in self.model.values():
            return mv["d"]
        return None


def _edit(shape_obj, r, c, delta, flip):
    """In-place edit of a shape through its arrays; returns a function applying the same edit to a model value."""
    n, d = shape_obj.points.shape
    r, c = r % n, c % d
    shape_obj.points[r, c] += delta
    flipped = None
    if flip and isinstance(shape_obj, LabelledPointUndirectedGraph):
        for lab in shape_obj.labels:
            m = shape_obj._labels_to_masks[lab]
            idx = np.flatnonzero(~m)
            if idx.size:
                m[idx[0]] = True
                flipped = (lab, int(idx[0]))
                break

    def on_model(mv):
        mv["points"][r, c] += delta
        if flipped is not None and mv["masks"] is not None:
            for lab, m in mv["masks"]:
                if lab == flipped[0]:
                    m[flipped[1]] = True

    return on_model


def check_invariant(slots, ctx, where):
    for si, s in enumerate(slots):
        m, model = s.manager, s.model
        tag = "owner" if s.owner is not None else "manager"
        names = list(model.keys())
        ok = ctx.expect(list(m) == names, "history.order_or_keys:" + where, lambda: "%s slot %d: list(manager)=%r model=%r" % (tag, si, list(m), names))
        ctx.expect(len(m) == len(names) and m.n_groups == len(names) and list(m.keys()) == list(m) and m.group_labels == list(m) and m.has_landmarks == bool(names),
                   "history.len_keys_labels_inconsistent:" + where, lambda: "%s slot %d" % (tag, si))
        if s.owner is not None:
            ctx.expect(s.owner.has_landmarks == bool(names) and s.owner.n_landmark_groups == len(names), "history.owner_has_landmarks:" + where, lambda: "slot %d" % si)
        if not ok:
            continue
        for nm in names:
            ctx.expect(nm in m, "history.contains:" + where, lambda: repr(nm))
            why = differs_from_model(m[nm], model[nm])
            if why is not None:
                ctx.fail("history.group_differs_from_model:" + where, "%s slot %d group %r: %s" % (tag, si, nm, why))
        dims = {mv["d"] for mv in model.values()}
        ctx.expect(len(dims) <= 1, "history.mixed_dimensions:" + where, lambda: repr(dims))
        ctx.expect(m.n_dims == (dims.pop() if dims else None), "history.n_dims:" + where, lambda: "slot %d n_dims=%r" % (si, m.n_dims))
        try:
            g = m[None]
            if len(names) == 1:
                ctx.expect(g is m[names[0]], "history.none_key_wrong_group:" + where, "")
            else:
                ctx.fail("history.none_key_accepted_with_%s_groups:%s" % ("no" if not names else "several", where), "slot %d has %d groups" % (si, len(names)))
        except ValueError:
            ctx.expect(len(names) != 1, "history.none_key_refused_with_one_group:" + where, "slot %d" % si)


def c_history(case, ctx):
    slots = [Slot(mgr=LandmarkManager())]
    for spec in case["owners"]:
        ow = _build_owner(spec)
        slots.append(Slot(owner=ow, d=ow.n_dims))
    owner_slots = [s for s in slots if s.owner is not None]
    assigned = []  # shapes that were handed to set(): must stay detached from every manager
    handles = []  # (object returned by get, token of the model value it is)
    pending_assign = False
    pending_copy = False
    nt = False
    check_invariant(slots, ctx, "initial")
    for step in case["steps"]:
        if ctx.fails:
            break  # model and managers have diverged: later steps would only repeat the first root cause
        k = step[0]
        ctx.event("step=%s" % k)
        if k in ("mutate_assigned", "mutate_handle"):
            pool = assigned if k == "mutate_assigned" else handles
            if not pool:
                continue
            if k == "mutate_assigned":
                sh = pool[step[1] % len(pool)]
                _edit(sh, step[2], step[3], step[4], step[5])
                nt = nt or True
            else:
                sh, tok = pool[step[1] % len(pool)]
                on_model = _edit(sh, step[2], step[3], step[4], step[5])
                for s in slots:
                    for mv in s.model.values():
                        if mv["tok"] == tok:
                            on_model(mv)
                nt = nt or pending_copy
            check_invariant(slots, ctx, k)
            continue
        s = slots[step[1] % len(slots)]
        m, model = s.manager, s.model
        if k == "set":
            name, spec = step[2], step[3]
            if len(step) > 4 and step[4] % 3 == 0 and len(model) > 0:
                name = list(model)[(step[4] // 3) % len(model)]
                ctx.event("set replaces an existing group")
            sh = build_lshape(spec)
            d_sh = rs.ndigest(sh)
            cur = s.dims()
            try:
                m[name] = sh
                ok = True
            except ValueError:
                ok = False
            # the documented check is against the groups the manager currently holds (a manager does not know its owner)
            expect_ok = cur is None or cur == spec["d"]
            ctx.expect(ok == expect_ok, "history.set_dimension_rule", lambda: "set %dD group on a manager holding %rD groups: %s" % (spec["d"], cur, "accepted" if ok else "refused"))
            if ok:
                model[name] = model_value(sh)  # existing key keeps its position (dict semantics), new key goes last
                assigned.append(sh)
                pending_assign = True
                ctx.expect(m[name] is not sh, "history.set_stores_the_value_itself", "")
            ctx.expect(rs.ndiff(d_sh, rs.ndigest(sh)) is None, "history.set_mutated_value", "")
        elif k == "set_own_group":
            # the value assigned is a group fetched from THIS manager (the rename / duplicate idiom): it is stored as
            # a copy like any other value
            names = list(model)
            if not names:
                continue
            src_name = names[step[3] % len(names)]
            new_name = step[2]
            g_src = m[src_name]
            m[new_name] = g_src
            g_new = m[new_name]
            if new_name != src_name:
                ctx.expect(g_new is not g_src and not np.shares_memory(np.asarray(g_new.points), np.asarray(g_src.points)),
                           "history.set_own_group_stores_the_group_itself", "manager[%r] = manager[%r] aliases the two groups" % (new_name, src_name))
                probe = np.array(g_src.points, copy=True)
                g_new.points[0, 0] += 1.0
                ctx.expect(np.array_equal(np.asarray(m[src_name].points), probe), "history.set_own_group_edit_reaches_source_group", "")
                g_new.points[0, 0] -= 1.0
            model[new_name] = model_value(g_new)
            pending_assign = True
        elif k == "get":
            names = list(model)
            name = names[step[3] % len(names)] if names and step[3] % 3 else step[2]
            try:
                g = m[name]
                ctx.expect(name in model, "history.get_missing_name_returned", lambda: repr(name))
                if name in model:
                    handles.append((g, model[name]["tok"]))
            except KeyError:
                ctx.expect(name not in model, "history.get_existing_name_keyerror", lambda: repr(name))
        elif k == "get_missing":
            name = step[2] + "\x00missing"
            try:
                m[name]
                ctx.fail("history.get_missing_name_returned", repr(name))
            except KeyError:
                pass
            ctx.expect(name not in m, "history.contains_missing", "")
        elif k == "get_none":
            try:
                g = m[None]
                if ctx.expect(len(model) == 1, "history.none_key_accepted_with_wrong_group_count", lambda: "%d groups" % len(model)):
                    handles.append((g, next(iter(model.values()))["tok"]))
            except ValueError:
                ctx.expect(len(model) != 1, "history.none_key_refused_with_one_group:get_none", "")
        elif k == "del":
            names = list(model)
            name = names[step[3] % len(names)] if names and step[3] % 3 else step[2]
            try:
                del m[name]
                ctx.expect(name in model, "history.del_missing_name_accepted", lambda: repr(name))
                model.pop(name, None)
            except KeyError:
                ctx.expect(name not in model, "history.del_existing_name_keyerror", lambda: repr(name))
        elif k == "query":
            got = [(kk, differs_from_model(v, model[kk]) if kk in model else "unknown key") for kk, v in m.items()]
            ctx.expect([kk for kk, _ in got] == list(model) and all(w is None for _, w in got), "history.items", lambda: repr(got))
            ctx.expect(len(list(m.values())) == len(model), "history.values", "")
        elif k == "glob":
            pat = step[2]
            want = [nm for nm in model if glob_match(nm, pat)]
            got = list(m.keys_matching(pat))
            ctx.expect(got == want, "history.keys_matching", lambda: "pattern %r names %r: got %r want %r" % (pat, list(model), got, want))
            got_i = [kk for kk, _ in m.items_matching(pat)]
            ctx.expect(got_i == want, "history.items_matching", lambda: "pattern %r names %r: got %r want %r" % (pat, list(model), got_i, want))
        elif k == "copy":
            new = m.copy()
            ctx.expect(type(new) is LandmarkManager and new is not m, "history.copy_class", "")
            slots.append(Slot(mgr=new, model=copy_model(model)))
            pending_copy = True
        elif k == "assign":
            t = owner_slots[step[2] % len(owner_slots)]
            src_d = s.dims()
            try:
                t.owner.landmarks = m
                ok = True
            except ValueError:
                ok = False
            expect_ok = src_d is None or src_d == t.d
            ctx.expect(ok == expect_ok, "history.assign_dimension_rule", lambda: "%rD manager onto a %dD owner: %s" % (src_d, t.d, "accepted" if ok else "refused"))
            if ok:
                ctx.expect(t.owner.landmarks is not m or t is s, "history.assign_stores_the_manager_itself", "")
                t.model = copy_model(model)
                pending_copy = True
        elif k == "transform":
            d_l = s.dims()
            on_owner = s.owner is not None and isinstance(s.owner, PointCloud) and (d_l is None or d_l == s.owner.n_dims)
            d = s.owner.n_dims if on_owner else (d_l or 2)
            r = np.random.RandomState(step[3])
            tvec = np.round(r.rand(d) * 8 * 16) / 16 + 0.5
            if step[2] == "Translation":
                t = Translation(tvec)
                h = np.eye(d + 1)
                h[:d, d] = tvec
            else:
                h = np.eye(d + 1)
                h[:d, :d] = np.eye(d) * 2.0 + np.round(r.rand(d, d) * 16) / 16
                h[:d, d] = tvec
                t = Affine(h.copy())
            if on_owner:
                res = t.apply(s.owner)
                new_slot = Slot(owner=res, d=res.n_dims)
            else:
                res = t.apply(m)
                new_slot = Slot(mgr=res)
            nm_model = copy_model(model)
            for mv in nm_model.values():
                mv["points"] = objs.ref_apply_h(h, mv["points"])
            new_slot.model = nm_model
            # transformed coordinates are compared with a tolerance: replace exact model points by the actual ones after
            # checking closeness, so later exact comparisons stay meaningful
            rm = new_slot.manager
            if list(rm) == list(nm_model):
                for nm, mv in nm_model.items():
                    g = rm[nm]
                    if g.points.shape == mv["points"].shape and close(g.points, mv["points"], rtol=0, atol=1e-9 * (1 + float(np.abs(mv["points"]).max()))):
                        mv["points"] = g.points.copy()
                    else:
                        ctx.fail("history.transform_moves_groups", "group %r of the transformed result is not the transformed group" % nm)
                        mv["points"] = g.points.copy() if g.points.shape == mv["points"].shape else mv["points"]
            slots.append(new_slot)
            if new_slot.owner is not None:
                owner_slots.append(new_slot)
            pending_copy = True
        elif k == "set_wrong_dim":
            cur = s.dims()
            if cur is None:
                continue
            sh = _small_pc(step[3], 5 - cur, 2)
            try:
                m[step[2]] = sh
                ctx.fail("history.wrong_dimension_accepted", "%dD group set on a manager of %dD groups" % (5 - cur, cur))
                model[step[2]] = model_value(sh)
            except ValueError:
                pass
        elif k == "set_none":
            sh = build_lshape(step[2])
            try:
                m[None] = sh
                ctx.fail("history.none_key_set_accepted", "")
            except ValueError:
                pass
        elif k == "set_bad_type":
            d = s.dims() or 2
            bad = Image(np.zeros((1,) + (3,) * d))
            try:
                m[step[2]] = bad
                ctx.fail("history.non_pointcloud_value_accepted", "")
            except ValueError:
                pass
        check_invariant(slots, ctx, k)
    ctx.nontrivial(nt)
    ctx.event("slots=%d" % min(len(slots), 8))


# ------------------------------------------------------------------------------------------ identity receivers
_ID_CLASSES = ["Homogeneous", "Affine", "Similarity", "Rotation", "Translation", "UniformScale", "NonUniformScale"]


def enum_identity(tier):
    out = []
    for cls in _ID_CLASSES:
        for d in (2, 3):
            for direction in ("before", "after"):
                for arg in ("own_copy", "original_of_copy", "fresh"):
                    for rep in range(2 if tier == "quick" else 12):
                        out.append({"cls": cls, "d": d, "dir": direction, "arg": arg, "rep": rep})
    return out


def c_identity(case, ctx):
    """A transform that is exactly the identity (init_identity) is composed in place with its own copy / a fresh
    transform: afterwards receiver and argument are independent objects (no shared buffer; a write into the receiver's
    matrix and a public re-parametrisation of the receiver are invisible in the argument, and vice versa)."""
    import menpo.transform as mt

    cls, d = getattr(mt, case["cls"]), case["d"]
    t = cls.init_identity(d)
    ctx.event("class=%s d=%d arg=%s" % (case["cls"], d, case["arg"]))
    if case["arg"] == "own_copy":
        recv, arg = t, t.copy()
    elif case["arg"] == "original_of_copy":
        recv, arg = t.copy(), t
    else:
        kind = case["cls"]
        r = np.random.RandomState(case["rep"] * 7 + d)
        if kind == "Translation":
            arg = mt.Translation(np.round(r.rand(d) * 16) / 4 + 0.25)
        elif kind == "UniformScale":
            arg = mt.UniformScale(1.5 + case["rep"], d)
        elif kind == "NonUniformScale":
            arg = mt.NonUniformScale(np.arange(1, d + 1) + 0.5)
        elif kind == "Rotation":
            arg = mt.Rotation(gen.rotation_from_angles(d, [0.3 + 0.1 * case["rep"]] * gen.n_planes(d)))
        else:
            h = np.eye(d + 1)
            h[:d, :d] = gen.rotation_from_angles(d, [0.4] * gen.n_planes(d)) * (1.25 + case["rep"])
            h[:d, d] = np.arange(1, d + 1)
            arg = cls(h)
        recv = t
    ctx.nontrivial(True)
    d_arg = rs.ndigest(arg)
    if not isinstance(arg, recv.composes_inplace_with):
        return
    if case["dir"] == "before":
        recv.compose_before_inplace(arg)
    else:
        recv.compose_after_inplace(arg)
    dd = rs.ndiff(d_arg, rs.ndigest(arg))
    ctx.expect(dd is None, "identity_compose.argument_changed:" + case["cls"], lambda: repr(dd))
    sh = [(a, b) for a, b in digest.shared_buffers(recv, arg) if not rs.sharing_allowed(a, b)]
    ctx.expect(not sh, "identity_compose.receiver_aliases_argument:" + case["cls"], lambda: repr(sh[:3]))
    # behavioural: edit the receiver's matrix, the argument must not move
    recv.h_matrix[0, -1] += 3.0
    dd = rs.ndiff(d_arg, rs.ndigest(arg))
    ctx.expect(dd is None, "identity_compose.write_into_receiver_reaches_argument:" + case["cls"], lambda: repr(dd))


CLAUSES = [
    Clause("objects", c_object, s_object, quick=4000, thorough=60000, nt_floor=0.5,
           rule="one object per case, copy, aliasing queries, sentinel write and 1-3 public mutators on a drawn side"),
    Clause("histories", c_history, s_history, quick=600, thorough=10000, nt_floor=0.3,
           rule="landmark-manager histories against an ordered-dict model; non-trivial: mutation after assignment / copy"),
    Clause("identity_compose", c_identity, enumerate=enum_identity,
           rule="exhaustive: 7 homogeneous classes x {2-D,3-D} x {before,after} x argument {own copy, original of a copy, fresh}: "
                "an exact identity composed in place stays independent of its argument"),
]
