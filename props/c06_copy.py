"""C06 - copies are equal and fully independent; attached landmarks are owned copies."""
from collections import OrderedDict
from functools import partial

import numpy as np
from hypothesis import strategies as st

from vlib.runner import Clause
from vlib import gen, objs, digest
from vlib import refs_state as rs
from vlib.tol import close

import menpo.shape
import menpo.image
import menpo.transform
import menpo.model
import menpo.landmark
import menpo.base
import menpo.transform.rbf
import menpo.transform.piecewiseaffine.base
from menpo.base import Copyable, LazyList, copy_landmarks_and_path
from menpo.landmark import LandmarkManager
from menpo.shape import PointCloud, TriMesh, PointUndirectedGraph, LabelledPointUndirectedGraph
from menpo.image import Image, MaskedImage
from menpo.transform import Translation, Affine
from menpo.model import LinearVectorModel, MeanLinearVectorModel, PCAVectorModel, PCAModel

PROPERTY = "C06"
RULE = (
    "(objects) one object of every concrete Copyable class found by walking Copyable.__subclasses__() - 8 shape "
    "classes with 0-3 landmark groups, 3 image classes, 12 homogeneous-family transforms, TransformChain, WithDims, "
    "ThinPlateSplines (3 kernels) / CachedPWA / PythonPWA before and after an apply, both RBF kernels, LandmarkManager, "
    "LazyList, LinearVectorModel, MeanLinearVectorModel, PCAVectorModel and PCAModel (built from samples, from components "
    "or from a covariance matrix; plain, reduced active count, trimmed, after increment; PCAModel over point clouds, "
    "images or partly masked images, the template with or without a landmark group) - is built from drawn plain data, "
    "brought into a drawn read-only state (none / rebuilt with x.from_vector(x.as_vector()) so that its data is a "
    "read-only view / one or all arrays frozen with flags.writeable = False), copied, and then probed: the memory-sharing "
    "query must be empty, a write through the object the original is a view on must not reach the copy, and a drawn "
    "side (original or copy) re-enables writing on its own arrays, gets a sentinel written into a drawn buffer and 1-3 "
    "drawn public mutators applied (incl. the deprecated public *_inplace entry points and the inherited mapping "
    "mutators of the landmark manager); the other side's deep digest must not move. Objects handed out as a copy / new "
    "object by as_non_alignment, alignment pseudoinverse and LazyList.map / repeat / + / slicing are probed the same "
    "way. Non-trivial: the object has >= 2 distinct reachable buffers or a mutator ran. "
    "(histories) 4-30 landmark-manager operations drawn as data and interpreted against a pool of managers and owners "
    "(PointCloud, TriMesh, Image, MaskedImage, a third of them holding read-only data), indices modulo pool size, "
    "group names arbitrary text incl. glob metacharacters, values of all 8 shape classes (a third holding read-only "
    "arrays); operations: set, set of an own group, get, get None, delete, items, glob lookups, update (dict / pairs / "
    "keywords / another manager, possibly refused part-way), setdefault, pop, popitem, clear, manager copy, owner copy, "
    "assignment onto an owner, copy_landmarks_and_path, transform, refused sets, and in-place edits of assigned / popped "
    "values and of fetched groups through any of their public arrays. An ordered-dict model of numpy copies of every "
    "public array (with one identity token per stored copy) is compared after every step, and after every storing "
    "step no public array of a stored group may share memory with another group, an owner's data or a caller-side "
    "value. Non-trivial: an assignment followed by a mutation of the assigned value, or a copy / owner assignment "
    "followed by a mutation. Distinct = distinct canonical-JSON digest of the case."
)
ASSUMPTIONS = [
    "documented sharing that is NOT a violation: _source / _target point sets of any alignment (HomogFamilyAlignment.copy "
    "is documented shallow except for the matrix), member transforms of a TransformChain (the list itself must be new), "
    "the callables of a LazyList (the list itself must be new), immutable scalars / strings",
    "_landmarks None and an empty LandmarkManager are the same observable state",
    "sparse matrices are probed through their data buffer (writing indices / indptr would only corrupt the probed side); "
    "sharing of indices / indptr is still reported by the memory-sharing query",
    "manager[name] returns the stored object itself (edits through it are visible in that manager and nowhere else); "
    "set / update / setdefault of a new name / owner.landmarks = / copy_landmarks_and_path / copy / transform create new "
    "stored copies; pop / popitem hand out the formerly stored object, which is detached from then on",
    "manager[None] / set under None / wrong dimension / non-PointCloud value: ValueError and no change, as the docstrings "
    "and messages state; lookups and deletes of a missing name: KeyError (mapping protocol)",
    "the inherited mapping mutators follow collections.abc.MutableMapping: update stores item by item (a refused item "
    "ends it, earlier items stay), popitem removes SOME held item (which end is not asserted), setdefault of a missing "
    "name stores a copy (which object it returns is not asserted), None is never used as a key with them",
    "a read-only array is a legal state of an object (as_vector views, copy=False constructors, flags set by the "
    "owner); its owner may re-enable writing (ndarray.flags.writeable = True) or write through the base array - the "
    "copy / stored landmark group must not see that",
    "glob lookups (keys_matching / items_matching) are compared against an independent matcher for patterns made of "
    "literals, '*', '?' and one plain character class; names themselves are arbitrary text",
    "CachedPWA's memo of its last apply (_iab, a tuple of arrays replaced - never written - by apply) is shared by copy(); "
    "the property quantifies transforms over parameter arrays and public mutators, so this is recorded as an event and "
    "not reported; every public mutator is still required to leave the other side's cache untouched",
    "PCA mutators stay inside their documented domain (integer component counts in 1..n_components, increments of >= 2 "
    "samples of the right width, orthonormalisation against a model with fewer components than features)",
    "the history sharing query looks at public data arrays only (coordinates, connectivity, colours, texture, adjacency, "
    "label masks, pixels, mask): private memo slots shared between copies are not observable",
]

# ------------------------------------------------------------------------------------------ discovery
ABSTRACT = {
    "Copyable", "Vectorizable", "Targetable", "Landmarkable", "Transform", "Transformable", "Alignment",
    "ComposableTransform", "HomogFamilyAlignment", "AbstractPWA", "RadialBasisFunction", "Shape", "PointGraph",
}
WARP_KINDS = ["ThinPlateSplines", "CachedPWA", "PythonPWA"]
RBF_CLASSES = ["R2LogR2RBF", "R2LogRRBF"]
MODEL_KINDS = ["LinearVectorModel", "MeanLinearVectorModel", "PCAVectorModel", "PCAModel"]
IMAGE_KINDS = ["Image", "MaskedImage", "BooleanImage"]
OTHER = ["TransformChain", "WithDims", "LandmarkManager", "LazyList"]
COVERED = set(objs.SHAPE_KINDS) | set(IMAGE_KINDS) | set(objs.HOMOG_KINDS) | set(WARP_KINDS) | set(RBF_CLASSES) | set(MODEL_KINDS) | set(OTHER)


def _walk_subclasses(root):
    seen, todo = [], [root]
    while todo:
        c = todo.pop()
        for s in c.__subclasses__():
            if s not in seen:
                seen.append(s)
                todo.append(s)
    return seen


DISCOVERED = sorted({c.__name__ for c in _walk_subclasses(Copyable) if not c.__name__.startswith("_") and c.__module__.startswith("menpo.")})
UNCOVERED = [n for n in DISCOVERED if n not in COVERED and n not in ABSTRACT]
if UNCOVERED:
    raise RuntimeError("C06: Copyable classes without a builder: %r - add a builder (or list them as abstract) before running" % (UNCOVERED,))
MISSING = [n for n in COVERED if n not in DISCOVERED]
if MISSING:
    raise RuntimeError("C06: builders for classes that are no longer Copyable subclasses: %r" % (MISSING,))


def evidence_extra(tier):
    return {"copyable_classes_discovered": DISCOVERED, "treated_as_abstract": sorted(ABSTRACT)}


# ------------------------------------------------------------------------------------------ object cases
def _lazy_f(scale, x):
    return np.asarray(x, dtype=float) * scale


PCA_TEMPLATES = ["PointCloud", "PointCloud", "PointCloud+lm", "Image", "Image+lm", "MaskedImage", "MaskedImage+lm"]
PCA_CTORS = ["samples", "samples", "components", "covariance"]


@st.composite
def s_model(draw, kind):
    c = {"kind": kind, "seed": draw(st.integers(0, 2**16))}
    if kind == "PCAModel":
        c["npts"] = draw(st.integers(2, 4))
        c["n"] = draw(st.integers(4, 7))
        # template family of the instance-backed model: point clouds, images, masked images (partly masked), each
        # optionally carrying a landmark group (the template is part of the model's reachable state)
        c["tmpl"] = draw(st.sampled_from(PCA_TEMPLATES))
        c["ishape"] = draw(st.lists(st.integers(2, 3), min_size=2, max_size=2))
        c["ch"] = draw(st.integers(1, 2))
    else:
        c["f"] = draw(st.integers(3, 7))
        c["n"] = draw(st.integers(4, 8))
    if kind in ("LinearVectorModel", "MeanLinearVectorModel"):
        c["k"] = draw(st.integers(1, 3))
    else:
        c["centre"] = draw(st.booleans())
        c["state"] = draw(st.sampled_from(["plain", "active", "trimmed", "incremented", "trimmed+incremented"]))
        c["k"] = draw(st.integers(1, 3))
        # which constructor: from samples, init_from_components, init_from_covariance_matrix
        c["ctor"] = draw(st.sampled_from(PCA_CTORS))
    return c


@st.composite
def s_object(draw):
    fam = draw(st.sampled_from(["shape", "shape", "image", "homog", "homog", "chain", "withdims", "warp", "warp", "rbf",
                                "manager", "lazy", "model", "model"]))
    if fam == "shape":
        c = {"fam": fam, "obj": draw(objs.shape_case())}
    elif fam == "image":
        nd = draw(st.sampled_from([2, 2, 3]))
        c = {"fam": fam, "obj": draw(objs.image_case(ndim=nd, smin=1, smax=7 if nd == 2 else 4, fills=("random",)))}
    elif fam == "homog":
        tc = draw(objs.homog_case())
        plain = tc["kind"].replace("Alignment", "")
        c = {"fam": fam, "obj": tc, "partner": draw(objs.homog_case(kind=plain, d=tc["d"]))}
    elif fam == "chain":
        c = {"fam": fam, "obj": draw(objs.transform_case(kinds=["TransformChain"]))}
    elif fam == "withdims":
        c = {"fam": fam, "obj": draw(objs.transform_case(kinds=["WithDims"]))}
    elif fam == "warp":
        wc = draw(objs.warp_case())
        c = {"fam": fam, "obj": wc, "applied": draw(st.booleans()), "picks": draw(objs.bary_picks(2, 5))}
    elif fam == "rbf":
        c = {"fam": fam, "obj": {"kind": draw(st.sampled_from(RBF_CLASSES)), "c": draw(gen.points_case(n_min=2, n_max=6, d=2))}}
    elif fam == "manager":
        d = draw(st.sampled_from([2, 3]))
        k = draw(st.integers(0, 3))
        names = draw(st.lists(st.text(max_size=4), min_size=k, max_size=k, unique=True))
        c = {"fam": fam, "obj": {"kind": "LandmarkManager", "d": d,
                                 "groups": [[nm, draw(objs.shape_case(d=d, with_landmarks=False, n_min=3, n_max=5))] for nm in names]}}
    elif fam == "lazy":
        k = draw(st.integers(0, 4))
        c = {"fam": fam, "obj": {"kind": "LazyList", "items": draw(st.lists(st.lists(gen.q(-4, 4), min_size=1, max_size=3), min_size=k, max_size=k)),
                                 "scale": draw(gen.q(0.5, 2))}}
    else:
        c = {"fam": fam, "obj": draw(s_model(draw(st.sampled_from(MODEL_KINDS))))}
    c["side"] = draw(st.sampled_from(["orig", "copy"]))
    c["buf"] = draw(st.integers(0, 63))
    # read-only state at copy time: "fv" = rebuilt with x.from_vector(x.as_vector()) (a read-only view on the source
    # object's memory), "flag" = one drawn array frozen (flags.writeable = False), "flags" = all of them frozen
    c["ro"] = draw(st.sampled_from(["none", "none", "none", "fv", "fv", "flag", "flags"]))
    c["robuf"] = draw(st.integers(0, 63))
    c["ops"] = draw(st.lists(st.tuples(st.integers(0, 15), st.integers(0, 2**16)).map(list), min_size=1, max_size=3))
    return c


def _pca_template_mask(c):
    """Mask shared by all MaskedImage samples of a PCAModel case (at least two true pixels, at least one false)."""
    shape = tuple(c.get("ishape", [2, 2]))
    m = np.random.RandomState(c["seed"] + 17).rand(*shape) > 0.35
    m.flat[0], m.flat[1], m.flat[-1] = True, True, False
    return m


def pca_samples(c, r, n):
    """n fresh Vectorizable samples of the template family of a PCAModel case; the FIRST one (the one PCAModel keeps
    as its template) carries the landmark group when the case asks for one."""
    tmpl = c.get("tmpl", "PointCloud")
    base, lm = tmpl.split("+")[0], tmpl.endswith("+lm")
    out = []
    for i in range(n):
        if base == "PointCloud":
            x = PointCloud(r.randn(c["npts"], 2) * 3)
        elif base == "Image":
            x = Image(r.randn(c["ch"], *c["ishape"]) * 3)
        else:
            x = MaskedImage(r.randn(c["ch"], *c["ishape"]) * 3, mask=_pca_template_mask(c))
        if lm and i == 0:
            x.landmarks["tmpl_group"] = PointCloud(np.round(r.rand(3, 2) * 128) / 64)
        out.append(x)
    return out


def _orthonormal_rows(r, k, f):
    q = np.linalg.qr(r.randn(f, k))[0].T
    return np.ascontiguousarray(q[:k])


def build_model(c):
    r = np.random.RandomState(c["seed"])
    kind = c["kind"]
    if kind == "LinearVectorModel":
        return LinearVectorModel(r.randn(c["k"], c["f"]))
    if kind == "MeanLinearVectorModel":
        return MeanLinearVectorModel(r.randn(c["k"], c["f"]), r.randn(c["f"]))
    ctor = c.get("ctor", "samples")
    if kind == "PCAVectorModel":
        f = c["f"]
        scale = 1.0 + np.arange(f)
        if ctor == "samples":
            m = PCAVectorModel(r.randn(c["n"], f) * scale, centre=c["centre"])
        elif ctor == "components":
            k = max(2, min(f - 1, c["n"] - 1))
            m = PCAVectorModel.init_from_components(_orthonormal_rows(r, k, f), np.sort(r.rand(k) + 0.5)[::-1].copy(), r.randn(f), c["n"], c["centre"])
        else:
            a = r.randn(c["n"], f) * scale
            a = a - a.mean(axis=0)
            m = PCAVectorModel.init_from_covariance_matrix(a.T.dot(a) / (c["n"] - 1), r.randn(f), c["n"], centred=c["centre"])
    else:
        if ctor == "samples":
            m = PCAModel(pca_samples(c, r, c["n"]), centre=c["centre"])
        else:
            mean = pca_samples(c, r, 1)[0]
            f = mean.n_parameters
            if ctor == "components":
                k = max(2, min(f - 1, c["n"] - 1))
                m = PCAModel.init_from_components(_orthonormal_rows(r, k, f), np.sort(r.rand(k) + 0.5)[::-1].copy(), mean, c["n"], c["centre"])
            else:
                a = r.randn(c["n"], f) * 3
                a = a - a.mean(axis=0)
                m = PCAModel.init_from_covariance_matrix(a.T.dot(a) / (c["n"] - 1), mean, c["n"], centred=c["centre"])
    st_ = c["state"]
    k = max(1, min(c["k"], m.n_components - 1)) if m.n_components > 1 else 1
    if st_ == "active":
        m.n_active_components = k
    if st_.startswith("trimmed"):
        m.trim_components(k)
    if st_.endswith("incremented"):
        if kind == "PCAVectorModel":
            m.increment(r.randn(3, c["f"]) * (1.0 + np.arange(c["f"])))
        else:
            m.increment(pca_samples(dict(c, tmpl=c.get("tmpl", "PointCloud").split("+")[0]), r, 3))
    return m


def build_object(case):
    fam, oc = case["fam"], case["obj"]
    if fam == "shape":
        return objs.build_shape(oc)
    if fam == "image":
        return objs.build_image(oc)
    if fam in ("homog", "chain", "withdims"):
        return objs.build_transform(oc)
    if fam == "warp":
        t = objs.build_warp(oc)
        if case["applied"]:
            t.apply(_warp_points(case, t))
        return t
    if fam == "rbf":
        return getattr(menpo.transform.rbf, oc["kind"])(np.array(oc["c"], dtype=float))
    if fam == "manager":
        m = LandmarkManager()
        for nm, sc in oc["groups"]:
            m[nm] = objs.build_shape(sc)
        return m
    if fam == "lazy":
        return LazyList.init_from_iterable([np.array(x, dtype=float) for x in oc["items"]], f=partial(_lazy_f, oc["scale"]))
    return build_model(oc)


def _freezable(o):
    return [(p, b) for p, b in digest.buffers(o) if isinstance(b, np.ndarray) and b.size and b.flags.writeable
            and not rs.is_shared_by_design(p) and not _memo(p)]


def build_subject(case):
    """(object under test, base) - the object of the case brought into the drawn read-only state. `base` is the
    object whose memory a from_vector(as_vector()) rebuild is a view on (None otherwise): writing into the base is a
    legal way of changing the rebuilt object's data after it was copied."""
    o = build_object(case)
    ro = case.get("ro", "none")
    if ro == "none":
        return o, None
    if ro == "fv":
        fam = case["fam"]
        if fam == "shape":
            return o.from_vector(o.as_vector()), o
        if fam == "image" and type(o) in (Image, menpo.image.BooleanImage):
            return o.from_vector(o.as_vector(), copy=False), o
        ro = "flag"
    cand = _freezable(o)
    if cand:
        if ro == "flag":
            cand = [cand[case.get("robuf", 0) % len(cand)]]
        for _, b in cand:
            b.flags.writeable = False
    return o, None


def thaw(o):
    """The owner re-enables writing: every read-only array reachable from o becomes writable again (arrays whose
    memory is owned by a read-only buffer cannot; they are counted and left alone). Returns (thawed, refused)."""
    done = refused = 0
    for p, b in digest.buffers(o):
        if isinstance(b, np.ndarray) and not b.flags.writeable:
            try:
                b.flags.writeable = True
                done += 1
            except ValueError:
                refused += 1
    return done, refused


def _warp_points(case, t):
    oc = case["obj"]
    if oc["kind"] == "ThinPlateSplines":
        return np.array(oc["src"], dtype=float)[:3] + 0.125
    return objs.bary_points(oc["src"], np.array(t.trilist), case["picks"])


# ------------------------------------------------------------------------------------------ aliasing queries
def containers(obj):
    """(path, object) for every mutable container / attribute-carrying object reachable from obj
    (dict, list, sparse matrix, instance with __dict__); callables and immutable leaves are not listed."""
    import scipy.sparse as sp

    out = []
    leaf = (np.ndarray, str, bytes, int, float, complex, bool, type(None), np.generic)

    def rec(o, path, seen):
        if isinstance(o, leaf) or id(o) in seen:
            return
        seen = seen | {id(o)}
        if isinstance(o, tuple):
            for i, v in enumerate(o):
                rec(v, "%s[%d]" % (path, i), seen)
            return
        if sp.issparse(o):
            out.append((path, o))
            return
        ch = digest._children(o)
        if ch is None:
            return
        out.append((path, o))
        for name, v in ch:
            rec(v, path + name, seen)

    rec(obj, "", set())
    return out


def shared_containers(a, b):
    ia = {id(o): p for p, o in containers(a) if p != ""}
    return [(ia[id(o)], p) for p, o in containers(b) if id(o) in ia and p != ""]


# ------------------------------------------------------------------------------------------ mutators
def _small_pc(seed, d, n=3):
    r = np.random.RandomState(seed)
    return PointCloud(np.round(r.rand(n, d) * 8 * 64) / 64)


def mutators_for(case, x, y=None):
    """List of (name, callable(x, seed)) public mutators applicable to this object; each returns True when it ran."""
    fam, oc = case["fam"], case["obj"]
    out = []
    if fam in ("shape", "image"):
        d = x.n_dims

        def lm_set(o, s):
            names = ["new", "g", "PTS", "*"]
            o.landmarks[names[s % 4]] = _small_pc(s, d)
            return True

        def lm_del(o, s):
            if not o.has_landmarks:
                return False
            keys = list(o.landmarks)
            del o.landmarks[keys[s % len(keys)]]
            return True

        def lm_edit(o, s):
            if not o.has_landmarks:
                return False
            keys = list(o.landmarks)
            o.landmarks[keys[s % len(keys)]].points[0, 0] += 1.5
            return True

        def lm_assign(o, s):
            m = LandmarkManager()
            m["assigned"] = _small_pc(s, d)
            o.landmarks = m
            return True

        def fvi(o, s):
            n = o.n_parameters
            v = rs_vector(s, n, o.as_vector().dtype)
            o._from_vector_inplace(v)
            return True

        def fvi_public(o, s):
            o.from_vector_inplace(rs_vector(s, o.n_parameters, o.as_vector().dtype))  # deprecated, still public
            return True

        def lm_update(o, s):
            o.landmarks.update([("new", _small_pc(s, d)), ("upd", _small_pc(s + 1, d))])
            return True

        def lm_pop(o, s):
            if not o.has_landmarks:
                return False
            keys = list(o.landmarks)
            o.landmarks.pop(keys[s % len(keys)]).points[0, 0] -= 2.5
            return True

        def lm_clear(o, s):
            if not o.has_landmarks:
                return False
            o.landmarks.clear()
            return True

        out += [("landmarks.__setitem__", lm_set), ("landmarks.__delitem__", lm_del), ("landmarks[...].points edit", lm_edit),
                ("landmarks =", lm_assign), ("_from_vector_inplace", fvi), ("from_vector_inplace", fvi_public),
                ("landmarks.update", lm_update), ("landmarks.pop", lm_pop), ("landmarks.clear", lm_clear)]
        if fam == "shape":
            def tr_inplace(o, s):
                o._transform_inplace(Translation(np.arange(1, d + 1) * 0.5).apply)
                return True

            def apply_inplace(o, s):
                Translation(np.arange(1, d + 1) * 0.25).apply_inplace(o)  # deprecated, still public
                return True

            out += [("_transform_inplace", tr_inplace), ("Transform.apply_inplace(shape)", apply_inplace)]
    elif fam == "homog":
        kind, d = oc["kind"], oc["d"]

        def cbi(o, s):
            o.compose_before_inplace(objs.build_homog(case["partner"]))
            return True

        def cai(o, s):
            o.compose_after_inplace(objs.build_homog(case["partner"]))
            return True

        out += [("compose_before_inplace", cbi), ("compose_after_inplace", cai)]
        if y is not None:
            # the OTHER side of the copy pair passed as the argument: composing a transform with its own copy
            def cbi_other(o, s):
                if not isinstance(y, o.composes_inplace_with):
                    return False
                o.compose_before_inplace(y)
                return True

            def cai_other(o, s):
                if not isinstance(y, o.composes_inplace_with):
                    return False
                o.compose_after_inplace(y)
                return True

            out += [("compose_before_inplace(other side)", cbi_other), ("compose_after_inplace(other side)", cai_other)]
        if (kind.replace("Alignment", ""), d) not in (("Similarity", 3), ("Rotation", 2)):
            def fvi(o, s):
                n = o.n_parameters
                if "Rotation" in kind:
                    r = np.random.RandomState(s)
                    v = gen.build_unit_quaternion(list(r.rand(4) + 0.1))
                else:
                    v = rs_vector(s, n, "float64")
                o._from_vector_inplace(v)
                return True

            def _vec(o, s):
                if "Rotation" in kind:
                    return gen.build_unit_quaternion(list(np.random.RandomState(s).rand(4) + 0.1))
                return rs_vector(s, o.n_parameters, "float64")

            def fvi_public(o, s):
                o.from_vector_inplace(_vec(o, s))  # deprecated, still public
                return True

            def cafvi(o, s):
                o.compose_after_from_vector_inplace(_vec(o, s))
                return True

            out += [("_from_vector_inplace", fvi), ("from_vector_inplace", fvi_public), ("compose_after_from_vector_inplace", cafvi)]
        if kind in objs.ALIGN_KINDS:
            def set_target(o, s):
                r = np.random.RandomState(s)
                t = np.array(oc["tgt"], dtype=float)
                o.set_target(PointCloud(t + np.round(r.rand(*t.shape) * 64) / 64))
                return True

            out.append(("set_target", set_target))
    elif fam == "chain":
        d = oc["d"]

        def cbi(o, s):
            o.compose_before_inplace(Translation(np.ones(d)))
            return True

        def cai(o, s):
            o.compose_after_inplace(Translation(np.ones(d) * 2))
            return True

        out += [("compose_before_inplace", cbi), ("compose_after_inplace", cai)]
    elif fam == "warp":
        def set_target(o, s):
            r = np.random.RandomState(s)
            t = np.array(oc["tgt"], dtype=float)
            o.set_target(PointCloud(t + (np.round(r.rand(*t.shape) * 64) / 64 - 0.5) * 0.05))
            return True

        def apply_(o, s):
            o.apply(_warp_points(case, o))
            return True

        out += [("set_target", set_target), ("apply", apply_)]
    elif fam == "manager":
        d = oc["d"]

        def lm_set(o, s):
            o[["new", "*", "", "a b"][s % 4]] = _small_pc(s, d)
            return True

        def lm_del(o, s):
            keys = list(o)
            if not keys:
                return False
            del o[keys[s % len(keys)]]
            return True

        def lm_edit(o, s):
            keys = list(o)
            if not keys:
                return False
            o[keys[s % len(keys)]].points[0, 0] += 1.5
            return True

        def tr_inplace(o, s):
            o._transform_inplace(Translation(np.arange(1, d + 1) * 0.5).apply)
            return True

        def lm_update(o, s):
            o.update({"new": _small_pc(s, d), "upd": _small_pc(s + 1, d)})
            return True

        def lm_setdefault(o, s):
            o.setdefault(["new", "sd"][s % 2], _small_pc(s, d)).points[0, 0] += 0.75
            return True

        def lm_pop(o, s):
            keys = list(o)
            if not keys:
                return False
            o.pop(keys[s % len(keys)]).points[0, 0] -= 2.5
            return True

        def lm_popitem(o, s):
            if not len(o):
                return False
            o.popitem()[1].points[0, 0] -= 2.5
            return True

        def lm_clear(o, s):
            if not len(o):
                return False
            o.clear()
            return True

        def apply_inplace(o, s):
            Translation(np.arange(1, d + 1) * 0.25).apply_inplace(o)  # deprecated, still public
            return True

        out += [("__setitem__", lm_set), ("__delitem__", lm_del), ("[...].points edit", lm_edit), ("_transform_inplace", tr_inplace),
                ("update", lm_update), ("setdefault", lm_setdefault), ("pop", lm_pop), ("popitem", lm_popitem), ("clear", lm_clear),
                ("Transform.apply_inplace(manager)", apply_inplace)]
    elif fam == "lazy":
        def app(o, s):
            o._callables.append(partial(_lazy_f, 1.0, [float(s % 7)]))
            return True

        def pop(o, s):
            if not len(o):
                return False
            o._callables.pop(s % len(o))
            return True

        out += [("_callables.append", app), ("_callables.pop", pop)]
    elif fam == "model":
        kind = oc["kind"]

        def comp_set(o, s):
            r = np.random.RandomState(s)
            o.components = r.randn(*o._components.shape)
            return True

        def ortho(o, s):
            # after "components = <arbitrary rows>" an increment can leave more components than features (the update
            # assumes orthonormal eigenvectors): orthonormalising those is impossible, not a copy matter
            if o.n_components > o.n_features:
                return False
            o.orthonormalize_inplace()
            return True

        def ortho_against(o, s):
            # documented domain: an other model with fewer components than features (plain linear models: the component
            # counts must add up to at most n_features, else the documented ValueError); a PCA model may lose components
            f, k = o.n_features, o.n_components
            if k > f:
                return False
            pca = kind.startswith("PCA")
            k2 = 1 + s % 2
            if (not pca and k + k2 > f) or k2 >= f:
                return False
            other = LinearVectorModel(_orthonormal_rows(np.random.RandomState(s), k2, f))
            o.orthonormalize_against_inplace(other)
            return True

        if kind in ("LinearVectorModel", "MeanLinearVectorModel"):
            out += [("components =", comp_set), ("orthonormalize_inplace", ortho), ("orthonormalize_against_inplace", ortho_against)]
        else:
            def nac(o, s):
                o.n_active_components = 1 + s % o.n_components
                return True

            def trim(o, s):
                if o.n_components < 2:
                    return False
                o.trim_components(1 + s % (o.n_components - 1))
                return True

            def inc(o, s):
                r = np.random.RandomState(s)
                if kind == "PCAModel":
                    o.increment(pca_samples(dict(oc, tmpl=oc.get("tmpl", "PointCloud").split("+")[0]), r, 2))
                else:
                    o.increment(r.randn(2, oc["f"]) * (1.0 + np.arange(oc["f"])))
                return True

            def tmpl_lm(o, s):
                t = getattr(o, "template_instance", None)
                if t is None:
                    return False
                t.landmarks["tmpl_group" if s % 2 else "tmpl_new"] = _small_pc(s, t.n_dims)
                return True

            out += [("n_active_components =", nac), ("trim_components", trim), ("increment", inc), ("components =", comp_set),
                    ("orthonormalize_inplace", ortho), ("orthonormalize_against_inplace", ortho_against),
                    ("template_instance.landmarks.__setitem__", tmpl_lm)]
    return out


def rs_vector(seed, n, dtype):
    r = np.random.RandomState(seed)
    dtype = np.dtype(dtype)
    if dtype == bool:
        return r.rand(n) > 0.5
    if dtype.kind in "iu":
        return r.randint(0, 200, size=n).astype(dtype)
    return (np.round(r.rand(n) * 8 * 64) / 64 + 0.25).astype(dtype)


def _memo(path):
    """CachedPWA memoises (index, alpha, beta) of its last apply in the tuple _iab. It is neither a parameter array nor
    written in place by any public operation (apply replaces the tuple), so a copy sharing it is outside the property's
    quantifier for transforms ("their own parameter arrays and every public mutator"); public mutators are still probed."""
    return path.startswith("._iab[")


def sig_path(cls, path):
    """Root-cause key of an aliasing finding: the attribute of the copied object that is shared (one bucket for
    everything below a Landmarkable's landmark manager, whose copy is LandmarkManager.copy's business)."""
    comps = [c for c in rs.strip_keys(path).split(".") if c]
    if comps and comps[0] == "_landmarks":
        return "landmarks:" + ".".join(comps[1:2])
    return "%s:%s" % (cls, ".".join(comps[:1]))


def pokeable(x):
    """Writable arrays of x that the sentinel may overwrite: not the documented-shared point sets, not the CachedPWA
    memo, and never the index arrays of a sparse matrix (overwriting those makes the matrix itself ill-formed)."""
    return [(p, b) for p, b in rs.writable_buffers(x)
            if not rs.is_shared_by_design(p) and not _memo(p) and not p.endswith((".indices", ".indptr", ".row", ".col"))]


def _unshared(ctx, a, b, sig, what):
    """No buffer / container of a is shared with b beyond the documented whitelist."""
    ok = True
    for pa, pb in digest.shared_buffers(a, b):
        if _memo(pa) and _memo(pb):
            continue
        if not rs.sharing_allowed(pa, pb):
            ctx.fail(sig + ":" + sig_path(type(a).__name__, pa), "%s: receiver%s and result%s share memory" % (what, pa, pb))
            ok = False
    return ok


def derived_checks(case, o, ctx):
    """Entry points documented to hand out a copy / a new object of the receiver: as_non_alignment ("a copy of this
    transform without its alignment nature"), alignment pseudoinverse (a copy with a new matrix), LazyList.map / repeat /
    + / slicing ("a new LazyList")."""
    fam, oc = case["fam"], case["obj"]
    if fam == "homog" and oc["kind"] in objs.ALIGN_KINDS:
        from menpo.transform.base.alignment import Alignment

        d_o = rs.ndigest(o)
        na = o.as_non_alignment()
        ctx.event("derived=as_non_alignment")
        ctx.expect(not isinstance(na, Alignment), "as_non_alignment.still_alignment:" + oc["kind"], lambda: type(na).__name__)
        ctx.expect(na.h_matrix.shape == o.h_matrix.shape and np.array_equal(na.h_matrix, o.h_matrix), "as_non_alignment.matrix_differs:" + oc["kind"], "")
        if _unshared(ctx, o, na, "as_non_alignment.shares_buffer", "as_non_alignment()"):
            for p, bf in pokeable(na):
                rs.poke(bf)
            dd = rs.ndiff(d_o, rs.ndigest(o))
            ctx.expect(dd is None, "as_non_alignment.write_reaches_receiver:" + oc["kind"], lambda: repr(dd))
        pi = o.pseudoinverse()
        ctx.event("derived=alignment.pseudoinverse")
        ctx.expect(type(pi) is type(o), "pseudoinverse.class:" + oc["kind"], lambda: type(pi).__name__)
        if _unshared(ctx, o, pi, "pseudoinverse.shares_buffer", "pseudoinverse()"):
            pi.h_matrix[0, -1] += 3.0
            dd = rs.ndiff(d_o, rs.ndigest(o))
            ctx.expect(dd is None, "pseudoinverse.write_reaches_receiver:" + oc["kind"], lambda: repr(dd))
    elif fam == "lazy":
        items = [_lazy_f(oc["scale"], x) for x in oc["items"]]
        n = len(items)
        k, seed = case["ops"][0]
        lo, hi = sorted([seed % (n + 1), (seed // 7) % (n + 1)])
        # every derived-list operation on every lazy case (a drawn one reached repeat(1) once in ~500 cases)
        for which, rep_all in (("map", 0), ("map_list", 0), ("repeat", 1), ("repeat", 2), ("repeat", 3), ("add_lazy", 0),
                               ("add_list", 0), ("slice", 0), ("index_list", 0)):
            ctx.event("derived=LazyList.%s" % which)
            if which == "map":
                res, want = o.map(partial(_lazy_f, 2.0)), [x * 2.0 for x in items]
            elif which == "map_list":
                res, want = o.map([partial(_lazy_f, float(i + 1)) for i in range(n)]), [x * float(i + 1) for i, x in enumerate(items)]
            elif which == "repeat":
                rep = rep_all
                res, want = o.repeat(rep), [x for x in items for _ in range(rep)]
            elif which == "add_lazy":
                res, want = o + o, items + items
            elif which == "add_list":
                extra = [np.array([float(seed % 5)])] * (seed % 3)
                res, want = o + extra, items + extra
            elif which == "slice":
                res, want = o[lo:hi], items[lo:hi]
            else:
                idx = [(seed + 3 * j) % n for j in range(min(n, 3))] if n else []
                res, want = o[idx], [items[i] for i in idx]
            ctx.expect(isinstance(res, LazyList) and res is not o, "lazylist.%s.not_a_new_list" % which, lambda: type(res).__name__)
            if isinstance(res, LazyList):
                ctx.expect(res._callables is not o._callables, "lazylist.%s.shares_callables_list" % which, "")
                ctx.expect(len(res) == len(want) and all(np.array_equal(res[i], want[i]) for i in range(len(want))), "lazylist.%s.items" % which, lambda: "%d items, want %d" % (len(res), len(want)))
                res._callables.append(partial(_lazy_f, 1.0, [0.0]))
                if len(res) > 1:
                    res._callables.pop(0)
                ctx.expect(len(o) == n and all(np.array_equal(o[i], items[i]) for i in range(n)), "lazylist.%s.edit_of_result_reaches_receiver" % which, "")


def c_object(case, ctx):
    fam = case["fam"]
    ro = case.get("ro", "none")
    o, base = build_subject(case)
    cls = type(o).__name__
    ctx.event("class=%s" % cls)
    n_frozen = len(rs.frozen_buffers(o))
    ctx.event("read-only arrays at copy time: %s" % ("none" if not n_frozen else "some (%s)" % ("from_vector view" if base is not None else ro if ro != "none" else "constructor")))
    if fam == "warp":
        ctx.event("%s applied=%s" % (cls, case["applied"]))
    if fam == "model" and "state" in case["obj"]:
        ctx.event("%s state=%s" % (cls, case["obj"]["state"]))
        ctx.event("%s ctor=%s" % (cls, case["obj"].get("ctor", "samples")))
        if cls == "PCAModel":
            ctx.event("PCAModel template=%s" % case["obj"].get("tmpl", "PointCloud"))
    d_o = rs.ndigest(o)
    c = o.copy()
    # 1. same type, equal state, original untouched by the act of copying
    ctx.expect(type(c) is type(o), "copy.class:" + cls, lambda: type(c).__name__)
    sd = rs.nstate_diff(o, c)
    if sd is not None:
        ctx.fail("copy.state_differs:" + sig_path(cls, rs.strip_keys(sd).split(": ")[0].split(" missing")[0]), sd)
    dd = rs.ndiff(d_o, rs.ndigest(o))
    ctx.expect(dd is None, "copy.mutated_original:" + cls, lambda: repr(dd))
    if fam == "lazy":
        ctx.expect(len(c) == len(o) and all(np.array_equal(c[i], o[i]) for i in range(len(o))), "copy.lazylist_items_differ", "")
    # 2. no shared memory / containers beyond the documented whitelist
    for pa, pb in digest.shared_buffers(o, c):
        if _memo(pa) and _memo(pb):
            ctx.event("shared memo cache (CachedPWA._iab)")
            continue
        if not rs.sharing_allowed(pa, pb):
            ctx.fail("copy.shares_buffer:" + sig_path(cls, pa), "original%s and copy%s share memory" % (pa, pb))
    for pa, pb in shared_containers(o, c):
        if not rs.sharing_allowed(pa, pb):
            ctx.fail("copy.shares_container:" + sig_path(cls, pa), "original%s and copy%s are the same %s object" % (pa, pb, type(o).__name__))
    n_bufs = len([1 for p, b in digest.buffers(o) if b.size])
    # 3. behavioural independence
    side = case["side"]
    x, y = (o, c) if side == "orig" else (c, o)
    ctx.event("mutated side=%s" % side)
    if base is not None:
        # the rebuilt original is a view on `base`: a write through the base moves the original, never the copy
        d_c = rs.ndigest(c)
        for p, b in pokeable(base):
            rs.poke(b)
        dd = rs.ndiff(d_c, rs.ndigest(c))
        if dd is not None:
            ctx.fail("write.through_base_visible_in_copy:" + sig_path(cls, dd[0]), "wrote into the object the original was rebuilt from (from_vector(as_vector())); the copy changed at %r" % (dd,))
    d_y = rs.ndigest(y)
    thawed, refused = thaw(x)  # the owner re-enables writing on its own arrays
    if thawed:
        ctx.event("thawed read-only arrays before writing")
    if refused:
        ctx.event("read-only array that cannot be made writable")
    cand = pokeable(x)
    ran = False
    if cand:
        p, b = cand[case["buf"] % len(cand)]
        rs.poke(b)
        dd = rs.ndiff(d_y, rs.ndigest(y))
        if dd is not None:
            ctx.fail("write.visible_in_other:" + sig_path(cls, p), "wrote into %s%s; the %s changed at %r" % (side, p, "copy" if side == "orig" else "original", dd))
    # public mutators on a second, freshly built pair (the sentinel above may have corrupted the probed side)
    o2, base2 = build_subject(case)
    c2 = o2.copy()
    x, y = (o2, c2) if side == "orig" else (c2, o2)
    d_y = rs.ndigest(y)
    thaw(x)
    muts = mutators_for(case, x, y)
    for k, seed in case["ops"]:
        if not muts:
            break
        name, f = muts[k % len(muts)]
        if f(x, seed):
            ran = True
            ctx.event("mutator=%s" % name)
            dd = rs.ndiff(d_y, rs.ndigest(y))
            if dd is not None:
                ctx.fail("mutator.visible_in_other:%s:%s" % (cls, name), "%s on the %s changed the %s at %r" % (name, side, "copy" if side == "orig" else "original", dd))
                break
    if ran and not ctx.fails:
        # the mutated object must not have picked up memory of the other one either
        for pa, pb in digest.shared_buffers(x, y):
            if not (rs.sharing_allowed(pa, pb) or (_memo(pa) and _memo(pb))):
                ctx.fail("mutator.created_sharing:" + sig_path(cls, pa), "after the mutators %s%s and other%s share memory" % (side, pa, pb))
    if not ctx.fails and ro == "none":
        derived_checks(case, build_object(case), ctx)
    ctx.nontrivial(n_bufs >= 2 or ran)


# ------------------------------------------------------------------------------------------ histories
NAME_POOL = ["a", "b", "*", "?", "[ab]", "", "a*", "ü", "left eye", "PTS", "[", "]", "a?b", "A"]
PATTERN_ATOMS = ["*", "?", "a", "b", "[ab]", "ü", " ", "P", "T", "S"]


def s_name():
    return st.one_of(st.sampled_from(NAME_POOL), st.sampled_from(NAME_POOL), st.text(max_size=5))


@st.composite
def s_lshape(draw, d=None):
    """Landmark shape spec: mostly small chain-connected shapes; one in four is an arbitrary shape of any of the 8
    concrete classes (objs.shape_case). "ro": the value holds read-only arrays when it is assigned ("fv" = rebuilt
    with from_vector(as_vector()), "flags" = every array frozen)."""
    if d is None:
        d = draw(st.sampled_from([2, 2, 2, 3]))
    ro = draw(st.sampled_from(["none", "none", "none", "fv", "flags"]))
    if draw(st.integers(0, 3)) == 0:
        return {"kind": "full", "d": d, "case": draw(objs.shape_case(d=d, with_landmarks=False, n_min=3, n_max=5)), "ro": ro}
    n = draw(st.integers(1, 4))
    kind = draw(st.sampled_from(["PointCloud", "PointCloud", "PointUndirectedGraph", "LabelledPointUndirectedGraph", "TriMesh"]))
    if kind == "TriMesh" and n < 3:
        kind = "PointCloud"
    return {"kind": kind, "d": d, "pts": draw(st.lists(st.lists(gen.q(0, 6, 64), min_size=d, max_size=d), min_size=n, max_size=n)), "ro": ro}


def _build_lshape_plain(spec):
    if spec["kind"] == "full":
        return objs.build_shape(spec["case"])
    pts = np.array(spec["pts"], dtype=float)
    n = pts.shape[0]
    k = spec["kind"]
    if k == "PointCloud":
        return PointCloud(pts)
    if k == "TriMesh":
        return TriMesh(pts, trilist=np.array([[0, 1, 2]]))
    adj = np.zeros((n, n), dtype=int)
    for i in range(n - 1):
        adj[i, i + 1] = adj[i + 1, i] = 1
    if k == "PointUndirectedGraph":
        return PointUndirectedGraph(pts, adj)
    l2m = OrderedDict()
    l2m["all"] = np.ones(n, dtype=bool)
    first = np.zeros(n, dtype=bool)
    first[0] = True
    l2m["first"] = first
    return LabelledPointUndirectedGraph(pts, adj, l2m)


def build_lshape(spec):
    sh = _build_lshape_plain(spec)
    ro = spec.get("ro", "none")
    if ro == "fv":
        sh = sh.from_vector(sh.as_vector())  # .points is now a read-only view (its base array stays alive with it)
    elif ro == "flags":
        for _, b in _freezable(sh):
            b.flags.writeable = False
    return sh


UPDATE_FORMS = ["dict", "pairs", "kwargs", "manager"]


@st.composite
def s_history(draw):
    owners = []
    for _ in range(draw(st.integers(1, 3))):
        k = draw(st.sampled_from(["PointCloud", "TriMesh", "Image", "MaskedImage", "PointCloud3", "TriMesh3"]))
        owners.append({"kind": k, "seed": draw(st.integers(0, 999)), "ro": draw(st.sampled_from([False, False, True]))})
    n_steps = draw(st.integers(4, 30))
    steps = []
    kinds = ["set", "set", "set", "set_own_group", "get", "get_none", "del", "query", "copy", "assign", "assign", "mutate_assigned", "mutate_assigned",
             "mutate_assigned", "mutate_handle", "mutate_handle", "mutate_handle", "transform", "set_wrong_dim", "set_none", "set_bad_type", "glob",
             "get_missing", "update", "update", "setdefault", "pop", "popitem", "clear", "copy_owner", "copy_owner", "clp"]
    for _ in range(n_steps):
        k = draw(st.sampled_from(kinds))
        slot = draw(st.integers(0, 31))
        if k == "set":
            # the 5th entry (optional) makes one set in three re-use a name the manager already holds (a replacement)
            steps.append([k, slot, draw(s_name()), draw(s_lshape()), draw(st.integers(0, 31))])
        elif k in ("get", "del", "get_missing", "set_own_group"):
            steps.append([k, slot, draw(s_name()), draw(st.integers(0, 31))])
        elif k in ("get_none", "query", "copy", "popitem", "clear", "copy_owner"):
            steps.append([k, slot])
        elif k in ("assign", "clp"):
            steps.append([k, slot, draw(st.integers(0, 31))])
        elif k in ("mutate_assigned", "mutate_handle"):
            # [pool index, row, column, delta, also flip a label mask, which public array (0 mod 3: a non-coordinate one)]
            steps.append([k, draw(st.integers(0, 31)), draw(st.integers(0, 31)), draw(st.integers(0, 2)), draw(gen.qnz(-2, 2, 1 / 16, 64)), draw(st.booleans()),
                          draw(st.integers(0, 31))])
        elif k == "transform":
            steps.append([k, slot, draw(st.sampled_from(["Translation", "Affine"])), draw(st.integers(0, 999))])
        elif k in ("set_wrong_dim", "set_bad_type"):
            steps.append([k, slot, draw(s_name()), draw(st.integers(0, 999))])
        elif k == "set_none":
            steps.append([k, slot, draw(s_lshape())])
        elif k == "glob":
            steps.append([k, slot, "".join(draw(st.lists(st.sampled_from(PATTERN_ATOMS), min_size=0, max_size=4)))])
        elif k == "update":
            # items usually of one dimensionality (drawn per step), sometimes mixed: update is then refused part-way
            d = draw(st.sampled_from([2, 2, 2, 3]))
            mixed = draw(st.integers(0, 4)) == 0
            items = [[draw(s_name()), draw(s_lshape(d=None if mixed else d))] for _ in range(draw(st.integers(0, 3)))]
            steps.append([k, slot, draw(st.sampled_from(UPDATE_FORMS)), items, draw(st.integers(0, 31))])
        elif k == "setdefault":
            steps.append([k, slot, draw(s_name()), draw(s_lshape()), draw(st.integers(0, 31))])
        elif k == "pop":
            steps.append([k, slot, draw(s_name()), draw(st.integers(0, 31)), draw(st.booleans())])
    return {"owners": owners, "steps": steps}


def glob_match(name, pat):
    """Independent matcher for patterns made of literals, '*', '?' and '[xyz]' (plain character list)."""
    toks = []
    i = 0
    while i < len(pat):
        ch = pat[i]
        if ch == "[":
            j = pat.index("]", i)
            toks.append(("set", pat[i + 1:j]))
            i = j + 1
        elif ch == "*":
            toks.append(("star", None))
            i += 1
        elif ch == "?":
            toks.append(("any", None))
            i += 1
        else:
            toks.append(("lit", ch))
            i += 1

    def m(ti, ni):
        if ti == len(toks):
            return ni == len(name)
        kind, arg = toks[ti]
        if kind == "star":
            return any(m(ti + 1, k) for k in range(ni, len(name) + 1))
        if ni >= len(name):
            return False
        if kind == "any":
            return m(ti + 1, ni + 1)
        if kind == "set":
            return name[ni] in arg and m(ti + 1, ni + 1)
        return name[ni] == arg and m(ti + 1, ni + 1)

    return m(0, 0)


class _Tok(object):
    n = 0

    @classmethod
    def new(cls):
        cls.n += 1
        return cls.n


def public_arrays(sh):
    """(name, array) for every data array a landmark shape exposes (coordinates, connectivity, per-vertex colours,
    texture coordinates and pixels, adjacency, label masks), in a fixed order."""
    out = [("points", sh.points)]
    if hasattr(sh, "trilist"):
        out.append(("trilist", sh.trilist))
    if hasattr(sh, "colours"):
        out.append(("colours", sh.colours))
    if hasattr(sh, "tcoords"):
        out.append(("tcoords.points", sh.tcoords.points))
    if hasattr(sh, "texture"):
        out.append(("texture.pixels", sh.texture.pixels))
    if hasattr(sh, "adjacency_matrix"):
        adj = sh.adjacency_matrix
        out += [("adjacency.data", adj.data), ("adjacency.indices", adj.indices), ("adjacency.indptr", adj.indptr)]
    if isinstance(sh, LabelledPointUndirectedGraph):
        for lab in sh.labels:
            out.append(("mask:" + lab, sh._labels_to_masks[lab]))
    return out


def model_value(shape_obj):
    """Model entry: numpy copies of everything that can be edited, plus a fresh identity token."""
    mv = {"cls": type(shape_obj).__name__, "d": int(shape_obj.points.shape[1]), "tok": _Tok.new(),
          "arrays": OrderedDict((nm, np.array(a, copy=True)) for nm, a in public_arrays(shape_obj)),
          "labels": list(shape_obj.labels) if isinstance(shape_obj, LabelledPointUndirectedGraph) else None,
          "root": getattr(shape_obj, "root_vertex", None)}
    return mv


def copy_model(model):
    out = OrderedDict()
    for k, mv in model.items():
        out[k] = dict(mv, arrays=OrderedDict((nm, a.copy()) for nm, a in mv["arrays"].items()), tok=_Tok.new())
    return out


def differs_from_model(g, mv):
    if type(g).__name__ != mv["cls"]:
        return "class %s, model %s" % (type(g).__name__, mv["cls"])
    if mv["labels"] is not None and list(g.labels) != mv["labels"]:
        return "labels %r, model %r" % (list(g.labels), mv["labels"])
    if getattr(g, "root_vertex", None) != mv["root"]:
        return "root vertex %r, model %r" % (getattr(g, "root_vertex", None), mv["root"])
    got = public_arrays(g)
    if [nm for nm, _ in got] != list(mv["arrays"]):
        return "data arrays %r, model %r" % ([nm for nm, _ in got], list(mv["arrays"]))
    for nm, a in got:
        want = mv["arrays"][nm]
        if a.shape != want.shape or not np.array_equal(a, want):
            return "%s differs from the model (%s)" % (nm if not nm.startswith("mask:") else "mask of a label", "max |diff| %s" % float(np.abs(a.astype(float) - want.astype(float)).max()) if a.shape == want.shape and a.size else "shape")
    return None


def _build_owner(spec):
    r = np.random.RandomState(spec["seed"])
    k = spec["kind"]
    ro = spec.get("ro", False)
    if k.startswith("PointCloud"):
        ow = PointCloud(np.round(r.rand(4, 3 if k.endswith("3") else 2) * 640) / 64)
    elif k.startswith("TriMesh"):
        ow = TriMesh(np.round(r.rand(4, 3 if k.endswith("3") else 2) * 640) / 64, trilist=np.array([[0, 1, 2], [1, 2, 3]]))
    elif k == "Image":
        ow = Image(r.rand(2, 5, 6))
        return ow.from_vector(ow.as_vector(), copy=False) if ro else ow
    else:
        ow = MaskedImage(r.rand(1, 5, 6), mask=r.rand(5, 6) > 0.3)
        if ro:
            ow.pixels.flags.writeable = False
            ow.mask.pixels.flags.writeable = False
        return ow
    return ow.from_vector(ow.as_vector()) if ro else ow


class Slot(object):
    __slots__ = ("owner", "mgr", "model", "d")

    def __init__(self, owner=None, mgr=None, model=None, d=None):
        self.owner, self.mgr, self.model, self.d = owner, mgr, model if model is not None else OrderedDict(), d

    @property
    def manager(self):
        return self.owner.landmarks if self.owner is not None else self.mgr

    def dims(self):
        for mv in self.model.values():
            return mv["d"]
        return None


def _writable(a):
    if not a.flags.writeable:
        a.flags.writeable = True  # the owner of the array re-enables writing
    return a


def _bump(a, name, idx, delta, n_points):
    _writable(a)
    if a.dtype == bool:
        a[idx] = not a[idx]
    elif a.dtype.kind in "iu":
        a[idx] = (a[idx] + 1) % n_points if name == "trilist" else a[idx] + 1
    else:
        a[idx] += delta


def _edit(shape_obj, r, c, delta, flip, which=1):
    """In-place edit of a shape through its arrays; returns a function applying the same edit to a model value."""
    n, d = shape_obj.points.shape
    arrs = [(nm, a) for nm, a in public_arrays(shape_obj) if a.size and not nm.endswith((".indices", ".indptr"))]
    if which % 3 == 0 and len(arrs) > 1:
        name, arr = arrs[1 + (which // 3) % (len(arrs) - 1)]
        idx = np.unravel_index((r * 5 + c) % arr.size, arr.shape)
    else:
        name, arr = arrs[0]
        idx = (r % n, c % d)
    _bump(arr, name, idx, delta, n)
    flipped = None
    if flip and isinstance(shape_obj, LabelledPointUndirectedGraph):
        for lab in shape_obj.labels:
            m = shape_obj._labels_to_masks[lab]
            idxs = np.flatnonzero(~m)
            if idxs.size:
                _writable(m)[idxs[0]] = True
                flipped = (lab, int(idxs[0]))
                break

    def on_model(mv):
        _bump(mv["arrays"][name], name, idx, delta, n)
        if flipped is not None:
            mv["arrays"]["mask:" + flipped[0]][flipped[1]] = True

    return name, on_model


def _bounds(a):
    lo = hi = a.__array_interface__["data"][0]
    for k, st_ in zip(a.shape, a.strides):
        if st_ < 0:
            lo += (k - 1) * st_
        else:
            hi += (k - 1) * st_
    return lo, hi + a.itemsize


def unit_arrays(kind, obj):
    """(name, array) of the PUBLIC data arrays of a sharing unit: a landmark shape (public_arrays) or the body of an
    owner (shape arrays / pixels and mask). Private memo slots are deliberately not looked at: an immutable cache that
    two copies share is not observable."""
    if kind == "owner" and isinstance(obj, Image):
        out = [("pixels", obj.pixels)]
        if isinstance(obj, MaskedImage):
            out.append(("mask.pixels", obj.mask.pixels))
        return out
    return public_arrays(obj)


def sharing_between_units(units):
    """units: [(kind, label, object)]. Pairs of arrays that share memory between two different units (interval sweep
    over the byte ranges, confirmed by np.shares_memory): [(kindA, labelA, nameA, kindB, labelB, nameB)]."""
    ivs = []
    for ui, (kind, label, obj) in enumerate(units):
        for nm, b in unit_arrays(kind, obj):
            if isinstance(b, np.ndarray) and b.size:
                lo, hi = _bounds(b)
                ivs.append((lo, hi, ui, nm, b))
    ivs.sort(key=lambda t: (t[0], t[1], t[2]))
    hits, active = [], []
    for iv in ivs:
        active = [a for a in active if a[1] > iv[0]]
        for a in active:
            if a[2] != iv[2] and np.shares_memory(a[4], iv[4]):
                ua, ub = units[a[2]], units[iv[2]]
                hits.append((ua[0], ua[1], a[3], ub[0], ub[1], iv[3]))
        active.append(iv)
    return hits


def check_sharing(slots, detached, ctx, where):
    """Every stored landmark group owns its memory: no array of a group is shared with another group (of the same or of
    any other manager), with the data of any owner, or with a value that was assigned / popped."""
    units, seen = [], set()
    for si, s in enumerate(slots):
        m = s.manager
        if id(m) in seen:
            continue
        seen.add(id(m))
        for nm in list(m):
            units.append(("group", "slot %d group %r" % (si, nm), m[nm]))
        if s.owner is not None:
            units.append(("owner", "slot %d owner data" % si, s.owner))
    for vi, v in enumerate(detached):
        units.append(("value", "detached value %d" % vi, v))
    for ka, la, pa, kb, lb, pb in sharing_between_units(units):
        kinds = sorted([ka, kb])
        if kinds == ["value", "value"]:
            continue  # two caller-side values are the caller's business
        if kinds == ["group", "group"]:
            sig = "history.stored_groups_share_memory:"
        elif "value" in kinds and "group" in kinds:
            sig = "history.stored_group_shares_memory_with_caller_value:"
        else:
            sig = "history.owner_data_shared:"
        ctx.fail(sig + where, "%s .%s and %s .%s share memory" % (la, pa.split(":")[0], lb, pb.split(":")[0]))


def check_invariant(slots, ctx, where):
    for si, s in enumerate(slots):
        m, model = s.manager, s.model
        tag = "owner" if s.owner is not None else "manager"
        names = list(model.keys())
        ok = ctx.expect(list(m) == names, "history.order_or_keys:" + where, lambda: "%s slot %d: list(manager)=%r model=%r" % (tag, si, list(m), names))
        ctx.expect(len(m) == len(names) and m.n_groups == len(names) and list(m.keys()) == list(m) and m.group_labels == list(m) and m.has_landmarks == bool(names),
                   "history.len_keys_labels_inconsistent:" + where, lambda: "%s slot %d" % (tag, si))
        if s.owner is not None:
            ctx.expect(s.owner.has_landmarks == bool(names) and s.owner.n_landmark_groups == len(names), "history.owner_has_landmarks:" + where, lambda: "slot %d" % si)
        if not ok:
            continue
        for nm in names:
            ctx.expect(nm in m, "history.contains:" + where, lambda: repr(nm))
            why = differs_from_model(m[nm], model[nm])
            if why is not None:
                ctx.fail("history.group_differs_from_model:" + where, "%s slot %d group %r: %s" % (tag, si, nm, why))
        dims = {mv["d"] for mv in model.values()}
        ctx.expect(len(dims) <= 1, "history.mixed_dimensions:" + where, lambda: repr(dims))
        ctx.expect(m.n_dims == (dims.pop() if dims else None), "history.n_dims:" + where, lambda: "slot %d n_dims=%r" % (si, m.n_dims))
        try:
            g = m[None]
            if len(names) == 1:
                ctx.expect(g is m[names[0]], "history.none_key_wrong_group:" + where, "")
            else:
                ctx.fail("history.none_key_accepted_with_%s_groups:%s" % ("no" if not names else "several", where), "slot %d has %d groups" % (si, len(names)))
        except ValueError:
            ctx.expect(len(names) != 1, "history.none_key_refused_with_one_group:" + where, "slot %d" % si)


STORING_STEPS = ("set", "set_own_group", "copy", "copy_owner", "assign", "clp", "transform", "update", "setdefault")


def c_history(case, ctx):
    slots = [Slot(mgr=LandmarkManager())]
    for spec in case["owners"]:
        ow = _build_owner(spec)
        slots.append(Slot(owner=ow, d=ow.n_dims))
    owner_slots = [s for s in slots if s.owner is not None]
    assigned = []  # shapes that were handed to set() / update() / setdefault() or popped: detached from every manager
    handles = []  # (object returned by get, token of the model value it is)
    pending_assign = False
    pending_copy = False
    nt = False
    check_invariant(slots, ctx, "initial")
    for step in case["steps"]:
        if ctx.fails:
            break  # model and managers have diverged: later steps would only repeat the first root cause
        k = step[0]
        ctx.event("step=%s" % k)
        if k in ("mutate_assigned", "mutate_handle"):
            pool = assigned if k == "mutate_assigned" else handles
            if not pool:
                continue
            which = step[6] if len(step) > 6 else 1
            if k == "mutate_assigned":
                sh = pool[step[1] % len(pool)]
                name, _ = _edit(sh, step[2], step[3], step[4], step[5], which)
                ctx.event("edited array=%s" % name.split(":")[0])
                nt = nt or True
            else:
                sh, tok = pool[step[1] % len(pool)]
                name, on_model = _edit(sh, step[2], step[3], step[4], step[5], which)
                ctx.event("edited array=%s" % name.split(":")[0])
                for s in slots:
                    for mv in s.model.values():
                        if mv["tok"] == tok:
                            on_model(mv)
                nt = nt or pending_copy
            check_invariant(slots, ctx, k)
            continue
        s = slots[step[1] % len(slots)]
        m, model = s.manager, s.model
        if k == "set":
            name, spec = step[2], step[3]
            if len(step) > 4 and step[4] % 3 == 0 and len(model) > 0:
                name = list(model)[(step[4] // 3) % len(model)]
                ctx.event("set replaces an existing group")
            sh = build_lshape(spec)
            ctx.event("value class=%s" % type(sh).__name__)
            if rs.frozen_buffers(sh):
                ctx.event("value holds read-only arrays (%s)" % spec.get("ro"))
            d_sh = rs.ndigest(sh)
            cur = s.dims()
            try:
                m[name] = sh
                ok = True
            except ValueError:
                ok = False
            # the documented check is against the groups the manager currently holds (a manager does not know its owner)
            expect_ok = cur is None or cur == spec["d"]
            ctx.expect(ok == expect_ok, "history.set_dimension_rule", lambda: "set %dD group on a manager holding %rD groups: %s" % (spec["d"], cur, "accepted" if ok else "refused"))
            if ok:
                model[name] = model_value(sh)  # existing key keeps its position (dict semantics), new key goes last
                assigned.append(sh)
                pending_assign = True
                ctx.expect(m[name] is not sh, "history.set_stores_the_value_itself", "")
            ctx.expect(rs.ndiff(d_sh, rs.ndigest(sh)) is None, "history.set_mutated_value", "")
        elif k == "set_own_group":
            # the value assigned is a group fetched from THIS manager (the rename / duplicate idiom): it is stored as
            # a copy like any other value
            names = list(model)
            if not names:
                continue
            src_name = names[step[3] % len(names)]
            new_name = step[2]
            g_src = m[src_name]
            m[new_name] = g_src
            g_new = m[new_name]
            if new_name != src_name:
                ctx.expect(g_new is not g_src and not np.shares_memory(np.asarray(g_new.points), np.asarray(g_src.points)),
                           "history.set_own_group_stores_the_group_itself", "manager[%r] = manager[%r] aliases the two groups" % (new_name, src_name))
                probe = np.array(g_src.points, copy=True)
                g_new.points[0, 0] += 1.0
                ctx.expect(np.array_equal(np.asarray(m[src_name].points), probe), "history.set_own_group_edit_reaches_source_group", "")
                g_new.points[0, 0] -= 1.0
            model[new_name] = model_value(g_new)
            pending_assign = True
        elif k == "get":
            names = list(model)
            name = names[step[3] % len(names)] if names and step[3] % 3 else step[2]
            try:
                g = m[name]
                ctx.expect(name in model, "history.get_missing_name_returned", lambda: repr(name))
                if name in model:
                    handles.append((g, model[name]["tok"]))
            except KeyError:
                ctx.expect(name not in model, "history.get_existing_name_keyerror", lambda: repr(name))
        elif k == "get_missing":
            name = step[2] + "\x00missing"
            try:
                m[name]
                ctx.fail("history.get_missing_name_returned", repr(name))
            except KeyError:
                pass
            ctx.expect(name not in m, "history.contains_missing", "")
        elif k == "get_none":
            try:
                g = m[None]
                if ctx.expect(len(model) == 1, "history.none_key_accepted_with_wrong_group_count", lambda: "%d groups" % len(model)):
                    handles.append((g, next(iter(model.values()))["tok"]))
            except ValueError:
                ctx.expect(len(model) != 1, "history.none_key_refused_with_one_group:get_none", "")
        elif k == "del":
            names = list(model)
            name = names[step[3] % len(names)] if names and step[3] % 3 else step[2]
            try:
                del m[name]
                ctx.expect(name in model, "history.del_missing_name_accepted", lambda: repr(name))
                model.pop(name, None)
            except KeyError:
                ctx.expect(name not in model, "history.del_existing_name_keyerror", lambda: repr(name))
        elif k == "query":
            got = [(kk, differs_from_model(v, model[kk]) if kk in model else "unknown key") for kk, v in m.items()]
            ctx.expect([kk for kk, _ in got] == list(model) and all(w is None for _, w in got), "history.items", lambda: repr(got))
            ctx.expect(len(list(m.values())) == len(model), "history.values", "")
        elif k == "glob":
            pat = step[2]
            want = [nm for nm in model if glob_match(nm, pat)]
            got = list(m.keys_matching(pat))
            ctx.expect(got == want, "history.keys_matching", lambda: "pattern %r names %r: got %r want %r" % (pat, list(model), got, want))
            got_i = [kk for kk, _ in m.items_matching(pat)]
            ctx.expect(got_i == want, "history.items_matching", lambda: "pattern %r names %r: got %r want %r" % (pat, list(model), got_i, want))
        elif k == "copy":
            new = m.copy()
            ctx.expect(type(new) is LandmarkManager and new is not m, "history.copy_class", "")
            slots.append(Slot(mgr=new, model=copy_model(model)))
            pending_copy = True
        elif k == "assign":
            t = owner_slots[step[2] % len(owner_slots)]
            src_d = s.dims()
            try:
                t.owner.landmarks = m
                ok = True
            except ValueError:
                ok = False
            expect_ok = src_d is None or src_d == t.d
            ctx.expect(ok == expect_ok, "history.assign_dimension_rule", lambda: "%rD manager onto a %dD owner: %s" % (src_d, t.d, "accepted" if ok else "refused"))
            if ok:
                ctx.expect(t.owner.landmarks is not m or t is s, "history.assign_stores_the_manager_itself", "")
                t.model = copy_model(model)
                pending_copy = True
        elif k == "transform":
            d_l = s.dims()
            on_owner = s.owner is not None and isinstance(s.owner, PointCloud) and (d_l is None or d_l == s.owner.n_dims)
            d = s.owner.n_dims if on_owner else (d_l or 2)
            r = np.random.RandomState(step[3])
            tvec = np.round(r.rand(d) * 8 * 16) / 16 + 0.5
            if step[2] == "Translation":
                t = Translation(tvec)
                h = np.eye(d + 1)
                h[:d, d] = tvec
            else:
                h = np.eye(d + 1)
                h[:d, :d] = np.eye(d) * 2.0 + np.round(r.rand(d, d) * 16) / 16
                h[:d, d] = tvec
                t = Affine(h.copy())
            if on_owner:
                res = t.apply(s.owner)
                new_slot = Slot(owner=res, d=res.n_dims)
            else:
                res = t.apply(m)
                new_slot = Slot(mgr=res)
            nm_model = copy_model(model)
            for mv in nm_model.values():
                mv["arrays"]["points"] = objs.ref_apply_h(h, mv["arrays"]["points"])
            new_slot.model = nm_model
            # transformed coordinates are compared with a tolerance: replace exact model points by the actual ones after
            # checking closeness, so later exact comparisons stay meaningful
            rm = new_slot.manager
            if list(rm) == list(nm_model):
                for nm, mv in nm_model.items():
                    g = rm[nm]
                    want = mv["arrays"]["points"]
                    if g.points.shape == want.shape and close(g.points, want, rtol=0, atol=1e-9 * (1 + float(np.abs(want).max()))):
                        mv["arrays"]["points"] = g.points.copy()
                    else:
                        ctx.fail("history.transform_moves_groups", "group %r of the transformed result is not the transformed group" % nm)
                        mv["arrays"]["points"] = g.points.copy() if g.points.shape == want.shape else want
            slots.append(new_slot)
            if new_slot.owner is not None:
                owner_slots.append(new_slot)
            pending_copy = True
        elif k == "copy_owner":
            if s.owner is None:
                new = m.copy()
                ctx.expect(type(new) is LandmarkManager and new is not m, "history.copy_class", "")
                slots.append(Slot(mgr=new, model=copy_model(model)))
            else:
                d_ow = rs.ndigest(s.owner)
                new = s.owner.copy()
                ctx.expect(type(new) is type(s.owner) and new is not s.owner, "history.copy_owner_class", lambda: type(new).__name__)
                dd = rs.ndiff(d_ow, rs.ndigest(s.owner))
                ctx.expect(dd is None, "history.copy_owner_mutated_owner", lambda: repr(dd))
                pd = digest.public_diff(s.owner, new)
                ctx.expect(pd is None, "history.copy_owner_differs", lambda: pd)
                new_slot = Slot(owner=new, d=s.d, model=copy_model(model))
                slots.append(new_slot)
                owner_slots.append(new_slot)
            pending_copy = True
        elif k == "clp":
            # menpo.base.copy_landmarks_and_path(source, target): "the object who's landmarks ... will be copied"
            src = owner_slots[step[1] % len(owner_slots)]
            t = owner_slots[step[2] % len(owner_slots)]
            src_d = src.dims()
            try:
                res = copy_landmarks_and_path(src.owner, t.owner)
                ok = True
            except ValueError:
                ok = False
            expect_ok = src_d is None or src_d == t.d
            ctx.expect(ok == expect_ok, "history.copy_landmarks_and_path_dimension_rule", lambda: "%rD landmarks onto a %dD owner: %s" % (src_d, t.d, "accepted" if ok else "refused"))
            if ok:
                ctx.expect(res is t.owner, "history.copy_landmarks_and_path_returns_target", "")
                if src.model:  # a source without landmarks leaves the target's landmarks alone
                    ctx.expect(t.owner.landmarks is not src.owner.landmarks or t is src, "history.assign_stores_the_manager_itself", "")
                    t.model = copy_model(src.model)
                    pending_copy = True
        elif k == "update":
            form, items = step[2], step[3]
            other = slots[step[4] % len(slots)]
            if form == "manager":
                om = other.manager
                seq = [(nm, om[nm]) for nm in other.model]
                arg, kw, fresh = om, {}, False
            else:
                seq = [(nm, build_lshape(spec)) for nm, spec in items]
                fresh = True
                if form == "dict":
                    arg, kw = dict(seq), {}
                    seq = list(arg.items())
                elif form == "kwargs":
                    arg, kw = (), dict(seq)
                    seq = list(kw.items())
                else:
                    arg, kw = list(seq), {}
            ctx.event("update form=%s items=%d" % (form, min(len(seq), 3)))
            d_vals = [rs.ndigest(v) for _, v in seq]
            # MutableMapping.update stores item by item: a refused item (dimension rule) ends it, earlier items stay
            refused, stored = False, []
            for nm, v in seq:
                cur = s.dims()
                if cur is not None and cur != v.n_dims:
                    refused = True
                    break
                model[nm] = model_value(v)
                stored.append((nm, v))
            try:
                m.update(arg, **kw)
                ok = True
            except ValueError:
                ok = False
            ctx.expect(ok == (not refused), "history.update_dimension_rule", lambda: "update(%s) with %d items, %d storable: %s" % (form, len(seq), len(stored), "accepted" if ok else "refused"))
            if refused:
                ctx.event("update refused part-way")
            for nm, v in stored:
                if nm in m:
                    ctx.expect(m[nm] is not v, "history.update_stores_the_value_itself", "")
            for (nm, v), dv in zip(seq, d_vals):
                ctx.expect(rs.ndiff(dv, rs.ndigest(v)) is None, "history.update_mutated_value", "")
            if fresh:
                assigned.extend(v for _, v in stored)
            if stored:
                pending_assign = True
        elif k == "setdefault":
            names = list(model)
            name = names[(step[4] // 2) % len(names)] if names and step[4] % 2 else step[2]
            sh = build_lshape(step[3])
            cur = s.dims()
            try:
                got = m.setdefault(name, sh)
                ok = True
            except ValueError:
                ok = False
            if name in model:
                ctx.event("setdefault on an existing group")
                if ctx.expect(ok, "history.setdefault_existing_refused", ""):
                    # the stored group itself is handed out (like manager[name]); nothing is stored
                    ctx.expect(got is m[name] and got is not sh, "history.setdefault_existing_returns_other_object", "")
                    handles.append((got, model[name]["tok"]))
            else:
                expect_ok = cur is None or cur == sh.n_dims
                ctx.expect(ok == expect_ok, "history.setdefault_dimension_rule", lambda: "setdefault %dD group on a manager holding %rD groups: %s" % (sh.n_dims, cur, "accepted" if ok else "refused"))
                if ok:
                    # which object is returned is the mapping mixin's business; the STORED value must be an owned copy
                    model[name] = model_value(sh)
                    ctx.expect(name in m and m[name] is not sh, "history.setdefault_stores_the_value_itself", "")
                    assigned.append(sh)
                    pending_assign = True
        elif k == "pop":
            names = list(model)
            name = names[step[3] % len(names)] if names and step[3] % 3 else step[2]
            default = ["default"]
            try:
                got = m.pop(name, default) if step[4] else m.pop(name)
                if name in model:
                    why = differs_from_model(got, model[name]) if isinstance(got, PointCloud) else "not a shape: %r" % (got,)
                    ctx.expect(why is None, "history.pop_returns_wrong_group", lambda: why)
                    model.pop(name)
                    if isinstance(got, PointCloud):
                        assigned.append(got)  # detached from now on: later edits of it reach no manager
                else:
                    ctx.expect(bool(step[4]) and got is default, "history.pop_missing_name_returned", lambda: repr(name))
            except KeyError:
                ctx.expect(name not in model and not step[4], "history.pop_keyerror", lambda: "pop(%r%s) with names %r" % (name, ", default" if step[4] else "", list(model)))
        elif k == "popitem":
            try:
                key, got = m.popitem()
                if ctx.expect(key in model, "history.popitem_unknown_key", lambda: repr(key)):
                    # which end is popped is not part of the mapping contract: any held item, the rest keeps its order
                    why = differs_from_model(got, model[key])
                    ctx.expect(why is None, "history.popitem_returns_wrong_group", lambda: why)
                    model.pop(key)
                    assigned.append(got)
            except KeyError:
                ctx.expect(len(model) == 0, "history.popitem_keyerror_on_non_empty_manager", "")
        elif k == "clear":
            gone = [m[nm] for nm in model]
            m.clear()
            model.clear()
            assigned.extend(gone[:2])
        elif k == "set_wrong_dim":
            cur = s.dims()
            if cur is None:
                continue
            sh = _small_pc(step[3], 5 - cur, 2)
            try:
                m[step[2]] = sh
                ctx.fail("history.wrong_dimension_accepted", "%dD group set on a manager of %dD groups" % (5 - cur, cur))
                model[step[2]] = model_value(sh)
            except ValueError:
                pass
        elif k == "set_none":
            sh = build_lshape(step[2])
            try:
                m[None] = sh
                ctx.fail("history.none_key_set_accepted", "")
            except ValueError:
                pass
        elif k == "set_bad_type":
            d = s.dims() or 2
            bad = Image(np.zeros((1,) + (3,) * d))
            try:
                m[step[2]] = bad
                ctx.fail("history.non_pointcloud_value_accepted", "")
            except ValueError:
                pass
        check_invariant(slots, ctx, k)
        if k in STORING_STEPS:
            check_sharing(slots, assigned, ctx, k)
    ctx.nontrivial(nt)
    ctx.event("slots=%d" % min(len(slots), 8))


# ------------------------------------------------------------------------------------------ identity receivers
_ID_CLASSES = ["Homogeneous", "Affine", "Similarity", "Rotation", "Translation", "UniformScale", "NonUniformScale"]


def enum_identity(tier):
    out = []
    for cls in _ID_CLASSES:
        for d in (2, 3):
            for direction in ("before", "after"):
                for arg in ("own_copy", "original_of_copy", "fresh"):
                    for rep in range(2 if tier == "quick" else 12):
                        out.append({"cls": cls, "d": d, "dir": direction, "arg": arg, "rep": rep})
    return out


def c_identity(case, ctx):
    """A transform that is exactly the identity (init_identity) is composed in place with its own copy / a fresh
    transform: afterwards receiver and argument are independent objects (no shared buffer; a write into the receiver's
    matrix and a public re-parametrisation of the receiver are invisible in the argument, and vice versa)."""
    import menpo.transform as mt

    cls, d = getattr(mt, case["cls"]), case["d"]
    t = cls.init_identity(d)
    ctx.event("class=%s d=%d arg=%s" % (case["cls"], d, case["arg"]))
    if case["arg"] == "own_copy":
        recv, arg = t, t.copy()
    elif case["arg"] == "original_of_copy":
        recv, arg = t.copy(), t
    else:
        kind = case["cls"]
        r = np.random.RandomState(case["rep"] * 7 + d)
        if kind == "Translation":
            arg = mt.Translation(np.round(r.rand(d) * 16) / 4 + 0.25)
        elif kind == "UniformScale":
            arg = mt.UniformScale(1.5 + case["rep"], d)
        elif kind == "NonUniformScale":
            arg = mt.NonUniformScale(np.arange(1, d + 1) + 0.5)
        elif kind == "Rotation":
            arg = mt.Rotation(gen.rotation_from_angles(d, [0.3 + 0.1 * case["rep"]] * gen.n_planes(d)))
        else:
            h = np.eye(d + 1)
            h[:d, :d] = gen.rotation_from_angles(d, [0.4] * gen.n_planes(d)) * (1.25 + case["rep"])
            h[:d, d] = np.arange(1, d + 1)
            arg = cls(h)
        recv = t
    ctx.nontrivial(True)
    d_arg = rs.ndigest(arg)
    if not isinstance(arg, recv.composes_inplace_with):
        return
    if case["dir"] == "before":
        recv.compose_before_inplace(arg)
    else:
        recv.compose_after_inplace(arg)
    dd = rs.ndiff(d_arg, rs.ndigest(arg))
    ctx.expect(dd is None, "identity_compose.argument_changed:" + case["cls"], lambda: repr(dd))
    sh = [(a, b) for a, b in digest.shared_buffers(recv, arg) if not rs.sharing_allowed(a, b)]
    ctx.expect(not sh, "identity_compose.receiver_aliases_argument:" + case["cls"], lambda: repr(sh[:3]))
    # behavioural: edit the receiver's matrix, the argument must not move
    recv.h_matrix[0, -1] += 3.0
    dd = rs.ndiff(d_arg, rs.ndigest(arg))
    ctx.expect(dd is None, "identity_compose.write_into_receiver_reaches_argument:" + case["cls"], lambda: repr(dd))


CLAUSES = [
    Clause("objects", c_object, s_object, quick=4000, thorough=60000, nt_floor=0.5,
           rule="one object per case in a drawn read-only state, copy, aliasing queries, write through the base, sentinel write and 1-3 public "
                "mutators on a drawn side, derived copies (as_non_alignment, pseudoinverse, LazyList map/repeat/+/slice)"),
    Clause("histories", c_history, s_history, quick=700, thorough=12000, nt_floor=0.3,
           rule="landmark-manager histories (incl. inherited mapping mutators, owner copies, read-only values) against an ordered-dict model of "
                "all public arrays + memory-sharing query after every storing step; non-trivial: mutation after assignment / copy"),
    Clause("identity_compose", c_identity, enumerate=enum_identity,
           rule="exhaustive: 7 homogeneous classes x {2-D,3-D} x {before,after} x argument {own copy, original of a copy, fresh}: "
                "an exact identity composed in place stays independent of its argument"),
]
