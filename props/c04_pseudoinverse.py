"""C04 - pseudoinverse really inverts; alignment inverses swap source and target."""
import numpy as np
from hypothesis import strategies as st

from vlib.runner import Clause
from vlib import gen, objs, digest
from vlib import refs_warp as rw
from vlib.tol import close, describe, maxdiff

import menpo.transform as mt
from menpo.transform import rbf as mrbf
from menpo.transform.base import Alignment
from menpo.transform.piecewiseaffine.base import AbstractPWA, CachedPWA, PythonPWA
from menpo.transform.tcoords import tcoords_to_image_coords, image_coords_to_tcoords
from menpo.shape import PointCloud, TriMesh

PROPERTY = "C04"
RULE = (
    "Hypothesis draws (a) one of the 12 homogeneous-family classes in 2-D/3-D with bounded-condition parameters "
    "(projective Homogeneous with divisor in [0.7, 1.3] on the probe points; alignments fitted to member(source)+noise; in 1/8 of the cases a plain Homogeneous H = w A1 P A2 whose homogeneous "
    "coordinate is exchanged with a spatial one - A1, A2 well-conditioned affine, P a permutation moving the last "
    "coordinate, bottom-right entries of H and inv(H) exactly 0 / 1e-12..1e-3 / generic, probes constructed so both "
    "divisors are >= 0.2 of the row norm) "
    "and probe points x, y (closed-form classes also with integer-typed constructor arguments), plus a valid parameter "
    "vector of the class for pseudoinverse_vector; (a') the same 12 classes after 1-3 updates of an existing object "
    "(from_vector[_inplace], compose_{before,after}_inplace with a member of the family swallowed in place, set_target, "
    "copy, an earlier pseudoinverse()), alignments on PointCloud / TriMesh / landmarked end points; (b) PythonPWA / CachedPWA over a Delaunay (PointCloud source) or an explicit lattice "
    "triangulation (TriMesh source) whose target is affine(source + per-vertex displacement <= 0.2 x the smallest "
    "altitude of the incident triangles) so the target triangles all keep (or, reflecting affine part, all reverse) their "
    "orientation, the target given at construction or by a later set_target, with x strictly inside source "
    "triangles and y strictly inside target triangles; (c) ThinPlateSplines with kernel None / R2LogR2RBF / R2LogRRBF "
    "and min_singular_val 1e-4 or 1e-2 on 4-9 jittered-lattice landmarks and off-landmark probes; (d) image shapes and "
    "texture coordinates.  Non-trivial: the class declares a true inverse (a, b) and the map moves a probe / landmark by "
    "more than 1% of the extent.  Distinct = distinct canonical-JSON digest of the case."
)
ASSUMPTIONS = [
    "homogeneous matrices are compared as MAPS only (they are defined up to scale); the inverse's h_matrix is only "
    "required to be finite",
    "the forward matrix of an alignment is read from t.h_matrix (its fit is C07's subject); plain classes use an "
    "independently assembled matrix; the reference inverse solves h z = (y,1) per point with numpy.linalg.solve",
    "class honesty is a predicate table on the inverse's h_matrix evaluated for every table class the inverse is an "
    "instance of (tolerance 1e-9 x magnitude); the class itself is held to the docstrings: type(self) for alignments and "
    "warps, an instance of the transform's own class for the plain homogeneous members",
    "after in-place compositions the target of a non-affine alignment lags behind its matrix (menpo does not re-sync it): "
    "'exchanged' is judged against the end points the object reports at the time of inversion, 'inverse map' against its "
    "h_matrix at that time",
    "pseudoinverse_vector is exercised only where menpo declares the class vectorisable (not 2-D Rotation, 3-D Similarity); "
    "the receiver's own vector is used only when it can represent the receiver (no mirrored Similarity / Rotation fits)",
    "independence of a returned inverse: it is retargeted and its matrix overwritten in place; nothing is written into "
    "the source / target point sets, which the two objects may share",
    "TPS: exact return of target landmarks is demanded only when the reverse bordered system has no singular value below "
    "the floor (measured with the reference system, >= 99% of min_singular_val=1e-4 cases); with an active floor only the "
    "equality with the fresh reverse fit and with the lstsq(rcond) reference is demanded, and the latter only when no "
    "singular value lies within a factor 2 of the floor",
    "PWA triangles used for probe points have area >= 0.5% of the squared extent so containment is never decided by rounding",
    "identity of source/target objects after inversion is not examined: their coordinates (exactly) and, for the "
    "homogeneous family, their public view (class, connectivity, landmarks)",
]

_CACHE = ("._applied_points", "._iab")


def _scale(*xs):
    m = 1.0
    for x in xs:
        x = np.asarray(x, dtype=float)
        if x.size:
            m = max(m, float(np.abs(x).max()))
    return m


def _base(kind):
    return kind[len("Alignment"):] if kind.startswith("Alignment") else kind


# classes a transform composes IN PLACE with (its `composes_inplace_with`), by base class name
_FAMILY = {
    "Homogeneous": ["Homogeneous", "Affine", "Similarity", "Rotation", "Translation", "UniformScale", "NonUniformScale"],
    "Affine": ["Affine", "Similarity", "Rotation", "Translation", "UniformScale", "NonUniformScale"],
    "Similarity": ["Similarity", "Rotation", "Translation", "UniformScale"],
    "Rotation": ["Rotation"],
    "Translation": ["Translation"],
    "UniformScale": ["UniformScale"],
    "NonUniformScale": ["NonUniformScale", "UniformScale"],
}
_MIRROR_LOSSY = ("Similarity", "Rotation")  # as_vector cannot represent a mirrored member of these


def _q16(v):
    return [round(float(a) * 65536) / 65536 for a in np.asarray(v, dtype=float).ravel()]


@st.composite
def s_param_vector(draw, base, d):
    """A valid parameter vector (layout of as_vector) of class `base` in d dimensions, assembled without menpo; None where
    menpo declares the class not vectorisable (2-D Rotation, 3-D Similarity)."""
    if base == "Homogeneous":
        return _q16(objs.ref_h(draw(objs.homog_case(kind="Homogeneous", d=d))))
    if base == "Affine":
        h = rw.hm(gen.build_linear(d, draw(gen.linear_case(d))), draw(gen.vec(d)))
        return _q16((h - np.eye(d + 1))[:d, :].ravel(order="F"))
    if base == "Similarity":
        if d != 2:
            return None
        k, th, tr = draw(gen.q(0.25, 4)), draw(gen.q(-3.14, 3.14)), draw(gen.vec(2))
        return _q16([k * np.cos(th) - 1.0, k * np.sin(th)] + tr)
    if base == "Rotation":
        if d != 3:
            return None
        return _q16(gen.build_unit_quaternion(draw(gen.unit_quaternion_case())))
    if base == "Translation":
        return draw(gen.vec(d))
    if base == "UniformScale":
        return [draw(gen.q(0.25, 4))]
    if base == "NonUniformScale":
        return draw(st.lists(gen.q(0.25, 4), min_size=d, max_size=d))
    raise KeyError(base)


@st.composite
def s_int_params(draw, kind, d):
    """Integer-typed constructor arguments of the closed-form classes (legal input; the inverse is not integral)."""
    if kind == "Translation":
        return {"t": draw(st.lists(st.integers(-9, 9), min_size=d, max_size=d))}
    if kind == "NonUniformScale":
        return {"s": draw(st.lists(st.integers(1, 4), min_size=d, max_size=d))}
    if kind == "UniformScale":
        return {"s": draw(st.integers(1, 4)), "np": draw(st.booleans())}
    # Rotation: a signed permutation matrix of determinant +1 (a composition of quarter turns)
    perm = draw(st.permutations(list(range(d))))
    signs = draw(st.lists(st.sampled_from([-1, 1]), min_size=d, max_size=d))
    m = np.zeros((d, d), dtype=int)
    for r in range(d):
        m[r, perm[r]] = signs[r]
    if round(float(np.linalg.det(m))) < 0:
        m[0] = -m[0]
    return {"m": m.tolist()}


_INT_KINDS = ("Translation", "NonUniformScale", "UniformScale", "Rotation")


# ---- invertible homographies whose homogeneous coordinate mixes with the spatial ones: H = w * A1 . P . A2
_TINY = [1e-12, 1e-9, 1e-6, 1e-3, -1e-12, -1e-9, -1e-6, -1e-3]


@st.composite
def s_affine_part(draw, d):
    return {"mode": draw(st.sampled_from(["generic", "generic", "axis", "identity"])),
            "lin": draw(gen.linear_case(d, smin=0.4, smax=2.5)),
            "perm": draw(st.permutations(list(range(d)))),
            "signs": draw(st.lists(st.sampled_from([-1, 1]), min_size=d, max_size=d)),
            "s": draw(st.lists(st.sampled_from([0.5, 1.0, 2.0]), min_size=d, max_size=d)),
            "v": draw(gen.vec(d, -4, 4))}


def _entry(draw):
    mode = draw(st.sampled_from(["zero", "zero", "tiny", "generic"]))
    if mode == "zero":
        return mode, 0.0
    if mode == "tiny":
        return mode, draw(st.sampled_from(_TINY))
    return mode, draw(gen.q(-2, 2))


@st.composite
def s_mix_case(draw, d):
    """Plain data of H = w * A1 . P . A2: A1, A2 well-conditioned affine, P a permutation of the d+1 homogeneous
    coordinates that moves the last one.  H[d, d] = w * t2[perm[d]] and inv(H)[d, d] = -u[k] / w (perm[k] = d, t1 = L1 u)
    are drawn exactly zero / tiny / generic."""
    perm = draw(st.permutations(list(range(d + 1))).filter(lambda p: p[d] != d))
    a1, a2 = draw(s_affine_part(d)), draw(s_affine_part(d))
    j, k = perm[d], list(perm).index(d)
    m_h, a2["v"][j] = _entry(draw)
    m_i, a1["v"][k] = _entry(draw)
    if draw(st.integers(0, 3)) == 0:  # no translations at all: structural zeros everywhere
        a1["v"], a2["v"] = [0.0] * d, [0.0] * d
        m_h = m_i = "zero"
    return {"kind": "Homogeneous", "d": d,
            "mix": {"perm": list(perm), "a1": a1, "a2": a2, "br_h": m_h, "br_inv": m_i},
            "w": draw(st.sampled_from([1.0, 1.0, 2.5, 0.5, -2.0, 4.0]))}


def _mix_lin(d, a):
    if a["mode"] == "generic":
        return gen.build_linear(d, a["lin"])
    if a["mode"] == "identity":
        return np.eye(d)
    m = np.zeros((d, d))
    for r in range(d):
        m[r, a["perm"][r]] = a["signs"][r] * a["s"][r]
    return m


def _mix_parts(tc):
    """(A1, P, A2) of a mixing case; A1's translation is L1 u (so that inv(A1) has translation -u), A2's is t2."""
    d, mx = tc["d"], tc["mix"]
    l1, l2 = _mix_lin(d, mx["a1"]), _mix_lin(d, mx["a2"])
    a1 = rw.hm(l1, l1.dot(np.array(mx["a1"]["v"], dtype=float)))
    a2 = rw.hm(l2, mx["a2"]["v"])
    p = np.zeros((d + 1, d + 1))
    for r in range(d + 1):
        p[r, mx["perm"][r]] = 1.0
    return a1, p, a2


def _mix_h(tc):
    a1, p, a2 = _mix_parts(tc)
    return a1.dot(p).dot(a2) * float(tc["w"])


def _mix_points(tc, zs):
    """Probe points on which the divisor of H and (at their images) of inv(H) is bounded away from zero RELATIVE TO THE
    ROW NORM: with z = A2 x the divisor of H is w z[j]; |z[j]| is placed in [0.2 |row j of A2|, 5 / |row k of inv(A1)|]
    (non-empty: both norms are <= sqrt(2.5^2 + 2^2) < 4.47), so the divisor of inv(H) at H(x), 1 / (w z[j]), is >= 0.2 of
    its row norm as well.  Constructed, not filtered."""
    d, mx = tc["d"], tc["mix"]
    a1, p, a2 = _mix_parts(tc)
    j, k = mx["perm"][d], mx["perm"].index(d)
    rn = float(np.linalg.norm(a2[j]))
    rn1 = float(np.linalg.norm(np.concatenate([np.linalg.inv(a1[:d, :d])[k], [mx["a1"]["v"][k]]])))
    lo, hi = 0.2 * rn, 5.0 / rn1
    out = []
    for z in zs:
        z = np.array(z[:d], dtype=float)
        m = abs(z[j]) / 4.0
        z[j] = (1.0 if z[j] >= 0 else -1.0) * (lo * 1.05 + m * (hi * 0.95 - lo * 1.05))
        out.append(np.linalg.solve(a2[:d, :d], z - a2[:d, d]))
    return np.array(out)


def _rel_divisors(h, x):
    """|homogeneous divisor| of every point relative to the norm of the matrix's last row."""
    h = np.asarray(h, dtype=float)
    return np.abs(rw.divisors(h, x)) / float(np.linalg.norm(h[-1]))


def _ref_h(tc):
    if tc.get("mix") is not None:
        return _mix_h(tc)
    ip = tc.get("int")
    if ip is None:
        return objs.ref_h(tc)
    kind, d = tc["kind"], tc["d"]
    if kind == "Translation":
        return rw.hm(np.eye(d), ip["t"])
    if kind == "NonUniformScale":
        return rw.hm(np.diag(np.array(ip["s"], dtype=float)), np.zeros(d))
    if kind == "UniformScale":
        return rw.hm(np.eye(d) * float(ip["s"]), np.zeros(d))
    return rw.hm(np.array(ip["m"], dtype=float), np.zeros(d))


def _shape(pts, form, d):
    """A point set in one of the shapes an alignment accepts as source / target."""
    pts = np.array(pts, dtype=float)
    if form == "trimesh":
        return TriMesh(pts, trilist=np.array([[0, 1, 2], [1, 3, 2]], dtype=int))
    pc = PointCloud(pts)
    if form == "landmarked":
        pc.landmarks["g"] = PointCloud(pts[:3] + 0.25)
    return pc


_FORMS = ["pointcloud", "pointcloud", "trimesh", "landmarked"]


def _build(tc, src_form="pointcloud", tgt_form="pointcloud"):
    kind, d = tc["kind"], tc["d"]
    if tc.get("mix") is not None:
        return mt.Homogeneous(_mix_h(tc))
    ip = tc.get("int")
    if ip is not None:
        if kind == "Translation":
            return mt.Translation(np.array(ip["t"], dtype=np.int64))
        if kind == "NonUniformScale":
            return mt.NonUniformScale(np.array(ip["s"], dtype=np.int64))
        if kind == "UniformScale":
            return mt.UniformScale(np.int64(ip["s"]) if ip["np"] else int(ip["s"]), d)
        return mt.Rotation(np.array(ip["m"], dtype=np.int64))
    if kind not in objs.ALIGN_KINDS or (src_form == "pointcloud" and tgt_form == "pointcloud"):
        return objs.build_homog(tc)
    src, tgt = _shape(tc["src"], src_form, d), _shape(tc["tgt"], tgt_form, d)
    if kind == "AlignmentSimilarity":
        return mt.AlignmentSimilarity(src, tgt, rotation=tc["rotation"], allow_mirror=tc["allow_mirror"])
    if kind == "AlignmentRotation":
        return mt.AlignmentRotation(src, tgt, allow_mirror=tc["allow_mirror"])
    return getattr(mt, kind)(src, tgt)


# ------------------------------------------------------------------------------------------ homogeneous family
@st.composite
def s_homog(draw):
    tc = draw(objs.homog_case())
    d = tc["d"]
    if draw(st.integers(0, 7)) == 0:
        # a homography mixing the homogeneous coordinate with spatial ones; x / y then hold z = A2 x (see _mix_points)
        tc = draw(s_mix_case(d))
    if tc["kind"] in _INT_KINDS and draw(st.integers(0, 4)) == 0:
        tc["int"] = draw(s_int_params(tc["kind"], d))
    return {
        "t": tc,
        "x": draw(st.lists(gen.vec(d, -10, 10) if tc.get("mix") is None else gen.vec(d, -4, 4), min_size=1, max_size=6)),
        "y": draw(st.lists(gen.vec(d, -10, 10) if tc.get("mix") is None else gen.vec(d, -4, 4), min_size=1, max_size=6)),
        # a parameter vector of the class, for pseudoinverse_vector (None: not vectorisable in this dimension)
        "pv": draw(s_param_vector(_base(tc["kind"]), d)),
    }


def _check_class(ctx, t, inv, kind):
    """The inverse has the class the docstrings promise: type(self) for alignments, the class itself for plain members."""
    if kind in objs.ALIGN_KINDS:
        ctx.expect(type(inv) is type(t), "inverse_class.alignment_inverse_not_type_of_self", "%s -> %s" % (kind, type(inv).__name__))
    else:
        ctx.expect(isinstance(inv, getattr(mt, kind)), "inverse_class.not_the_documented_class", "%s -> %s" % (kind, type(inv).__name__))


def _check_honest(ctx, inv, kind):
    if ctx.expect(isinstance(inv, mt.Homogeneous) and not isinstance(inv, mt.TransformChain), "inverse_not_homogeneous_family",
                  "%s -> %s" % (kind, type(inv).__name__)):
        hi = np.asarray(inv.h_matrix, dtype=float)
        ctx.event("inverse class=%s" % type(inv).__name__)
        for name in rw.HONESTY_TABLE:
            if isinstance(inv, getattr(mt, name)):
                ctx.expect(rw.honest(name, hi), "inverse_not_honest." + name,
                           lambda: "inverse of %s reports %s, matrix\n%s" % (kind, type(inv).__name__, np.array2string(hi, precision=8)))


def _check_swap(ctx, inv, kind, src_obj, tgt_obj, src, tgt):
    """inv.source is what the transform's target was and vice versa: coordinates exactly, and the shape a caller reads
    back (class, connectivity, landmarks) too.  Object identity is left open."""
    if not ctx.expect(isinstance(inv, Alignment), "alignment_inverse.not_an_alignment", type(inv).__name__):
        return False
    ctx.expect(np.array_equal(np.asarray(inv.source.points), tgt), "alignment_inverse.source_is_not_old_target",
               lambda: "%s\n%s" % (kind, describe(inv.source.points, tgt)))
    ctx.expect(np.array_equal(np.asarray(inv.target.points), src), "alignment_inverse.target_is_not_old_source",
               lambda: "%s\n%s" % (kind, describe(inv.target.points, src)))
    if src_obj is not None:
        d1, d2 = digest.public_diff(inv.source, tgt_obj), digest.public_diff(inv.target, src_obj)
        ctx.expect(d1 is None, "alignment_inverse.source_is_not_the_shape_the_target_was", lambda: "%s: %s" % (kind, d1))
        ctx.expect(d2 is None, "alignment_inverse.target_is_not_the_shape_the_source_was", lambda: "%s: %s" % (kind, d2))
    return True


def _check_double(ctx, t, inv, kind, x, fwd, atol, src=None, tgt=None):
    """The inverse of the inverse is the transform again: same map; an alignment gets its end points back exactly and
    still fits with the same options."""
    ii = inv.pseudoinverse()
    f2 = ii.apply(x)
    ctx.expect(close(f2, fwd, rtol=0, atol=atol), "double_inverse.map_differs", lambda: "%s\n%s" % (kind, describe(f2, fwd)))
    _check_class(ctx, t, ii, kind)
    if kind not in objs.ALIGN_KINDS or not ctx.expect(isinstance(ii, Alignment), "double_inverse.not_an_alignment", type(ii).__name__):
        return
    ctx.expect(np.array_equal(np.asarray(ii.source.points), src), "double_inverse.source_not_restored",
               lambda: "%s\n%s" % (kind, describe(ii.source.points, src)))
    ctx.expect(np.array_equal(np.asarray(ii.target.points), tgt), "double_inverse.target_not_restored",
               lambda: "%s\n%s" % (kind, describe(ii.target.points, tgt)))
    for opt in ("rotation", "allow_mirror"):
        if hasattr(t, opt):
            ctx.expect(getattr(ii, opt, None) == getattr(t, opt), "double_inverse.option_lost." + opt,
                       lambda: "%s: %r -> %r" % (kind, getattr(t, opt), getattr(ii, opt, None)))
    # ... and behaves like it: both retargeted to the same new target give the same fit
    new = np.asarray(tgt)[::-1] * 1.25 + 0.5
    a = t.copy()
    a.set_target(PointCloud(new.copy()))
    ii.set_target(PointCloud(new.copy()))
    ha, hb = np.asarray(a.h_matrix, dtype=float), np.asarray(ii.h_matrix, dtype=float)
    ctx.expect(close(hb, ha, rtol=0, atol=1e-9 * _scale(ha)), "double_inverse.retargets_differently",
               lambda: "%s\n%s" % (kind, describe(hb, ha)))


def _check_independent(ctx, t, inv, kind, x, fwd, atol):
    """What is done to the returned inverse afterwards does not reach the transform (nothing is written into the point
    sets the two share by design)."""
    ref = digest.digest(t)
    if isinstance(inv, Alignment):
        inv.set_target(PointCloud(np.array(inv.target.points, dtype=float) * 1.5 + 1.0))
        dd = digest.parameter_mutation(ref, digest.digest(t))
        ctx.expect(dd is None, "inverse_not_independent.retargeting_it_changes_the_transform", lambda: "%s: %r" % (kind, dd))
    hm = inv.h_matrix
    if isinstance(hm, np.ndarray) and hm.flags.writeable and hm.dtype.kind == "f":
        hm[...] += 1.0
        dd = digest.parameter_mutation(ref, digest.digest(t))
        ctx.expect(dd is None, "inverse_not_independent.writing_its_matrix_changes_the_transform", lambda: "%s: %r" % (kind, dd))
    again = t.pseudoinverse().apply(fwd)
    ctx.expect(close(again, x, rtol=0, atol=atol), "inverse_not_independent.later_inverse_damaged",
               lambda: "%s: inverse taken, written to, inverse taken again\n%s" % (kind, describe(again, x)))


def _check_pinv_vector(ctx, t, kind, d, v, x, tag, mix=False):
    """VInvertible.pseudoinverse_vector: the parameters of the inverse of from_vector(v), in v's layout; receiver unchanged."""
    v = np.array(v, dtype=float)
    before = digest.digest(t)
    try:
        w = t.pseudoinverse_vector(v.copy())
    except NotImplementedError:
        ctx.event("pseudoinverse_vector: not vectorisable")
        return
    dd = digest.parameter_mutation(before, digest.digest(t))
    ctx.expect(dd is None, "pseudoinverse_vector.receiver_changed", lambda: "%s: %r" % (kind, dd))
    w = np.asarray(w)
    if not ctx.expect(w.shape == v.shape, "pseudoinverse_vector.shape", "%s: %r -> %r" % (kind, v.shape, w.shape)):
        return
    tv, tw = t.from_vector(v.copy()), t.from_vector(np.array(w, dtype=float))
    hv = np.array(tv.h_matrix, dtype=float)
    cv = rw.cond_h(hv)
    if cv > 1e5:
        return
    if _base(kind) == "Homogeneous" and not (np.all(_rel_divisors(hv, x) > 0.19) if mix else np.all(rw.divisors(hv, x) / hv[d, d] > 0.25)):
        ctx.event("pseudoinverse_vector: divisor near zero skipped")
        return
    ctx.event("pseudoinverse_vector checked (%s)" % tag)
    f = tv.apply(x)
    back = tw.apply(f)
    atol = 1e-10 * cv * _scale(x, f, hv[:d, d])
    ctx.expect(close(back, x, rtol=0, atol=atol), "pseudoinverse_vector.does_not_undo_from_vector." + tag,
               lambda: "%s v=%r\n%s" % (kind, v.tolist(), describe(back, x)))
    g = tv.apply(tw.apply(f))
    ctx.expect(close(g, f, rtol=0, atol=atol * cv), "pseudoinverse_vector.not_a_right_inverse." + tag,
               lambda: "%s v=%r\n%s" % (kind, v.tolist(), describe(g, f)))


def c_homog(case, ctx):
    tc = case["t"]
    kind, d = tc["kind"], tc["d"]
    is_align = kind in objs.ALIGN_KINDS
    ctx.event("class=%s %dD" % (kind, d))
    if tc.get("int") is not None:
        ctx.event("integer-typed parameters")
    t = _build(tc)
    h = _ref_h(tc)
    if h is None:
        h = np.array(t.h_matrix, dtype=float, copy=True)
    cond = rw.cond_h(h)
    if cond > 1e5:
        ctx.event("ill-conditioned fit skipped")
        return
    x = gen.arr(case["x"])
    y = gen.arr(case["y"])
    mix = tc.get("mix") is not None
    if mix:
        mx = tc["mix"]
        ctx.event("mixing homography H = A1.P.A2 (%dD)" % d)
        ctx.event("mixing: H[d,d] %s, inv(H)[d,d] %s" % (mx["br_h"], mx["br_inv"]))
        ctx.event("mixing: H[d,d] == 0 exactly: %s; numpy inverse's [d,d] == 0 exactly: %s"
                  % (bool(h[d, d] == 0), bool(np.linalg.inv(h)[d, d] == 0)))
        x, xy = _mix_points(tc, case["x"]), _mix_points(tc, case["y"])
        y = rw.apply_h(h, xy)
        hi_ref = np.linalg.inv(h)
        ok = all(bool(np.all(_rel_divisors(m, p) > 0.19)) for m, p in ((h, x), (h, xy), (hi_ref, y), (hi_ref, rw.apply_h(h, x))))
        ctx.expect(ok, "harness.divisor_near_zero.mixing", "")
    elif kind == "Homogeneous":
        # y must lie in the range of the domain: images of domain points (divisor of the inverse = 1/forward divisor)
        y = rw.apply_h(h, y)
        ctx.expect(bool(np.all(np.abs(rw.divisors(h, x) / h[d, d]) > 0.5)), "harness.divisor_near_zero", "")
    declared = bool(t.has_true_inverse)
    ctx.event("has_true_inverse=%s" % declared)
    before = digest.digest(t)
    inv = t.pseudoinverse()
    dd = digest.parameter_mutation(before, digest.digest(t))
    ctx.expect(dd is None, "transform_changed_by_pseudoinverse", lambda: "%s: %r" % (kind, dd))

    sc = _scale(x, y, h[:d, d])
    tol = 1e-10 * cond * sc
    fwd = t.apply(x)
    ctx.nontrivial(declared and maxdiff(fwd, x) > 0.01 * 20)
    hm_inv = np.asarray(getattr(inv, "h_matrix", np.zeros(1)), dtype=float)
    ctx.expect(bool(np.all(np.isfinite(hm_inv))), "inverse_matrix_not_finite",
               lambda: "%s cond=%.1f h=\n%s\ninverse:\n%s" % (kind, cond, np.array2string(h, precision=6), hm_inv))
    if declared:
        back = inv.apply(fwd)
        ctx.expect(close(back, x, rtol=0, atol=tol), "two_sided.inv_after_t",
                   lambda: "%s cond=%.1f\n%s" % (kind, cond, describe(back, x)))
        pre = inv.apply(y)
        again = t.apply(pre)
        ctx.expect(close(again, y, rtol=0, atol=tol * cond), "two_sided.t_after_inv",
                   lambda: "%s cond=%.1f\n%s" % (kind, cond, describe(again, y)))
        want = rw.solve_inverse_h(h, y)
        ctx.expect(close(pre, want, rtol=0, atol=tol * cond), "inverse_vs_solve_reference",
                   lambda: "%s cond=%.1f\n%s" % (kind, cond, describe(pre, want)))

    # an honest member of the class it reports, not a chain; of the documented class
    _check_honest(ctx, inv, kind)
    _check_class(ctx, t, inv, kind)

    src = tgt = None
    if is_align:
        src, tgt = gen.arr(tc["src"]), gen.arr(tc["tgt"])
        _check_swap(ctx, inv, kind, None, None, src, tgt)

    if declared:
        _check_double(ctx, t, inv, kind, x, fwd, tol * cond, src, tgt)
        if case.get("pv") is not None:
            _check_pinv_vector(ctx, t, kind, d, case["pv"], x, "drawn_vector")
        lin_det = float(np.linalg.det(h[:d, :d]))
        if not (_base(kind) in _MIRROR_LOSSY and lin_det < 0):
            try:
                v0 = np.array(t.as_vector(), dtype=float)
            except NotImplementedError:
                v0 = None
            if v0 is not None:
                _check_pinv_vector(ctx, t, kind, d, v0, x, "own_vector", mix=mix)
        _check_independent(ctx, t, t.pseudoinverse(), kind, x, fwd, tol)

    # the inverse depends only on the CURRENT parameters: invert, re-parametrise (retarget an alignment / from_vector),
    # invert again - the second inverse must undo the re-parametrised transform
    t2 = None
    how = None
    try:
        if is_align:
            how = "set_target"
            t2 = t.copy()
            t2.set_target(PointCloud(gen.arr(tc["tgt"])[::-1] * 1.25 + 0.5))
        else:
            how = "from_vector"
            v = t.as_vector()
            if kind == "Rotation":
                q2 = v + 0.25 * np.arange(1, v.shape[0] + 1) / v.shape[0]
                v2 = q2 / np.linalg.norm(q2)
            elif kind in ("UniformScale", "NonUniformScale"):
                v2 = v * 1.5
            elif kind == "Homogeneous":
                v2 = None
            else:
                v2 = v + 0.125
            if v2 is not None:
                t2 = t.from_vector(v2)
    except NotImplementedError:
        t2 = None
    if t2 is not None and declared:
        h2 = np.array(t2.h_matrix, dtype=float, copy=True)
        c2 = rw.cond_h(h2)
        if c2 < 1e5:
            ctx.event("second inverse after %s" % how)
            inv2 = t2.pseudoinverse()
            f2 = t2.apply(x)
            b2 = inv2.apply(f2)
            ctx.expect(close(b2, x, rtol=0, atol=1e-10 * c2 * _scale(x, f2, h2[:d, d])), "second_inverse_after_reparametrisation_is_stale." + how,
                       lambda: "%s: pseudoinverse() taken, then %s, then pseudoinverse() again\n%s" % (kind, how, describe(b2, x)))


# ------------------------------------------------------------------------------------------ updated after construction
_ALIGNABLE = ("Affine", "Similarity", "Rotation", "Translation", "UniformScale")


@st.composite
def s_op(draw, kind, d, src):
    base = _base(kind)
    names = ["compose_before_inplace", "compose_after_inplace"] * 2 + ["pseudoinverse", "copy"]
    if not ((base == "Similarity" and d == 3) or (base == "Rotation" and d == 2)):
        names += ["from_vector", "from_vector_inplace"] * 2
    if kind != base:
        names += ["set_target"] * 2
    op = {"op": draw(st.sampled_from(names))}
    if op["op"].startswith("from_vector"):
        op["v"] = draw(s_param_vector(base, d))
    elif op["op"].startswith("compose"):
        # any member of the family the receiver swallows in place, plain or itself an alignment
        mk = draw(st.sampled_from(_FAMILY[base]))
        if mk in _ALIGNABLE and draw(st.integers(0, 4)) == 0:
            mk = "Alignment" + mk
        op["m"] = draw(objs.homog_case(kind=mk, d=d))
    elif op["op"] == "set_target":
        lin = gen.build_linear(d, draw(gen.linear_case(d)))
        n = len(src)
        noise = np.array(draw(st.lists(st.lists(gen.q(-0.3, 0.3), min_size=d, max_size=d), min_size=n, max_size=n)))
        pts = np.array(src).dot(lin.T) + np.array(draw(gen.vec(d))) + noise
        op["pts"] = [[round(float(v) * 4096) / 4096 for v in row] for row in pts]
        op["form"] = draw(st.sampled_from(_FORMS))
    return op


@st.composite
def s_sequence(draw):
    tc = draw(objs.homog_case(kinds=objs.ALIGN_KINDS * 2 + objs.PLAIN_HOMOG_KINDS))
    d = tc["d"]
    c = {"t": tc,
         "ops": draw(st.lists(s_op(tc["kind"], d, tc.get("src")), min_size=1, max_size=3)),
         "x": draw(st.lists(gen.vec(d, -10, 10), min_size=1, max_size=5)),
         "y": draw(st.lists(gen.vec(d, -10, 10), min_size=1, max_size=5))}
    if tc["kind"] in objs.ALIGN_KINDS:
        c["src_form"] = draw(st.sampled_from(_FORMS))
        c["tgt_form"] = draw(st.sampled_from(_FORMS))
    return c


def c_sequence(case, ctx):
    tc = case["t"]
    kind, d = tc["kind"], tc["d"]
    is_align = kind in objs.ALIGN_KINDS
    ctx.event("class=%s" % kind)
    t = _build(tc, case.get("src_form", "pointcloud"), case.get("tgt_form", "pointcloud"))
    if is_align:
        ctx.event("source=%s target=%s" % (case["src_form"], case["tgt_form"]))
    changed = []
    for op in case["ops"]:
        name = op["op"]
        if name == "pseudoinverse":
            t.pseudoinverse()
        elif name == "copy":
            t = t.copy()
        elif name.startswith("from_vector"):
            v = np.array(op["v"], dtype=float)
            if name == "from_vector":
                t = t.from_vector(v)
            else:
                t.from_vector_inplace(v)
            changed.append(name)
        elif name.startswith("compose"):
            getattr(t, name)(objs.build_homog(op["m"]))
            changed.append(name)
        else:
            t.set_target(_shape(op["pts"], op["form"], d))
            changed.append(name)
    ctx.event("last update=%s" % (changed[-1] if changed else "none"))
    h = np.array(t.h_matrix, dtype=float, copy=True)
    if not np.all(np.isfinite(h)):
        ctx.event("non-finite matrix skipped")
        return
    cond = rw.cond_h(h)
    if cond > 1e5:
        ctx.event("ill-conditioned skipped")
        return
    x, y = gen.arr(case["x"]), gen.arr(case["y"])
    if _base(kind) == "Homogeneous":
        if not np.all(rw.divisors(h, x) / h[d, d] > 0.25):
            ctx.event("divisor near zero skipped")
            return
        y = rw.apply_h(h, y)
    declared = bool(t.has_true_inverse)
    src_obj = tgt_obj = src = tgt = None
    if is_align:
        src_obj, tgt_obj = t.source, t.target
        src, tgt = np.array(src_obj.points, dtype=float), np.array(tgt_obj.points, dtype=float)
        ctx.event("target in sync with the matrix" if close(rw.apply_h(h, src), tgt, rtol=0, atol=1e-8 * _scale(tgt) * cond) else "target NOT in sync with the matrix")
    before = digest.digest(t)
    inv = t.pseudoinverse()
    dd = digest.parameter_mutation(before, digest.digest(t))
    ctx.expect(dd is None, "transform_changed_by_pseudoinverse", lambda: "%s after %r: %r" % (kind, changed, dd))
    fwd = t.apply(x)
    sc = _scale(x, y, fwd, h[:d, d])
    tol = 1e-10 * cond * sc
    ctx.nontrivial(declared and bool(changed) and maxdiff(fwd, x) > 0.01 * 20)
    tag = changed[-1] if changed else "fresh"
    if declared:
        back = inv.apply(fwd)
        ctx.expect(close(back, x, rtol=0, atol=tol), "updated.two_sided.inv_after_t." + tag,
                   lambda: "%s after %r cond=%.1f\n%s" % (kind, changed, cond, describe(back, x)))
        pre = inv.apply(y)
        again = t.apply(pre)
        ctx.expect(close(again, y, rtol=0, atol=tol * cond), "updated.two_sided.t_after_inv." + tag,
                   lambda: "%s after %r cond=%.1f\n%s" % (kind, changed, cond, describe(again, y)))
        want = rw.solve_inverse_h(h, y)
        ctx.expect(close(pre, want, rtol=0, atol=tol * cond), "updated.inverse_vs_solve_reference." + tag,
                   lambda: "%s after %r cond=%.1f\n%s" % (kind, changed, cond, describe(pre, want)))
    _check_honest(ctx, inv, kind)
    _check_class(ctx, t, inv, kind)
    if is_align:
        _check_swap(ctx, inv, kind, src_obj, tgt_obj, src, tgt)
    if declared:
        _check_double(ctx, t, inv, kind, x, fwd, tol * cond, src, tgt)
        _check_independent(ctx, t, t.pseudoinverse(), kind, x, fwd, tol)


# ------------------------------------------------------------------------------------------ piecewise affine
@st.composite
def s_pwa(draw):
    c = {"impl": draw(st.sampled_from(["PythonPWA", "CachedPWA"])), "mode": draw(st.sampled_from(["delaunay", "grid"]))}
    if c["mode"] == "delaunay":
        n = draw(st.integers(4, 9))
        c["src"] = draw(gen.points_case(n=n, d=2, extent=10.0).filter(gen.non_collinear))
    else:
        gx, gy = draw(st.integers(2, 3)), draw(st.integers(2, 3))
        n = gx * gy
        cell = 10.0 / 3
        jit = draw(st.lists(st.lists(gen.q(-0.2, 0.2), min_size=2, max_size=2), min_size=n, max_size=n))
        c["grid"] = [gx, gy]
        c["src"] = [[(ix + 0.5 + jit[ix + gx * iy][0]) * cell, (iy + 0.5 + jit[ix + gx * iy][1]) * cell]
                    for iy in range(gy) for ix in range(gx)]
        c["diag"] = draw(st.lists(st.booleans(), min_size=(gx - 1) * (gy - 1), max_size=(gx - 1) * (gy - 1)))
    c["unit"] = draw(st.lists(st.lists(gen.q(-1, 1), min_size=2, max_size=2), min_size=n, max_size=n))
    c["amp"] = draw(gen.q(0.02, 0.14))
    # the affine part may be a reflection: then EVERY target triangle has the opposite orientation (still a bijection)
    c["lin"] = draw(gen.linear_case(2, smin=0.5, smax=2.0, allow_reflection=True))
    c["shift"] = draw(gen.vec(2))
    # the target may be given at construction or afterwards (set_target on a transform built towards another target)
    c["via_set_target"] = draw(st.sampled_from([False, False, True]))
    c["px"] = draw(objs.bary_picks(1, 6))
    c["py"] = draw(objs.bary_picks(1, 6))
    # the target may itself be a TriMesh carrying its OWN (different) triangulation: the map and its inverse are
    # defined by the source's triangle list only
    c["tgt_form"] = draw(st.sampled_from(["pointcloud", "pointcloud", "trimesh_own"]))
    # a near-identity warp (target = source + small per-vertex displacement): source and target domains overlap, so
    # the same points can be fed to the transform and to its inverse
    c["near_id"] = draw(st.sampled_from([False, False, True]))
    return c


def pwa_setup(c):
    """(source object, src array, tgt array, trilist) of a PWA case; the target triangles all keep, or (reflecting
    affine part) all reverse, their orientation."""
    src = gen.arr(c["src"])
    if c["mode"] == "grid":
        trilist = np.array(rw.grid_trilist(c["grid"][0], c["grid"][1], c["diag"]), dtype=int)
        source = TriMesh(src.copy(), trilist=trilist.copy())
    else:
        trilist = np.array(objs.pwa_trilist(c), dtype=int)
        source = PointCloud(src.copy())
    alt = rw.min_altitudes(src, trilist)
    alt = np.where(np.isfinite(alt), alt, 0.0)
    disp = gen.arr(c["unit"]) * (c["amp"] * alt)[:, None]
    lin = gen.build_linear(2, c["lin"])
    if c.get("near_id"):
        tgt = src + disp
    else:
        tgt = (src + disp).dot(lin.T) + gen.arr(c["shift"])
    return source, src, tgt, trilist


def c_pwa(c, ctx):
    source, src, tgt, trilist = pwa_setup(c)
    a_s, a_t = rw.tri_signed_areas(src, trilist), rw.tri_signed_areas(tgt, trilist)
    flip = -1.0 if (not c.get("near_id") and np.linalg.det(gen.build_linear(2, c["lin"])) < 0) else 1.0
    if not np.all(np.sign(a_s) == flip * np.sign(a_t)) or np.any(a_t == 0):
        raise AssertionError("generator: a target triangle lost its orientation")
    cls = CachedPWA if c["impl"] == "CachedPWA" else PythonPWA
    ctx.event("%s source=%s" % (c["impl"], c["mode"]))
    ctx.event("target orientation %s" % ("reversed" if flip < 0 else "kept"))
    if c.get("tgt_form", "pointcloud") == "trimesh_own":
        if c["mode"] == "grid":
            other = np.array(rw.grid_trilist(c["grid"][0], c["grid"][1], [not b for b in c["diag"]]), dtype=int)
            target_obj = TriMesh(tgt.copy(), trilist=other)
        else:
            target_obj = TriMesh(tgt.copy())  # its own Delaunay triangulation
        ctx.event("target=TriMesh, own trilist %s" % ("differs" if not np.array_equal(np.asarray(target_obj.trilist), trilist) else "equal"))
    else:
        target_obj = PointCloud(tgt.copy())
    if c.get("via_set_target"):
        # built towards another target (the source turned and shifted), used once, then retargeted
        ctx.event("target given by set_target")
        t = cls(source, PointCloud(src[:, ::-1] * 0.5 + 3.0))
        t.apply(src[list(trilist[0])].mean(axis=0)[None, :])
        t.set_target(target_obj)
    else:
        t = cls(source, target_obj)
    ctx.expect(np.array_equal(np.asarray(t.trilist), trilist), "pwa.trilist_not_the_expected_one", "")
    declared = bool(t.has_true_inverse)
    ctx.event("has_true_inverse=%s" % declared)
    before = digest.digest(t, skip=_CACHE)
    inv = t.pseudoinverse()
    dd = digest.parameter_mutation(before, digest.digest(t, skip=_CACHE))
    ctx.expect(dd is None, "transform_changed_by_pseudoinverse", lambda: repr(dd))
    ctx.expect(isinstance(inv, AbstractPWA), "pwa.inverse_class", "%s -> %s" % (type(t).__name__, type(inv).__name__))
    ctx.expect(type(inv) is type(t), "pwa.inverse_not_of_the_same_warp_class", "%s -> %s" % (type(t).__name__, type(inv).__name__))
    ctx.event("inverse class %s" % ("same" if type(inv) is type(t) else "other PWA" if isinstance(inv, AbstractPWA) else "not a PWA"))
    if not ctx.expect(isinstance(inv, Alignment), "alignment_inverse.not_an_alignment", type(inv).__name__):
        return
    ctx.expect(np.array_equal(np.asarray(inv.source.points), tgt), "alignment_inverse.source_is_not_old_target",
               lambda: describe(inv.source.points, tgt))
    ctx.expect(np.array_equal(np.asarray(inv.target.points), src), "alignment_inverse.target_is_not_old_source",
               lambda: describe(inv.target.points, src))
    fat = [list(tri) for tri, u, v in zip(trilist, a_s, a_t) if abs(u) >= 0.5 and abs(v) >= 0.5 * 0.25]
    ctx.event("fat triangles=%s" % ("all" if len(fat) == len(trilist) else "some" if fat else "none"))
    sc = _scale(src, tgt)
    ctx.nontrivial(declared and bool(fat) and maxdiff(src, tgt) > 0.1)
    # every target landmark goes back exactly onto its source landmark
    used = sorted(set(int(k) for tri in trilist for k in tri))
    back_lm = inv.apply(tgt[used])
    ctx.expect(close(back_lm, src[used], rtol=0, atol=1e-8 * sc), "pwa.target_landmarks_not_mapped_back",
               lambda: describe(back_lm, src[used]))
    if not fat or not declared:
        return
    x = objs.bary_points(src, fat, c["px"])
    y = objs.bary_points(tgt, fat, c["py"])
    back = inv.apply(t.apply(x))
    ctx.expect(close(back, x, rtol=0, atol=1e-8 * sc), "two_sided.inv_after_t", lambda: "PWA\n" + describe(back, x))
    pre = inv.apply(y)
    again = t.apply(pre)
    ctx.expect(close(again, y, rtol=0, atol=1e-8 * sc), "two_sided.t_after_inv", lambda: "PWA\n" + describe(again, y))
    want, outside = rw.pwa_eval(tgt, src, trilist, y)
    if ctx.expect(not outside.any(), "harness.reference_point_outside", ""):
        ctx.expect(close(pre, want, rtol=0, atol=1e-8 * sc), "pwa.inverse_vs_barycentric_reference", lambda: describe(pre, want))
    # the inverse of the inverse is the warp again: end points and triangle list restored exactly, same class, same map
    fwd = t.apply(x)
    ii = inv.pseudoinverse()
    ctx.expect(type(ii) is type(t), "double_inverse.class_differs", "%s -> %s" % (type(t).__name__, type(ii).__name__))
    if ctx.expect(isinstance(ii, AbstractPWA), "double_inverse.not_an_alignment", type(ii).__name__):
        ctx.expect(np.array_equal(np.asarray(ii.source.points), src), "double_inverse.source_not_restored", lambda: describe(ii.source.points, src))
        ctx.expect(np.array_equal(np.asarray(ii.target.points), tgt), "double_inverse.target_not_restored", lambda: describe(ii.target.points, tgt))
        ctx.expect(np.array_equal(np.asarray(ii.trilist), trilist), "double_inverse.trilist_not_restored", "")
        f2 = ii.apply(x)
        ctx.expect(close(f2, fwd, rtol=0, atol=1e-8 * sc), "double_inverse.map_differs", lambda: "PWA\n" + describe(f2, fwd))
    # what is done to a returned inverse afterwards does not reach the transform
    scratch = t.pseudoinverse()
    ref = digest.digest(t, skip=_CACHE)
    scratch.set_target(PointCloud(src[:, ::-1] * 1.5 + 1.0))
    dd2 = digest.parameter_mutation(ref, digest.digest(t, skip=_CACHE))
    ctx.expect(dd2 is None, "inverse_not_independent.retargeting_it_changes_the_transform", lambda: "PWA: %r" % (dd2,))
    f3 = t.apply(x)
    ctx.expect(close(f3, fwd, rtol=0, atol=1e-8 * sc), "inverse_not_independent.transform_maps_differently_afterwards", lambda: "PWA\n" + describe(f3, fwd))
    # an inverse taken AFTER the transform has been used, then fed the very values the transform saw last: points that
    # lie (with margin, by the barycentric reference) in both the source and the target domain
    cand = np.vstack([x, y, np.array([src[list(tri)].mean(axis=0) for tri in fat])])
    f_ref, out_s = rw.pwa_eval(src, tgt, trilist, cand)
    b_ref, out_t = rw.pwa_eval(tgt, src, trilist, cand)
    both = ~out_s & ~out_t
    if both.any():
        z = cand[both]
        # keep only points at a safe distance from every edge of both triangulations (location never decided by rounding)
        safe = np.array([_edge_clear(p, src, trilist) and _edge_clear(p, tgt, trilist) for p in z], dtype=bool)
        z = z[safe]
        if z.shape[0]:
            ctx.event("inverse of a used transform probed on points of both domains")
            t.apply(z)
            inv2 = t.pseudoinverse()
            got2 = inv2.apply(z.copy())
            want2 = b_ref[both][safe]
            ctx.expect(close(got2, want2, rtol=0, atol=1e-8 * sc), "pwa.inverse_of_used_transform_answers_from_stale_state",
                       lambda: describe(got2, want2))


def _edge_clear(p, pts, trilist, eps=1e-6):
    for tri in trilist:
        for e in range(3):
            a, b = pts[tri[e]], pts[tri[(e + 1) % 3]]
            ab = b - a
            tpar = min(1.0, max(0.0, float((p - a).dot(ab) / ab.dot(ab))))
            if np.linalg.norm(p - (a + tpar * ab)) < eps:
                return False
    return True


# ------------------------------------------------------------------------------------------ thin plate splines
@st.composite
def s_tps(draw):
    c = draw(objs.warp_case(kind="ThinPlateSplines"))
    c["msv"] = draw(st.sampled_from([1e-4, 1e-4, 1e-2]))
    c["u"] = draw(st.lists(st.lists(gen.q(-0.2, 1.2), min_size=2, max_size=2), min_size=1, max_size=6))
    c["via_set_target"] = draw(st.sampled_from([False, False, True]))
    return c


def build_tps(src, tgt, kind, msv):
    kernel = None if kind is None else getattr(mrbf, kind)(np.array(src, dtype=float))
    return mt.ThinPlateSplines(PointCloud(np.array(src, dtype=float)), PointCloud(np.array(tgt, dtype=float)), kernel=kernel, min_singular_val=msv)


def c_tps(c, ctx):
    src, tgt, kind, msv = gen.arr(c["src"]), gen.arr(c["tgt"]), c["rbf"], c["msv"]
    ctx.event("kernel=%s floor=%g" % (kind, msv))
    if c.get("via_set_target"):
        # built towards another target, inverted once, then retargeted: the inverse is that of the CURRENT spline
        ctx.event("target given by set_target")
        t = build_tps(src, src[:, ::-1] * 0.5 + 3.0, kind, msv)
        t.pseudoinverse()
        t.set_target(PointCloud(tgt.copy()))
    else:
        t = build_tps(src, tgt, kind, msv)
    before = digest.digest(t)
    inv = t.pseudoinverse()
    dd = digest.parameter_mutation(before, digest.digest(t))
    ctx.expect(dd is None, "transform_changed_by_pseudoinverse", lambda: repr(dd))
    if not ctx.expect(type(inv) is mt.ThinPlateSplines, "tps.inverse_class", type(inv).__name__):
        return
    ctx.expect(np.array_equal(np.asarray(inv.source.points), tgt), "alignment_inverse.source_is_not_old_target",
               lambda: describe(inv.source.points, tgt))
    ctx.expect(np.array_equal(np.asarray(inv.target.points), src), "alignment_inverse.target_is_not_old_source",
               lambda: describe(inv.target.points, src))
    lo, hi = tgt.min(axis=0), tgt.max(axis=0)
    q = lo + gen.arr(c["u"]) * (hi - lo)
    sc = _scale(src, tgt, q)
    ref = rw.tps_fit(tgt, src, kind, msv)
    cond = float(ref["sv"].max() / ref["sv"].min())
    ctx.event("reverse system: %s%s" % (ref["mode"], "" if ref["clear"] else " (singular value near the floor)"))
    moved = maxdiff(src, tgt) > 0.1
    ctx.nontrivial(moved and ref["clear"])
    got = inv.apply(q)
    fresh = build_tps(tgt, src, kind, msv)
    wf = fresh.apply(q)
    ctx.expect(close(got, wf, rtol=0, atol=1e-9 * sc), "tps.inverse_vs_fresh_reverse_fit",
               lambda: "kernel=%s floor=%g (%s)\n%s" % (kind, msv, ref["mode"], describe(got, wf)))
    atol = (1e-9 + 1e-13 * cond) * sc
    if ref["clear"]:
        wr = rw.tps_eval(tgt, ref["w"], kind, q)
        ctx.expect(close(got, wr, rtol=0, atol=atol), "tps.inverse_vs_bordered_system_reference",
                   lambda: "kernel=%s floor=%g (%s) cond=%.2e\n%s" % (kind, msv, ref["mode"], cond, describe(got, wr)))
    if ref["mode"] == "solve" and ref["clear"]:
        ctx.event("landmark return checked")
        back = inv.apply(tgt)
        ctx.expect(close(back, src, rtol=0, atol=atol), "tps.target_landmarks_not_mapped_back",
                   lambda: "kernel=%s floor=%g cond=%.2e\n%s" % (kind, msv, cond, describe(back, src)))
    # the inverse of the inverse is the spline again: end points exactly, kernel of the same kind centred on its own
    # source, same singular-value floor, same map (it is the same fit)
    lo_s, hi_s = src.min(axis=0), src.max(axis=0)
    qs = lo_s + gen.arr(c["u"]) * (hi_s - lo_s)
    fwd = t.apply(qs)
    ii = inv.pseudoinverse()
    if ctx.expect(type(ii) is mt.ThinPlateSplines, "double_inverse.class_differs", type(ii).__name__):
        ctx.expect(np.array_equal(np.asarray(ii.source.points), src), "double_inverse.source_not_restored", lambda: describe(ii.source.points, src))
        ctx.expect(np.array_equal(np.asarray(ii.target.points), tgt), "double_inverse.target_not_restored", lambda: describe(ii.target.points, tgt))
        ctx.expect(type(ii.kernel) is type(t.kernel), "double_inverse.kernel_kind_differs", "%s -> %s" % (type(t.kernel).__name__, type(ii.kernel).__name__))
        ctx.expect(np.array_equal(np.asarray(ii.kernel.c), src), "double_inverse.kernel_not_centred_on_source", lambda: describe(ii.kernel.c, src))
        ctx.expect(ii.min_singular_val == msv, "double_inverse.option_lost.min_singular_val", "%r -> %r" % (msv, ii.min_singular_val))
        f2 = ii.apply(qs)
        ctx.expect(close(f2, fwd, rtol=0, atol=1e-9 * _scale(src, tgt, qs, fwd)), "double_inverse.map_differs",
                   lambda: "kernel=%s floor=%g\n%s" % (kind, msv, describe(f2, fwd)))
    # what is done to a returned inverse afterwards does not reach the spline
    ref_d = digest.digest(t)
    inv.set_target(PointCloud(src[:, ::-1] * 1.5 + 1.0))
    dd2 = digest.parameter_mutation(ref_d, digest.digest(t))
    ctx.expect(dd2 is None, "inverse_not_independent.retargeting_it_changes_the_transform", lambda: "TPS: %r" % (dd2,))
    f3 = t.apply(qs)
    ctx.expect(np.array_equal(f3, fwd), "inverse_not_independent.transform_maps_differently_afterwards", lambda: "TPS\n" + describe(f3, fwd))


# ------------------------------------------------------------------------------------------ texture coordinates
def s_tcoords():
    return st.fixed_dictionaries(
        {
            "shape": st.lists(st.integers(2, 80), min_size=2, max_size=2),
            "pts": st.lists(gen.vec(2, -1, 2), min_size=1, max_size=6),
        }
    )


def c_tcoords(case, ctx):
    hh, ww = case["shape"]
    ctx.event("square" if hh == ww else "non-square")
    ctx.nontrivial(hh != ww)
    t2i = tcoords_to_image_coords((hh, ww))
    i2t = image_coords_to_tcoords((hh, ww))
    p = gen.arr(case["pts"])
    pi = p * np.array([hh - 1.0, ww - 1.0])
    sc = float(max(hh, ww))
    a = i2t.apply(t2i.apply(p))
    ctx.expect(close(a, p, rtol=0, atol=1e-10 * sc), "tcoords.i2t_after_t2i", lambda: "shape %r\n%s" % ((hh, ww), describe(a, p)))
    b = t2i.apply(i2t.apply(pi))
    ctx.expect(close(b, pi, rtol=0, atol=1e-10 * sc), "tcoords.t2i_after_i2t", lambda: "shape %r\n%s" % ((hh, ww), describe(b, pi)))
    # explicit inverse: (row, col) -> (col / (w-1), 1 - row / (h-1))
    want = np.stack([pi[:, 1] / (ww - 1.0), 1.0 - pi[:, 0] / (hh - 1.0)], axis=1)
    got = i2t.apply(pi)
    ctx.expect(close(got, want, rtol=0, atol=1e-10 * sc), "tcoords.inverse_formula", lambda: "shape %r\n%s" % ((hh, ww), describe(got, want)))
    for nm, tr in (("t2i", t2i), ("i2t", i2t)):
        if ctx.expect(isinstance(tr, mt.Homogeneous), "tcoords.not_homogeneous_family", "%s is %s" % (nm, type(tr).__name__)):
            for name in rw.HONESTY_TABLE:
                if isinstance(tr, getattr(mt, name)):
                    ctx.expect(rw.honest(name, tr.h_matrix), "tcoords.not_honest." + name, "%s reports %s" % (nm, type(tr).__name__))


CLAUSES = [
    Clause("homogeneous", c_homog, s_homog, quick=3000, thorough=70000, nt_floor=0.5,
           rule="12 homogeneous-family classes x 2-D/3-D (integer-typed arguments for the closed-form classes); two-sided "
                "inverse on probes, reference solve, class-honesty table, documented class, alignment source/target swap "
                "(against the point sets passed in), receiver unchanged, double inversion (map, end points, options, "
                "retargeting), pseudoinverse_vector (drawn and own vector), independence of the returned inverse"),
    Clause("sequences", c_sequence, s_sequence, quick=2500, thorough=60000, nt_floor=0.5,
           rule="12 homogeneous-family classes (alignments twice as often; PointCloud / TriMesh / landmarked end points) "
                "after 1-3 updates: from_vector[_inplace] with a fresh valid parameter vector, compose_{before,after}_inplace "
                "with a plain or alignment member of the family swallowed in place, set_target, copy, an earlier "
                "pseudoinverse(); then two-sided inverse, reference solve, honesty, class, exchange of the CURRENT end points, "
                "double inversion, independence.  Non-trivial: at least one update took place and a probe moves"),
    Clause("pwa", c_pwa, s_pwa, quick=1200, thorough=30000, nt_floor=0.5,
           rule="PythonPWA/CachedPWA x Delaunay/explicit triangulation; x inside source, y inside target triangles; "
                "targets keeping or (reflection) reversing every orientation, given at construction or by set_target; "
                "barycentric reference inverse; landmarks return; same class; swap; receiver unchanged; double inversion; "
                "independence"),
    Clause("tps", c_tps, s_tps, quick=1200, thorough=30000, nt_floor=0.5,
           rule="TPS x 3 kernels x singular-value floor; inverse == fresh reverse fit == bordered-system reference off "
                "the landmarks; target landmarks return onto source landmarks; swap; receiver unchanged; target given at "
                "construction or by set_target after an earlier inversion; double inversion (kernel kind and centres, "
                "floor, map); independence"),
    Clause("tcoords", c_tcoords, s_tcoords, quick=600, thorough=15000, nt_floor=0.3,
           rule="tcoords_to_image_coords / image_coords_to_tcoords are mutual inverses (shapes 2..80); non-trivial: non-square"),
]
