"""C04 - pseudoinverse really inverts; alignment inverses swap source and target."""
import numpy as np
from hypothesis import strategies as st

from vlib.runner import Clause
from vlib import gen, objs, digest
from vlib import refs_warp as rw
from vlib.tol import close, describe, maxdiff

import menpo.transform as mt
from menpo.transform import rbf as mrbf
from menpo.transform.base import Alignment
from menpo.transform.piecewiseaffine.base import AbstractPWA, CachedPWA, PythonPWA
from menpo.transform.tcoords import tcoords_to_image_coords, image_coords_to_tcoords
from menpo.shape import PointCloud, TriMesh

PROPERTY = "C04"
RULE = (
    "Hypothesis draws (a) one of the 12 homogeneous-family classes in 2-D/3-D with bounded-condition parameters "
    "(projective Homogeneous with divisor in [0.7, 1.3] on the probe points; alignments fitted to member(source)+noise) "
    "and probe points x, y; (b) PythonPWA / CachedPWA over a Delaunay (PointCloud source) or an explicit lattice "
    "triangulation (TriMesh source) whose target is affine(source + per-vertex displacement <= 0.2 x the smallest "
    "altitude of the incident triangles) so every target triangle keeps its orientation, with x strictly inside source "
    "triangles and y strictly inside target triangles; (c) ThinPlateSplines with kernel None / R2LogR2RBF / R2LogRRBF "
    "and min_singular_val 1e-4 or 1e-2 on 4-9 jittered-lattice landmarks and off-landmark probes; (d) image shapes and "
    "texture coordinates.  Non-trivial: the class declares a true inverse (a, b) and the map moves a probe / landmark by "
    "more than 1% of the extent.  Distinct = distinct canonical-JSON digest of the case."
)
ASSUMPTIONS = [
    "the forward matrix of an alignment is read from t.h_matrix (its fit is C07's subject); plain classes use an "
    "independently assembled matrix; the reference inverse solves h z = (y,1) per point with numpy.linalg.solve",
    "class honesty is a predicate table on the inverse's h_matrix evaluated for every table class the inverse is an "
    "instance of (tolerance 1e-9 x magnitude); the inverse need not have the same class as the transform",
    "TPS: exact return of target landmarks is demanded only when the reverse bordered system has no singular value below "
    "the floor (measured with the reference system, >= 99% of min_singular_val=1e-4 cases); with an active floor only the "
    "equality with the fresh reverse fit and with the lstsq(rcond) reference is demanded, and the latter only when no "
    "singular value lies within a factor 2 of the floor",
    "PWA triangles used for probe points have area >= 0.5% of the squared extent so containment is never decided by rounding",
    "identity of source/target objects after inversion is not examined, only their coordinates",
]

_CACHE = ("._applied_points", "._iab")


def _scale(*xs):
    m = 1.0
    for x in xs:
        x = np.asarray(x, dtype=float)
        if x.size:
            m = max(m, float(np.abs(x).max()))
    return m


# ------------------------------------------------------------------------------------------ homogeneous family
@st.composite
def s_homog(draw):
    tc = draw(objs.homog_case())
    d = tc["d"]
    return {
        "t": tc,
        "x": draw(st.lists(gen.vec(d, -10, 10), min_size=1, max_size=6)),
        "y": draw(st.lists(gen.vec(d, -10, 10), min_size=1, max_size=6)),
    }


def c_homog(case, ctx):
    tc = case["t"]
    kind, d = tc["kind"], tc["d"]
    is_align = kind in objs.ALIGN_KINDS
    ctx.event("class=%s %dD" % (kind, d))
    t = objs.build_homog(tc)
    h = objs.ref_h(tc)
    if h is None:
        h = np.array(t.h_matrix, dtype=float, copy=True)
    cond = rw.cond_h(h)
    if cond > 1e5:
        ctx.event("ill-conditioned fit skipped")
        return
    x = gen.arr(case["x"])
    y = gen.arr(case["y"])
    if kind == "Homogeneous":
        # y must lie in the range of the domain: images of domain points (divisor of the inverse = 1/forward divisor)
        y = rw.apply_h(h, y)
        ctx.expect(bool(np.all(np.abs(rw.divisors(h, x) / h[d, d]) > 0.5)), "harness.divisor_near_zero", "")
    declared = bool(t.has_true_inverse)
    ctx.event("has_true_inverse=%s" % declared)
    before = digest.digest(t)
    inv = t.pseudoinverse()
    dd = digest.parameter_mutation(before, digest.digest(t))
    ctx.expect(dd is None, "transform_changed_by_pseudoinverse", lambda: "%s: %r" % (kind, dd))

    sc = _scale(x, y, h[:d, d])
    tol = 1e-10 * cond * sc
    fwd = t.apply(x)
    ctx.nontrivial(declared and maxdiff(fwd, x) > 0.01 * 20)
    if declared:
        back = inv.apply(fwd)
        ctx.expect(close(back, x, rtol=0, atol=tol), "two_sided.inv_after_t",
                   lambda: "%s cond=%.1f\n%s" % (kind, cond, describe(back, x)))
        pre = inv.apply(y)
        again = t.apply(pre)
        ctx.expect(close(again, y, rtol=0, atol=tol * cond), "two_sided.t_after_inv",
                   lambda: "%s cond=%.1f\n%s" % (kind, cond, describe(again, y)))
        want = rw.solve_inverse_h(h, y)
        ctx.expect(close(pre, want, rtol=0, atol=tol * cond), "inverse_vs_solve_reference",
                   lambda: "%s cond=%.1f\n%s" % (kind, cond, describe(pre, want)))

    # an honest member of the class it reports, not a chain
    if ctx.expect(isinstance(inv, mt.Homogeneous) and not isinstance(inv, mt.TransformChain), "inverse_not_homogeneous_family",
                  "%s -> %s" % (kind, type(inv).__name__)):
        hi = np.asarray(inv.h_matrix, dtype=float)
        ctx.event("inverse class=%s" % type(inv).__name__)
        for name in rw.HONESTY_TABLE:
            if isinstance(inv, getattr(mt, name)):
                ctx.expect(rw.honest(name, hi), "inverse_not_honest." + name,
                           lambda: "inverse of %s reports %s, matrix\n%s" % (kind, type(inv).__name__, np.array2string(hi, precision=8)))

    if is_align:
        src, tgt = gen.arr(tc["src"]), gen.arr(tc["tgt"])
        if ctx.expect(isinstance(inv, Alignment), "alignment_inverse.not_an_alignment", type(inv).__name__):
            ctx.expect(np.array_equal(np.asarray(inv.source.points), tgt), "alignment_inverse.source_is_not_old_target",
                       lambda: "%s\n%s" % (kind, describe(inv.source.points, tgt)))
            ctx.expect(np.array_equal(np.asarray(inv.target.points), src), "alignment_inverse.target_is_not_old_source",
                       lambda: "%s\n%s" % (kind, describe(inv.target.points, src)))

    # the inverse depends only on the CURRENT parameters: invert, re-parametrise (retarget an alignment / from_vector),
    # invert again - the second inverse must undo the re-parametrised transform
    t2 = None
    how = None
    try:
        if is_align:
            how = "set_target"
            t2 = t.copy()
            t2.set_target(PointCloud(gen.arr(tc["tgt"])[::-1] * 1.25 + 0.5))
        else:
            how = "from_vector"
            v = t.as_vector()
            if kind == "Rotation":
                q2 = v + 0.25 * np.arange(1, v.shape[0] + 1) / v.shape[0]
                v2 = q2 / np.linalg.norm(q2)
            elif kind in ("UniformScale", "NonUniformScale"):
                v2 = v * 1.5
            elif kind == "Homogeneous":
                v2 = None
            else:
                v2 = v + 0.125
            if v2 is not None:
                t2 = t.from_vector(v2)
    except NotImplementedError:
        t2 = None
    if t2 is not None and declared:
        h2 = np.array(t2.h_matrix, dtype=float, copy=True)
        c2 = rw.cond_h(h2)
        if c2 < 1e5:
            ctx.event("second inverse after %s" % how)
            inv2 = t2.pseudoinverse()
            f2 = t2.apply(x)
            b2 = inv2.apply(f2)
            ctx.expect(close(b2, x, rtol=0, atol=1e-10 * c2 * _scale(x, f2, h2[:d, d])), "second_inverse_after_reparametrisation_is_stale." + how,
                       lambda: "%s: pseudoinverse() taken, then %s, then pseudoinverse() again\n%s" % (kind, how, describe(b2, x)))


# ------------------------------------------------------------------------------------------ piecewise affine
@st.composite
def s_pwa(draw):
    c = {"impl": draw(st.sampled_from(["PythonPWA", "CachedPWA"])), "mode": draw(st.sampled_from(["delaunay", "grid"]))}
    if c["mode"] == "delaunay":
        n = draw(st.integers(4, 9))
        c["src"] = draw(gen.points_case(n=n, d=2, extent=10.0).filter(gen.non_collinear))
    else:
        gx, gy = draw(st.integers(2, 3)), draw(st.integers(2, 3))
        n = gx * gy
        cell = 10.0 / 3
        jit = draw(st.lists(st.lists(gen.q(-0.2, 0.2), min_size=2, max_size=2), min_size=n, max_size=n))
        c["grid"] = [gx, gy]
        c["src"] = [[(ix + 0.5 + jit[ix + gx * iy][0]) * cell, (iy + 0.5 + jit[ix + gx * iy][1]) * cell]
                    for iy in range(gy) for ix in range(gx)]
        c["diag"] = draw(st.lists(st.booleans(), min_size=(gx - 1) * (gy - 1), max_size=(gx - 1) * (gy - 1)))
    c["unit"] = draw(st.lists(st.lists(gen.q(-1, 1), min_size=2, max_size=2), min_size=n, max_size=n))
    c["amp"] = draw(gen.q(0.02, 0.14))
    c["lin"] = draw(gen.linear_case(2, smin=0.5, smax=2.0, allow_reflection=False))
    c["shift"] = draw(gen.vec(2))
    c["px"] = draw(objs.bary_picks(1, 6))
    c["py"] = draw(objs.bary_picks(1, 6))
    # the target may itself be a TriMesh carrying its OWN (different) triangulation: the map and its inverse are
    # defined by the source's triangle list only
    c["tgt_form"] = draw(st.sampled_from(["pointcloud", "pointcloud", "trimesh_own"]))
    # a near-identity warp (target = source + small per-vertex displacement): source and target domains overlap, so
    # the same points can be fed to the transform and to its inverse
    c["near_id"] = draw(st.sampled_from([False, False, True]))
    return c


def pwa_setup(c):
    """(source object, src array, tgt array, trilist) of a PWA case; target triangles keep their orientation."""
    src = gen.arr(c["src"])
    if c["mode"] == "grid":
        trilist = np.array(rw.grid_trilist(c["grid"][0], c["grid"][1], c["diag"]), dtype=int)
        source = TriMesh(src.copy(), trilist=trilist.copy())
    else:
        trilist = np.array(objs.pwa_trilist(c), dtype=int)
        source = PointCloud(src.copy())
    alt = rw.min_altitudes(src, trilist)
    alt = np.where(np.isfinite(alt), alt, 0.0)
    disp = gen.arr(c["unit"]) * (c["amp"] * alt)[:, None]
    lin = gen.build_linear(2, c["lin"])
    if c.get("near_id"):
        tgt = src + disp
    else:
        tgt = (src + disp).dot(lin.T) + gen.arr(c["shift"])
    return source, src, tgt, trilist


def c_pwa(c, ctx):
    source, src, tgt, trilist = pwa_setup(c)
    a_s, a_t = rw.tri_signed_areas(src, trilist), rw.tri_signed_areas(tgt, trilist)
    if not np.all(np.sign(a_s) == np.sign(a_t)) or np.any(a_t == 0):
        raise AssertionError("generator: a target triangle lost its orientation")
    cls = CachedPWA if c["impl"] == "CachedPWA" else PythonPWA
    ctx.event("%s source=%s" % (c["impl"], c["mode"]))
    if c.get("tgt_form", "pointcloud") == "trimesh_own":
        if c["mode"] == "grid":
            other = np.array(rw.grid_trilist(c["grid"][0], c["grid"][1], [not b for b in c["diag"]]), dtype=int)
            target_obj = TriMesh(tgt.copy(), trilist=other)
        else:
            target_obj = TriMesh(tgt.copy())  # its own Delaunay triangulation
        ctx.event("target=TriMesh, own trilist %s" % ("differs" if not np.array_equal(np.asarray(target_obj.trilist), trilist) else "equal"))
    else:
        target_obj = PointCloud(tgt.copy())
    t = cls(source, target_obj)
    ctx.expect(np.array_equal(np.asarray(t.trilist), trilist), "pwa.trilist_not_the_expected_one", "")
    declared = bool(t.has_true_inverse)
    ctx.event("has_true_inverse=%s" % declared)
    before = digest.digest(t, skip=_CACHE)
    inv = t.pseudoinverse()
    dd = digest.parameter_mutation(before, digest.digest(t, skip=_CACHE))
    ctx.expect(dd is None, "transform_changed_by_pseudoinverse", lambda: repr(dd))
    ctx.expect(isinstance(inv, AbstractPWA), "pwa.inverse_class", "%s -> %s" % (type(t).__name__, type(inv).__name__))
    ctx.event("inverse class %s" % ("same" if type(inv) is type(t) else "other PWA" if isinstance(inv, AbstractPWA) else "not a PWA"))
    if not ctx.expect(isinstance(inv, Alignment), "alignment_inverse.not_an_alignment", type(inv).__name__):
        return
    ctx.expect(np.array_equal(np.asarray(inv.source.points), tgt), "alignment_inverse.source_is_not_old_target",
               lambda: describe(inv.source.points, tgt))
    ctx.expect(np.array_equal(np.asarray(inv.target.points), src), "alignment_inverse.target_is_not_old_source",
               lambda: describe(inv.target.points, src))
    fat = [list(tri) for tri, u, v in zip(trilist, a_s, a_t) if abs(u) >= 0.5 and abs(v) >= 0.5 * 0.25]
    ctx.event("fat triangles=%s" % ("all" if len(fat) == len(trilist) else "some" if fat else "none"))
    sc = _scale(src, tgt)
    ctx.nontrivial(declared and bool(fat) and maxdiff(src, tgt) > 0.1)
    # every target landmark goes back exactly onto its source landmark
    used = sorted(set(int(k) for tri in trilist for k in tri))
    back_lm = inv.apply(tgt[used])
    ctx.expect(close(back_lm, src[used], rtol=0, atol=1e-8 * sc), "pwa.target_landmarks_not_mapped_back",
               lambda: describe(back_lm, src[used]))
    if not fat or not declared:
        return
    x = objs.bary_points(src, fat, c["px"])
    y = objs.bary_points(tgt, fat, c["py"])
    back = inv.apply(t.apply(x))
    ctx.expect(close(back, x, rtol=0, atol=1e-8 * sc), "two_sided.inv_after_t", lambda: "PWA\n" + describe(back, x))
    pre = inv.apply(y)
    again = t.apply(pre)
    ctx.expect(close(again, y, rtol=0, atol=1e-8 * sc), "two_sided.t_after_inv", lambda: "PWA\n" + describe(again, y))
    want, outside = rw.pwa_eval(tgt, src, trilist, y)
    if ctx.expect(not outside.any(), "harness.reference_point_outside", ""):
        ctx.expect(close(pre, want, rtol=0, atol=1e-8 * sc), "pwa.inverse_vs_barycentric_reference", lambda: describe(pre, want))
    # an inverse taken AFTER the transform has been used, then fed the very values the transform saw last: points that
    # lie (with margin, by the barycentric reference) in both the source and the target domain
    cand = np.vstack([x, y, np.array([src[list(tri)].mean(axis=0) for tri in fat])])
    f_ref, out_s = rw.pwa_eval(src, tgt, trilist, cand)
    b_ref, out_t = rw.pwa_eval(tgt, src, trilist, cand)
    both = ~out_s & ~out_t
    if both.any():
        z = cand[both]
        # keep only points at a safe distance from every edge of both triangulations (location never decided by rounding)
        safe = np.array([_edge_clear(p, src, trilist) and _edge_clear(p, tgt, trilist) for p in z], dtype=bool)
        z = z[safe]
        if z.shape[0]:
            ctx.event("inverse of a used transform probed on points of both domains")
            t.apply(z)
            inv2 = t.pseudoinverse()
            got2 = inv2.apply(z.copy())
            want2 = b_ref[both][safe]
            ctx.expect(close(got2, want2, rtol=0, atol=1e-8 * sc), "pwa.inverse_of_used_transform_answers_from_stale_state",
                       lambda: describe(got2, want2))


def _edge_clear(p, pts, trilist, eps=1e-6):
    for tri in trilist:
        for e in range(3):
            a, b = pts[tri[e]], pts[tri[(e + 1) % 3]]
            ab = b - a
            tpar = min(1.0, max(0.0, float((p - a).dot(ab) / ab.dot(ab))))
            if np.linalg.norm(p - (a + tpar * ab)) < eps:
                return False
    return True


# ------------------------------------------------------------------------------------------ thin plate splines
@st.composite
def s_tps(draw):
    c = draw(objs.warp_case(kind="ThinPlateSplines"))
    c["msv"] = draw(st.sampled_from([1e-4, 1e-4, 1e-2]))
    c["u"] = draw(st.lists(st.lists(gen.q(-0.2, 1.2), min_size=2, max_size=2), min_size=1, max_size=6))
    return c


def build_tps(src, tgt, kind, msv):
    kernel = None if kind is None else getattr(mrbf, kind)(np.array(src, dtype=float))
    return mt.ThinPlateSplines(PointCloud(np.array(src, dtype=float)), PointCloud(np.array(tgt, dtype=float)), kernel=kernel, min_singular_val=msv)


def c_tps(c, ctx):
    src, tgt, kind, msv = gen.arr(c["src"]), gen.arr(c["tgt"]), c["rbf"], c["msv"]
    ctx.event("kernel=%s floor=%g" % (kind, msv))
    t = build_tps(src, tgt, kind, msv)
    before = digest.digest(t)
    inv = t.pseudoinverse()
    dd = digest.parameter_mutation(before, digest.digest(t))
    ctx.expect(dd is None, "transform_changed_by_pseudoinverse", lambda: repr(dd))
    if not ctx.expect(type(inv) is mt.ThinPlateSplines, "tps.inverse_class", type(inv).__name__):
        return
    ctx.expect(np.array_equal(np.asarray(inv.source.points), tgt), "alignment_inverse.source_is_not_old_target",
               lambda: describe(inv.source.points, tgt))
    ctx.expect(np.array_equal(np.asarray(inv.target.points), src), "alignment_inverse.target_is_not_old_source",
               lambda: describe(inv.target.points, src))
    lo, hi = tgt.min(axis=0), tgt.max(axis=0)
    q = lo + gen.arr(c["u"]) * (hi - lo)
    sc = _scale(src, tgt, q)
    ref = rw.tps_fit(tgt, src, kind, msv)
    cond = float(ref["sv"].max() / ref["sv"].min())
    ctx.event("reverse system: %s%s" % (ref["mode"], "" if ref["clear"] else " (singular value near the floor)"))
    moved = maxdiff(src, tgt) > 0.1
    ctx.nontrivial(moved and ref["clear"])
    got = inv.apply(q)
    fresh = build_tps(tgt, src, kind, msv)
    wf = fresh.apply(q)
    ctx.expect(close(got, wf, rtol=0, atol=1e-9 * sc), "tps.inverse_vs_fresh_reverse_fit",
               lambda: "kernel=%s floor=%g (%s)\n%s" % (kind, msv, ref["mode"], describe(got, wf)))
    atol = (1e-9 + 1e-13 * cond) * sc
    if ref["clear"]:
        wr = rw.tps_eval(tgt, ref["w"], kind, q)
        ctx.expect(close(got, wr, rtol=0, atol=atol), "tps.inverse_vs_bordered_system_reference",
                   lambda: "kernel=%s floor=%g (%s) cond=%.2e\n%s" % (kind, msv, ref["mode"], cond, describe(got, wr)))
    if ref["mode"] == "solve" and ref["clear"]:
        ctx.event("landmark return checked")
        back = inv.apply(tgt)
        ctx.expect(close(back, src, rtol=0, atol=atol), "tps.target_landmarks_not_mapped_back",
                   lambda: "kernel=%s floor=%g cond=%.2e\n%s" % (kind, msv, cond, describe(back, src)))


# ------------------------------------------------------------------------------------------ texture coordinates
def s_tcoords():
    return st.fixed_dictionaries(
        {
            "shape": st.lists(st.integers(2, 80), min_size=2, max_size=2),
            "pts": st.lists(gen.vec(2, -1, 2), min_size=1, max_size=6),
        }
    )


def c_tcoords(case, ctx):
    hh, ww = case["shape"]
    ctx.event("square" if hh == ww else "non-square")
    ctx.nontrivial(hh != ww)
    t2i = tcoords_to_image_coords((hh, ww))
    i2t = image_coords_to_tcoords((hh, ww))
    p = gen.arr(case["pts"])
    pi = p * np.array([hh - 1.0, ww - 1.0])
    sc = float(max(hh, ww))
    a = i2t.apply(t2i.apply(p))
    ctx.expect(close(a, p, rtol=0, atol=1e-10 * sc), "tcoords.i2t_after_t2i", lambda: "shape %r\n%s" % ((hh, ww), describe(a, p)))
    b = t2i.apply(i2t.apply(pi))
    ctx.expect(close(b, pi, rtol=0, atol=1e-10 * sc), "tcoords.t2i_after_i2t", lambda: "shape %r\n%s" % ((hh, ww), describe(b, pi)))
    # explicit inverse: (row, col) -> (col / (w-1), 1 - row / (h-1))
    want = np.stack([pi[:, 1] / (ww - 1.0), 1.0 - pi[:, 0] / (hh - 1.0)], axis=1)
    got = i2t.apply(pi)
    ctx.expect(close(got, want, rtol=0, atol=1e-10 * sc), "tcoords.inverse_formula", lambda: "shape %r\n%s" % ((hh, ww), describe(got, want)))
    for nm, tr in (("t2i", t2i), ("i2t", i2t)):
        if ctx.expect(isinstance(tr, mt.Homogeneous), "tcoords.not_homogeneous_family", "%s is %s" % (nm, type(tr).__name__)):
            for name in rw.HONESTY_TABLE:
                if isinstance(tr, getattr(mt, name)):
                    ctx.expect(rw.honest(name, tr.h_matrix), "tcoords.not_honest." + name, "%s reports %s" % (nm, type(tr).__name__))


CLAUSES = [
    Clause("homogeneous", c_homog, s_homog, quick=3000, thorough=70000, nt_floor=0.5,
           rule="12 homogeneous-family classes x 2-D/3-D; two-sided inverse on probes, reference solve, class-honesty table, "
                "alignment source/target swap (against the point sets passed in), receiver unchanged"),
    Clause("pwa", c_pwa, s_pwa, quick=1200, thorough=30000, nt_floor=0.5,
           rule="PythonPWA/CachedPWA x Delaunay/explicit triangulation; x inside source, y inside target triangles; "
                "barycentric reference inverse; landmarks return; same class; swap; receiver unchanged"),
    Clause("tps", c_tps, s_tps, quick=1200, thorough=30000, nt_floor=0.5,
           rule="TPS x 3 kernels x singular-value floor; inverse == fresh reverse fit == bordered-system reference off "
                "the landmarks; target landmarks return onto source landmarks; swap; receiver unchanged"),
    Clause("tcoords", c_tcoords, s_tcoords, quick=600, thorough=15000, nt_floor=0.3,
           rule="tcoords_to_image_coords / image_coords_to_tcoords are mutual inverses (shapes 2..80); non-trivial: non-square"),
]
