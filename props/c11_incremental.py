"""C11 - incremental model updates equal the batch model on the concatenated data."""
import itertools

import numpy as np
from hypothesis import strategies as st

from vlib.runner import Clause
from vlib import gen
from vlib import refs_pca as rp
from vlib.tol import close, describe, maxdiff

from menpo.model import PCAModel, PCAVectorModel, GMRFVectorModel, GMRFModel
from menpo.shape import PointCloud
from menpo.shape import PointCloud, UndirectedGraph, DirectedGraph, Tree

PROPERTY = "C11"
RULE = (
    "PCA: data X = mean + A diag(s) B^T (well-separated spectrum, spread <= 100, mean bounded away from 0) with "
    "n = 4..16 samples on both sides of n = d, centred/uncentred; the sample sequence is cut into an initial "
    "batch >= 2 and 1..k increments - EVERY composition for n <= 6 (quick) / n <= 8 (thorough), Hypothesis-drawn "
    "pairs of compositions for larger n; forgetting factor 1.0. GMRF: graphs {edgeless, chain, cycle, star, "
    "random tree, random undirected with isolated vertices} as Undirected/Directed/Tree objects with relabelled "
    "vertices, 1-3 features per vertex, concatenation/subtraction, sparse/dense, bias 0/1, float64, data with "
    "block covariances of condition <= 16 by construction, initial batch >= 2*block+2 samples, 1-4 increments. "
    "Non-trivial: >= 2 increments of unequal sizes or an increment of size 1 (PCA additionally: any split of "
    "centred data, whose cross term is exercised); distinct = distinct canonical-JSON digest of the case"
)
ASSUMPTIONS = [
    "forgetting factor fixed to 1.0 (the property says: no forgetting)",
    "a centred model whose running mean is exactly zero is treated by ipca as uncentred; data means are bounded away from zero and the corner is skipped (event excluded:exact_zero_mean), not asserted either way",
    "cases where some prefix of the sample sequence has an eigenvalue inside the eigenvalue floor's grey zone (1e-20..1e-8 relative or absolute) are skipped (event excluded:floor_grey_zone): pca/ipca legitimately truncate there",
    "PCA tolerances scale with the worst prefix conditioning kappa = lambda_max/lambda_min over all prefixes: rtol = max(1e-7, 1e-12*kappa) for eigenvalues and projectors, 10x that for sign-aligned components (measured ipca error <= 1e-14*kappa; kappa is not controlled by construction, only the full data's spectrum is)",
    "PCA references: batch constructor on np.vstack(chunks) AND numpy SVD of the centred concatenated matrix",
    "GMRF references: batch GMRFVectorModel on np.vstack(chunks) AND a float64 sum of inverted per-edge (per-vertex when edgeless) sample covariances scattered to block positions",
    "GMRF bulk data come from numpy RandomState(drawn seed), orthonormalised so that the covariance of the concatenated data is W diag(s^2) W^T with drawn s in [0.5, 2]",
    "only the final model (after the last increment) is compared; prefixes have uncontrolled conditioning",
]


# ==============================================================================================
# PCA


def compositions(total, min_first=2):
    """All ways of writing total = n0 + n1 + ... + nk, n0 >= min_first, k >= 1, ni >= 1."""
    out = []
    for n0 in range(min_first, total):
        rem = total - n0
        for bits in itertools.product([0, 1], repeat=rem - 1):
            parts, cur = [], 1
            for b in bits:
                if b:
                    parts.append(cur)
                    cur = 1
                else:
                    cur += 1
            parts.append(cur)
            out.append([n0] + parts)
    return out


_ENUM_CACHE = {}


def enum_pca(tier):
    if tier in _ENUM_CACHE:
        return _ENUM_CACHE[tier]
    n_max = 6 if tier == "quick" else 8
    n_data = 2
    cases = []
    for n in range(4, n_max + 1):
        comps = compositions(n)
        for centre in (True, False):
            for side, d in (("n>d", 3), ("n==d", n), ("n<d", n + 2)):
                for k in range(n_data):
                    rs = np.random.RandomState(1000 * n + 100 * int(centre) + 10 * d + k)
                    data = rp.seeded_data_case(rs, n, d, centre)
                    for comp in comps:
                        cases.append({"data": data, "splits": [comp], "kind": "vector", "side": side})
    _ENUM_CACHE[tier] = cases
    return cases


@st.composite
def split_case(draw, n):
    n0 = draw(st.integers(2, n - 1))
    rem = n - n0
    bits = draw(st.lists(st.booleans(), min_size=rem - 1, max_size=rem - 1))
    parts, cur = [], 1
    for b in bits:
        if b and len(parts) < 5:
            parts.append(cur)
            cur = 1
        else:
            cur += 1
    parts.append(cur)
    return [n0] + parts


@st.composite
def s_pca_random_case(draw):
    kind = draw(st.sampled_from(["vector", "vector", "pointcloud"]))
    side = draw(st.sampled_from(["n>d", "n>d", "n==d", "n<d", "n<d"]))
    n = draw(st.integers(4, 16))
    if side == "n>d":
        d = draw(st.integers(2, n - 1))
    elif side == "n==d":
        d = n
    else:
        d = draw(st.integers(n + 1, n + 4))
    if kind == "pointcloud" and d % 2:
        d += 1
        side = "n>d" if n > d else ("n==d" if n == d else "n<d")
    centre = draw(st.booleans())
    data = draw(rp.data_case(n, d, centre, spread=100.0, s0=(1.0, 8.0), mean_gap=0.5))
    return {
        "data": data,
        "splits": [draw(split_case(n)), draw(split_case(n))],
        # features that are identically zero in every sample (planar 3-D shapes, background pixels): the mean then has
        # exactly-zero entries without being the zero vector. 0 or 2 extra all-zero columns inserted at drawn positions
        "zero_cols": draw(st.sampled_from([[], [], [], [0, 0], [1, 3], [2, 5]])),
        # integer-valued samples handed over as integer-typed arrays (pixel counts, quantised coordinates)
        "int_data": draw(st.sampled_from([None, None, None, "int64", "int64"])),
        # the unit of the data is arbitrary: the same cloud in micro-units (x 2^-20) or mega-units (x 2^20)
        "scale_pow": draw(st.sampled_from([0, 0, 0, -20, 20])),
        "kind": kind,
        "side": side,
    }


def s_pca_random():
    return s_pca_random_case()


def _grey(eigs):
    eigs = np.asarray(eigs, dtype=float)
    if eigs.size == 0:
        return False
    top = float(eigs.max())
    if top <= 0:
        return False
    rel = eigs / top
    # relative to the largest eigenvalue only: the floor of the code under test is relative, and the unit of the data
    # is arbitrary (an absolute window would exclude every micro-unit data set)
    return bool(np.any((rel > 1e-20) & (rel < 1e-8)))


def _run_incremental(kind, x, centre, split, int_dtype=None):
    """Builds the initial model on the first chunk and feeds the remaining chunks."""
    edges = np.cumsum([0] + list(split))
    chunks = [x[edges[i] : edges[i + 1]] for i in range(len(split))]
    as_given = (lambda a: a.astype(int_dtype)) if (int_dtype and kind == "vector") else (lambda a: a.copy())
    if kind == "vector":
        # (the constructor centres its argument in place by default, which needs a float array: only the increments
        # are handed over integer-typed)
        m = PCAVectorModel(chunks[0].copy(), centre=centre)
    else:
        tmpl = PointCloud(np.zeros((x.shape[1] // 2, 2)))
        m = PCAModel([tmpl.from_vector(r.copy()) for r in chunks[0]], centre=centre)
    # the excluded corner (a centred model whose running mean is EXACTLY the zero vector) is decided from the data,
    # never from the state of the model under test
    seen = chunks[0]
    zero_mean_corner = centre and bool(np.all(seen.mean(axis=0) == 0))
    for c in chunks[1:]:
        if kind == "vector":
            m.increment(as_given(c), forgetting_factor=1.0)
        else:
            m.increment([tmpl.from_vector(r.copy()) for r in c], forgetting_factor=1.0)
        seen = np.vstack([seen, c])
        if centre and bool(np.all(seen.mean(axis=0) == 0)):
            zero_mean_corner = True
    return m, chunks, zero_mean_corner


def _summary(m):
    return {
        "n_samples": int(m.n_samples),
        "mean": np.array(m._mean, dtype=float, copy=True),
        "eigs": np.array(m._eigenvalues, dtype=float, copy=True),
        "comps": np.array(m._components, dtype=float, copy=True),
    }


def _cmp_pca(ctx, got, want_n, want_mean, want_eigs, want_comps, prefix, sc, tol=1e-7):
    """got: summary of the incremental model; want_*: batch model or reference."""
    ok = True
    ok &= ctx.expect(got["n_samples"] == want_n, prefix + ".n_samples", "%r vs %r" % (got["n_samples"], want_n))
    ok &= ctx.expect(
        close(got["mean"], want_mean, atol=1e-9 * sc),
        prefix + ".mean",
        lambda: describe(got["mean"], want_mean),
    )
    k = want_eigs.shape[0]
    if not ctx.expect(
        got["eigs"].shape == (k,) and got["comps"].shape == want_comps.shape,
        prefix + ".component_count",
        "incremental has %r eigenvalues / components %r, expected %d" % (got["eigs"].shape, got["comps"].shape, k),
    ):
        return False
    lmax = float(want_eigs[0]) if k else 1.0
    ok &= ctx.expect(
        bool(np.all(np.abs(got["eigs"] - want_eigs) <= tol * want_eigs + 1e-12 * lmax)),
        prefix + ".eigenvalues",
        lambda: describe(got["eigs"], want_eigs),
    )
    dp = maxdiff(rp.projector(got["comps"]), rp.projector(want_comps))
    ok &= ctx.expect(dp <= tol, prefix + ".subspace", lambda: "projector difference %.3e" % dp)
    dv = rp.sign_aligned_diff(got["comps"], want_comps)
    ok &= ctx.expect(
        dv <= 10 * tol,
        prefix + ".components",
        lambda: "max sign-aligned component difference %.3e" % dv,
    )
    return ok


def c_pca(case, ctx):
    dc = case["data"]
    x = rp.build_data(dc)
    n, d, r, centre = dc["n"], dc["d"], dc["r"], dc["centre"]
    sp = int(case.get("scale_pow", 0))
    if sp and not case.get("int_data"):
        x = x * 2.0 ** sp  # exact in binary
        ctx.event("data unit 2^%d" % sp)
    idt = case.get("int_data")
    if idt and (float(np.abs(x).max()) > 64.0 or int(dc.get("unit_pow", 0)) != 0):
        idt = None  # far-from-origin clouds stay float (fixed point would overflow / lose the spread)
    if idt:
        # integer-valued (fixed point with 20 fractional bits: rounding perturbs the constructed spectrum by ~1e-4
        # relative, far below its separation); the reference below is computed from these very numbers
        x = np.round(x * 2.0 ** 20)
        ctx.event("integer-typed samples (%s)" % idt)
    zc = case.get("zero_cols", [])
    if zc:
        # appending all-zero feature columns changes neither the rank nor the spectrum
        for pos in sorted(zc):
            x = np.insert(x, min(pos, x.shape[1]), 0.0, axis=1)
        x = np.ascontiguousarray(x)
        d = x.shape[1]
        ctx.event("identically-zero features: %d" % len(zc))
    kind = case["kind"]
    sc = max(1.0, float(np.abs(x).max()))
    ctx.event("side=%s centre=%s" % (case["side"], centre))
    ctx.event("kind=%s" % kind)

    # skip cases where a prefix spectrum touches the eigenvalue floor (legitimate truncation);
    # kappa = worst conditioning (lambda_max / smallest numerically non-zero lambda) over all prefixes
    kappa = 1.0
    for split in case["splits"]:
        for e in np.cumsum(split):
            _, pe, _ = rp.ref_pca(x[:e], centre)
            if _grey(pe):
                ctx.event("excluded:floor_grey_zone")
                return
            pos = pe[pe > 1e-20 * pe.max()]
            kappa = max(kappa, float(pe.max() / pos.min()))
    ctx.event("prefix_cond<=1e4" if kappa <= 1e4 else ("prefix_cond<=1e6" if kappa <= 1e6 else "prefix_cond<=1e8"))
    # measured forward error of ipca is <= 1e-14 * kappa (components of a tiny prefix eigenvalue lose
    # orthogonality once the eigenspace saturates); tolerance is 100x that, never below the design's 1e-7
    tol = max(1e-7, 1e-12 * kappa)

    ref_mean, ref_eigs, ref_vt = rp.ref_pca(x, centre)
    batch = PCAVectorModel(x.copy(), centre=centre)
    sb = _summary(batch)
    # the batch model itself is C10's business; if it disagrees with the reference say so distinctly
    batch_ok = (
        sb["eigs"].shape == (r,)
        and bool(np.all(np.abs(sb["eigs"] - ref_eigs[:r]) <= 1e-7 * ref_eigs[:r]))
        and rp.sign_aligned_diff(sb["comps"], ref_vt[:r]) <= 1e-6
    )
    ctx.expect(batch_ok, "pca.batch_model_vs_reference", "batch model disagrees with the SVD reference (see C10)")

    summaries = []
    for si, split in enumerate(case["splits"]):
        incs = split[1:]
        ctx.event("increments=%d" % len(incs))
        unequal = len(incs) >= 2 and len(set(incs)) > 1
        ctx.event("unequal" if unequal else ("single1" if 1 in incs else "plain"))
        m, chunks, corner = _run_incremental(kind, x, centre, split, idt)
        if corner:
            ctx.event("excluded:exact_zero_mean")
            return
        ctx.nontrivial(unequal or 1 in incs or centre)
        ctx.expect(
            maxdiff(np.vstack(chunks), x) == 0.0, "harness.chunks", "chunks do not concatenate to the data"
        )
        s = _summary(m)
        summaries.append(s)
        tag = "centred" if centre else "uncentred"
        _cmp_pca(ctx, s, n, sb["mean"], sb["eigs"], sb["comps"], "pca.vs_batch.%s" % tag, sc, tol)
        _cmp_pca(ctx, s, n, ref_mean, ref_eigs[:r], ref_vt[:r], "pca.vs_reference.%s" % tag, sc, tol)
        # the public view agrees with the state (all components active after increments)
        ctx.expect(
            m.n_components == s["eigs"].shape[0] and np.asarray(m.components).shape[0] == m.n_active_components,
            "pca.counts_consistent",
            "n_components=%r n_active=%r eigenvalues=%r" % (m.n_components, m.n_active_components, s["eigs"].shape),
        )
    if len(summaries) == 2:
        a, b = summaries
        _cmp_pca(ctx, a, b["n_samples"], b["mean"], b["eigs"], b["comps"], "pca.chunking_dependence", sc, tol)


# ==============================================================================================
# GMRF

GRAPH_KINDS = ["edgeless", "chain", "cycle", "star", "tree", "isolated", "isolated"]


@st.composite
def graph_case(draw):
    kind = draw(st.sampled_from(GRAPH_KINDS))
    if kind == "edgeless":
        nv = draw(st.integers(1, 6))
        edges = []
    elif kind == "chain":
        nv = draw(st.integers(2, 6))
        edges = [[i, i + 1] for i in range(nv - 1)]
    elif kind == "cycle":
        nv = draw(st.integers(3, 6))
        edges = [[i, (i + 1) % nv] for i in range(nv)]
    elif kind == "star":
        nv = draw(st.integers(3, 6))
        edges = [[0, i] for i in range(1, nv)]
    elif kind == "tree":
        nv = draw(st.integers(2, 7))
        edges = [[draw(st.integers(0, k - 1)), k] for k in range(1, nv)]
    else:
        nv = draw(st.integers(3, 7))
        n_iso = draw(st.integers(1, nv - 2))
        live = nv - n_iso
        pairs = [[i, j] for i in range(live) for j in range(i + 1, live)]
        bits = draw(st.lists(st.booleans(), min_size=len(pairs), max_size=len(pairs)))
        forced = draw(st.integers(0, len(pairs) - 1))
        edges = [p for k, p in enumerate(pairs) if bits[k] or k == forced]
    is_tree_shaped = kind in ("chain", "star", "tree")
    cls = draw(st.sampled_from(["undirected", "undirected", "directed"] + (["tree"] if is_tree_shaped else [])))
    if kind == "edgeless":
        cls = draw(st.sampled_from(["undirected", "directed"]))
    if cls == "tree":
        perm = list(range(nv))
    else:
        perm = draw(st.permutations(list(range(nv))))
    edges = [[perm[a], perm[b]] for a, b in edges]
    if cls == "directed":
        flips = draw(st.lists(st.booleans(), min_size=len(edges), max_size=len(edges)))
        edges = [[b, a] if f else [a, b] for (a, b), f in zip(edges, flips)]
    anti = False
    if cls == "directed" and edges and draw(st.integers(0, 3)) == 0:
        # a directed graph that lists both orientations of some edges (e.g. a chain given with symmetric edges, a
        # directed 2-cycle): the batch model defines the precision there, the incremental one has to agree with it
        dup = draw(st.lists(st.booleans(), min_size=len(edges), max_size=len(edges)))
        dup[draw(st.integers(0, len(edges) - 1))] = True
        edges = edges + [[b, a] for (a, b), f in zip(edges, dup) if f]
        anti = True
    if cls != "tree":
        order = draw(st.permutations(list(range(len(edges)))))
        edges = [edges[i] for i in order]
    return {"kind": kind, "nv": nv, "edges": edges, "cls": cls, "antiparallel": anti}


@st.composite
def s_gmrf_case(draw):
    g = draw(graph_case())
    f = draw(st.integers(1, 3))
    mode = draw(st.sampled_from(["concatenation", "subtraction"]))
    nfeat = g["nv"] * f
    block = f if (not g["edges"] or mode == "subtraction") else 2 * f
    n0 = max(2 * block + 2, nfeat + 1) + draw(st.integers(0, 4))
    incs = draw(st.lists(st.integers(1, 4), min_size=1, max_size=4))
    return {
        "graph": g,
        "f": f,
        "mode": mode,
        "sparse": draw(st.booleans()),
        "bias": draw(st.sampled_from([0, 1])),
        "n0": n0,
        "incs": incs,
        "seed": draw(st.integers(0, 2**31 - 1)),
        "s": draw(st.lists(gen.q(0.5, 2.0), min_size=nfeat, max_size=nfeat)),
        "mean": draw(gen.vec(nfeat, -10, 10)),
        # vector-backed GMRFVectorModel or the PointCloud-backed GMRFModel (vertices = points, features = dims)
        "model": draw(st.sampled_from(["vector", "vector", "object"])),
    }


def s_gmrf():
    return s_gmrf_case()


def build_graph(g):
    e = np.array(g["edges"], dtype=int).reshape(-1, 2)
    if g["cls"] == "undirected":
        return UndirectedGraph.init_from_edges(e, g["nv"])
    if g["cls"] == "directed":
        return DirectedGraph.init_from_edges(e, g["nv"])
    return Tree.init_from_edges(e, g["nv"], root_vertex=0)


def build_gmrf_data(case):
    n = case["n0"] + sum(case["incs"])
    nfeat = len(case["s"])
    rs = np.random.RandomState(case["seed"])
    z = rs.randn(n, nfeat)
    z = z - z.mean(axis=0)[None, :]
    q, _ = np.linalg.qr(z)  # n x nfeat, orthonormal columns orthogonal to ones
    w, _ = np.linalg.qr(rs.randn(nfeat, nfeat))
    x = np.sqrt(n - 1.0) * (q * np.asarray(case["s"], dtype=float)[None, :]).dot(w.T)
    return np.ascontiguousarray(x + np.asarray(case["mean"], dtype=float)[None, :])


def _cov(a, bias):
    n = a.shape[0]
    c = a - (a.sum(axis=0) / n)[None, :]
    return c.T.dot(c) / (n if bias == 1 else n - 1.0)


def ref_precision(x, nv, edges, f, mode, bias):
    """Independent float64 reference: sum of inverted block covariances scattered to block positions."""
    p = np.zeros((nv * f, nv * f))
    if not edges:
        for v in range(nv):
            sl = slice(v * f, (v + 1) * f)
            p[sl, sl] = np.linalg.inv(_cov(x[:, sl], bias))
        return p
    for a, b in edges:
        sa = slice(a * f, (a + 1) * f)
        sb = slice(b * f, (b + 1) * f)
        if mode == "concatenation":
            k = np.linalg.inv(_cov(np.hstack([x[:, sa], x[:, sb]]), bias))
            p[sa, sa] += k[:f, :f]
            p[sb, sb] += k[f:, f:]
            p[sa, sb] += k[:f, f:]
            p[sb, sa] += k[f:, :f]
        else:
            k = np.linalg.inv(_cov(x[:, sa] - x[:, sb], bias))
            p[sa, sa] += k
            p[sb, sb] += k
            p[sa, sb] -= k
            p[sb, sa] -= k
    return p


def _dense(p, sparse, ctx, what):
    if sparse:
        if not ctx.expect(hasattr(p, "toarray"), "gmrf.storage.sparse_flag_ignored", "%s precision is %s" % (what, type(p).__name__)):
            return np.asarray(p, dtype=float)
        return np.asarray(p.toarray(), dtype=float)
    ctx.expect(isinstance(p, np.ndarray), "gmrf.storage.dense_flag_ignored", "%s precision is %s" % (what, type(p).__name__))
    return np.asarray(p, dtype=float)


def c_gmrf(case, ctx):
    g = case["graph"]
    f, mode, sparse, bias = case["f"], case["mode"], case["sparse"], case["bias"]
    incs = case["incs"]
    x = build_gmrf_data(case)
    n = x.shape[0]
    graph = build_graph(g)
    has_edges = len(g["edges"]) > 0
    deg = np.zeros(g["nv"], dtype=int)
    for a, b in g["edges"]:
        deg[a] += 1
        deg[b] += 1
    ctx.event("graph=%s" % g["kind"])
    ctx.event("cls=%s" % g["cls"])
    ctx.event("mode=%s sparse=%s bias=%d" % (mode if has_edges else "-", sparse, bias))
    ctx.event("f=%d" % f)
    if has_edges and bool(np.any(deg == 0)):
        ctx.event("edge+isolated_vertex")
    unequal = len(incs) >= 2 and len(set(incs)) > 1
    ctx.event("increments=%d" % len(incs))
    ctx.nontrivial(unequal or 1 in incs)

    edges_idx = np.cumsum([0, case["n0"]] + list(incs))
    chunks = [x[edges_idx[i] : edges_idx[i + 1]] for i in range(len(incs) + 1)]
    kw = dict(mode=mode, sparse=sparse, bias=bias, dtype=np.float64)
    obj = case.get("model", "vector") == "object"
    ctx.event("model=%s" % ("GMRFModel" if obj else "GMRFVectorModel"))
    as_samples = (lambda a: [PointCloud(r.reshape(g["nv"], f).copy()) for r in a]) if obj else (lambda a: a.copy())
    cls = GMRFModel if obj else GMRFVectorModel
    inc = cls(as_samples(chunks[0]), graph, incremental=True, **kw)
    seen = chunks[0].shape[0]
    for c in chunks[1:]:
        inc.increment(as_samples(c))
        seen += c.shape[0]
        ctx.expect(inc.n_samples == seen, "gmrf.n_samples", "after %d samples n_samples=%r" % (seen, inc.n_samples))
        mv = np.asarray(inc.mean_vector, dtype=float)
        want = x[:seen].sum(axis=0) / seen
        ctx.expect(close(mv, want, atol=1e-10 * 20), "gmrf.mean_after_increment", lambda: describe(mv, want))
    batch = cls(as_samples(np.vstack(chunks)), build_graph(g), incremental=False, **kw)

    ctx.expect(inc.n_samples == batch.n_samples == n, "gmrf.n_samples", "%r vs batch %r (N=%d)" % (inc.n_samples, batch.n_samples, n))
    ctx.expect(
        close(inc.mean_vector, batch.mean_vector, atol=1e-10 * 20),
        "gmrf.mean_vs_batch",
        lambda: describe(inc.mean_vector, batch.mean_vector),
    )
    ctx.expect(
        close(np.asarray(inc.mean().as_vector() if obj else inc.mean()), x.sum(axis=0) / n, atol=1e-10 * 20),
        "gmrf.mean_vs_reference",
        lambda: describe(inc.mean().as_vector() if obj else inc.mean(), x.sum(axis=0) / n),
    )
    pi = _dense(inc.precision, sparse, ctx, "incremental")
    pb = _dense(batch.precision, sparse, ctx, "batch")
    ref = ref_precision(x, g["nv"], g["edges"], f, mode, bias)
    tag = ("%s.%s" % (mode, "sparse" if sparse else "dense")) if has_edges else ("edgeless.%s" % ("sparse" if sparse else "dense"))
    anti = bool(g.get("antiparallel"))
    if anti:
        # with both orientations of an edge listed, what the precision should be is defined by the batch model only
        # (the sum-over-edges reference is stated for graphs without antiparallel pairs, see C12): incremental == batch
        ctx.event("antiparallel edge pairs: incremental vs batch only")
        ref = pb
    ctx.expect(
        close(pb, ref, rtol=1e-8),
        "gmrf.batch_precision_vs_reference." + tag,
        lambda: "batch model disagrees with the reference (see C12)\n" + describe(pb, ref),
    )
    ctx.expect(
        close(pi, pb, rtol=1e-8),
        "gmrf.precision_vs_batch.%s.bias%d" % (tag, bias),
        lambda: "increments %r after %d\n%s" % (incs, case["n0"], describe(pi, pb)),
    )
    ctx.expect(
        close(pi, ref, rtol=1e-8),
        "gmrf.precision_vs_reference.%s.bias%d" % (tag, bias),
        lambda: "increments %r after %d\n%s" % (incs, case["n0"], describe(pi, ref)),
    )


CLAUSES = [
    Clause(
        "pca_compositions",
        c_pca,
        enumerate=enum_pca,
        rule="every composition of n = 4..6 (quick) / 4..8 (thorough) into initial batch >= 2 + increments, x {centred, uncentred} x {n>d, n==d, n<d} x 2 fixed data sets",
    ),
    Clause(
        "pca_random",
        c_pca,
        s_pca_random,
        quick=1500,
        thorough=20000,
        nt_floor=0.3,
        rule="n = 4..16, two drawn compositions of the same data compared with batch, reference and each other; vector and PointCloud-backed models",
    ),
    Clause(
        "gmrf",
        c_gmrf,
        s_gmrf,
        quick=2500,
        thorough=20000,
        nt_floor=0.3,
        rule="graph kind x class x features x mode x storage x bias; non-trivial: >= 2 unequal increments or an increment of one sample",
    ),
]
