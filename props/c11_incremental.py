"""C11 - incremental model updates equal the batch model on the concatenated data."""
import contextlib
import io
import itertools

import numpy as np
from hypothesis import strategies as st

from vlib.runner import Clause
from vlib import gen
from vlib import refs_pca as rp
from vlib import refs_incr as ri
from vlib.tol import close, describe, maxdiff

from menpo.image import Image
from menpo.math import pca as menpo_pca, ipca as menpo_ipca
from menpo.model import PCAModel, PCAVectorModel, GMRFVectorModel, GMRFModel
from menpo.shape import PointCloud, UndirectedGraph, DirectedGraph, Tree

PROPERTY = "C11"
RULE = (
    "PCA: data X = mean + A diag(s) B^T (well-separated spectrum, spread <= 100, mean bounded away from 0; full rank "
    "or, one case in three, of a drawn lower rank) with n = 4..16 samples on both sides of n = d, centred/uncentred; "
    "the sample sequence is cut into an initial batch >= 2 and 1..k increments - EVERY composition for n <= 6 (quick) "
    "/ n <= 8 (thorough), Hypothesis-drawn pairs of compositions for larger n. Staged PCA histories: X = offset + C B^T "
    "with small-integer coordinates C whose row i is zero beyond r_j columns in stage j (r_1 < d, r_j non-decreasing): "
    "the first stage (mostly longer than d) lies in a proper subspace (B a rotation), has stuck coordinates (B a "
    "permutation) or repeats a few samples, later stages leave that subspace. Samples are handed over as ndarray, "
    "list of rows, a longer list with n_samples=k (vector models), list of PointClouds / Images or a true generator "
    "with n_samples=k (object models); forgetting factor 1.0 spelled out or left at its documented default 1.0; "
    "verbose on/off; optionally fewer active components than components set on the initial model. "
    "ipca called directly with m_a omitted/None/zeros on uncentred data. GMRF: graphs {edgeless, chain, cycle, star, "
    "random tree, random undirected with isolated vertices} as Undirected/Directed/Tree objects with relabelled "
    "vertices, 1-3 features per vertex, concatenation/subtraction, sparse/dense, bias 0/1, float64, data with "
    "block covariances of condition <= 16 by construction, |mean| <= 10 x {1, 1e2, 1e3}, initial batch >= 2*block+2 "
    "samples, 1-4 increments, same sample containers. "
    "Non-trivial: >= 2 increments of unequal sizes or an increment of size 1 (PCA additionally: any split of "
    "centred data, whose cross term is exercised; staged PCA: a rank-deficient model that has seen more samples than "
    "dimensions receives an increment that raises its rank); distinct = distinct canonical-JSON digest of the case"
)
ASSUMPTIONS = [
    "no forgetting: forgetting factor 1.0, passed explicitly or left at the documented default of 1.0",
    "a centred model whose running mean is exactly zero is treated by ipca as uncentred; data means are bounded away from zero and the corner is skipped (event excluded:exact_zero_mean), not asserted either way",
    "cases where some prefix of the sample sequence has an eigenvalue inside the eigenvalue floor's grey zone (1e-20..1e-8 relative) are skipped (event excluded:floor_grey_zone): pca/ipca legitimately truncate there; exactly rank-deficient prefixes (round-off eigenvalues ~1e-32 relative) are NOT skipped",
    "histories in which an increment RESULTS in a model without any component (every sample so far identical / zero) are skipped (event excluded:increment_result_without_components): PCAVectorModel.increment raises ValueError there (n_active_components setter rejects 0) although the batch constructor accepts such data - reported, outside 'eigenvalues and principal subspace' in any meaningful sense; an initial batch without variance followed by informative increments IS checked",
    "PCA tolerances scale with the worst prefix conditioning kappa = lambda_max/lambda_min(non-zero) over all prefixes: rtol = max(1e-7, 1e-12*kappa) for eigenvalues and projectors, 10x that for sign-aligned components (measured ipca error <= 1e-14*kappa, also on staged rank-deficient data; kappa is not controlled by construction, only the full data's spectrum is)",
    "single (sign-aligned) components are compared only where the reference eigenvalues are separated by >= 1e-3 * lambda_max (by construction for prescribed spectra, measured for staged data); eigenvalues and the subspace projector are always compared",
    "PCA state is read through the public interface only (n_samples, mean(), mean_vector, eigenvalues, components, n_components, n_active_components)",
    "with fewer active components than components before an increment the check expects what the code documents in place: the active count is left alone, the active view shows the leading components, and the full state (re-activated through the public setter) equals the batch model",
    "n_samples=k with a longer list means 'the first k entries' (vector models slice, as the constructor does); generators are only given to the Vectorizable-backed models, with n_samples equal to the number of items they yield",
    "PCA references: batch constructor on np.vstack(chunks) AND numpy SVD of the centred concatenated matrix",
    "GMRF references: batch GMRFVectorModel on np.vstack(chunks) AND a float64 sum of inverted per-edge (per-vertex when edgeless) sample covariances scattered to block positions",
    "GMRF bulk data come from numpy RandomState(drawn seed), orthonormalised so that the covariance of the concatenated data is W diag(s^2) W^T with drawn s in [0.5, 2]",
    "GMRF incremental precision tolerance: rtol = max(1e-8, 2e2 * eps * (|mean|_max / s_min)^2) - the running covariance update subtracts second moments (measured error <= 4 * eps * ratio^2 over 6000 cases); mean scales above 1e3 are not asserted",
    "only the final model (after the last increment) is compared; prefixes have uncontrolled conditioning",
]


# ==============================================================================================
# PCA


def compositions(total, min_first=2):
    """All ways of writing total = n0 + n1 + ... + nk, n0 >= min_first, k >= 1, ni >= 1."""
    out = []
    for n0 in range(min_first, total):
        rem = total - n0
        for bits in itertools.product([0, 1], repeat=rem - 1):
            parts, cur = [], 1
            for b in bits:
                if b:
                    parts.append(cur)
                    cur = 1
                else:
                    cur += 1
            parts.append(cur)
            out.append([n0] + parts)
    return out


_ENUM_CACHE = {}

VECTOR_FEEDS = ["array", "list", "list_n", "list_n_exact"]
OBJECT_FEEDS = ["list", "gen_n"]


def enum_pca(tier):
    if tier in _ENUM_CACHE:
        return _ENUM_CACHE[tier]
    n_max = 6 if tier == "quick" else 8
    n_data = 2
    cases = []
    for n in range(4, n_max + 1):
        comps = compositions(n)
        for centre in (True, False):
            for side, d in (("n>d", 3), ("n==d", n), ("n<d", n + 2)):
                for k in range(n_data):
                    rs = np.random.RandomState(1000 * n + 100 * int(centre) + 10 * d + k)
                    data = rp.seeded_data_case(rs, n, d, centre)
                    for ci, comp in enumerate(comps):
                        cases.append(
                            {
                                "data": data,
                                "splits": [comp],
                                "kind": "vector",
                                "side": side,
                                # how the samples are handed over / whether the forgetting factor is spelled out
                                # alternates deterministically over the enumeration
                                "feed": [VECTOR_FEEDS[(ci + k) % 3]],
                                "ff_default": [bool((ci + k) % 2)],
                            }
                        )
    _ENUM_CACHE[tier] = cases
    return cases


@st.composite
def split_case(draw, n):
    n0 = draw(st.integers(2, n - 1))
    rem = n - n0
    bits = draw(st.lists(st.booleans(), min_size=rem - 1, max_size=rem - 1))
    parts, cur = [], 1
    for b in bits:
        if b and len(parts) < 5:
            parts.append(cur)
            cur = 1
        else:
            cur += 1
    parts.append(cur)
    return [n0] + parts


@st.composite
def run_options(draw, kind, n_splits=2):
    """How each history is fed to the model (plain data, one entry per split)."""
    feeds = VECTOR_FEEDS if kind == "vector" else OBJECT_FEEDS
    return {
        # ndarray / list of rows / longer list + n_samples=k / true generator + n_samples=k
        "feed": [draw(st.sampled_from(feeds)) for _ in range(n_splits)],
        # forgetting_factor left at its default (documented: 1.0 = no forgetting) or spelled out
        "ff_default": [draw(st.booleans()) for _ in range(n_splits)],
        # verbose=True only prints
        "verbose": [draw(st.sampled_from([False, False, False, True])) for _ in range(n_splits)],
        # 0: all components active; a > 0: the initial model gets n_active_components = 1 + (a-1) % (n_components-1)
        "active": [draw(st.sampled_from([0, 0, 0, 1, 2, 3, 5])) for _ in range(n_splits)],
    }


@st.composite
def s_pca_random_case(draw):
    kind = draw(st.sampled_from(["vector", "vector", "vector", "pointcloud", "pointcloud", "image"]))
    side = draw(st.sampled_from(["n>d", "n>d", "n==d", "n<d", "n<d"]))
    n = draw(st.integers(4, 16))
    if side == "n>d":
        d = draw(st.integers(2, n - 1))
    elif side == "n==d":
        d = n
    else:
        d = draw(st.integers(n + 1, n + 4))
    if kind == "pointcloud" and d % 2:
        d += 1
        side = "n>d" if n > d else ("n==d" if n == d else "n<d")
    centre = draw(st.booleans())
    # the whole data set may lie in a proper subspace (rank r < full rank): every long enough prefix is then rank
    # deficient, on both sides of n = d
    full = rp.full_rank(n, d, centre)
    r = None
    if full >= 2 and draw(st.integers(0, 2)) == 0:
        r = draw(st.integers(1, full - 1))
    data = draw(rp.data_case(n, d, centre, r=r, spread=100.0, s0=(1.0, 8.0), mean_gap=0.5))
    if r is not None:
        # a rank-deficient cloud far from the origin has round-off eigenvalues of (eps * |mean| / s)^2 relative, which
        # reach the excluded grey zone: rank-deficient clouds stay within |mean| <= 10
        mx = max(abs(v) for v in data["mean"])
        if mx > 10.0:
            back = 1.0e5 if mx > 1.0e4 else 1.0e3
            data["mean"] = [v / back for v in data["mean"]]
    case = {
        "data": data,
        "splits": [draw(split_case(n)), draw(split_case(n))],
        # features that are identically zero in every sample (planar 3-D shapes, background pixels): the mean then has
        # exactly-zero entries without being the zero vector. 0 or 2 extra all-zero columns inserted at drawn positions
        "zero_cols": draw(st.sampled_from([[], [], [], [0, 0], [1, 3], [2, 5]])),
        # integer-valued samples handed over as integer-typed arrays (pixel counts, quantised coordinates)
        # (not for rank-deficient clouds: fixed-point rounding turns their zero eigenvalues into ~1e-13 relative ones,
        # inside the excluded grey zone)
        "int_data": draw(st.sampled_from([None, None, None, "int64", "int64"])) if r is None else None,
        # the unit of the data is arbitrary: the same cloud in micro-units (x 2^-20) or mega-units (x 2^20)
        "scale_pow": draw(st.sampled_from([0, 0, 0, -20, 20])),
        "kind": kind,
        "side": side,
    }
    case.update(draw(run_options(kind)))
    return case


def s_pca_random():
    return s_pca_random_case()


@st.composite
def s_pca_staged_case(draw):
    """Histories whose rank grows: a long, rank-deficient start followed by samples that leave its subspace."""
    kind = draw(st.sampled_from(["vector", "vector", "vector", "pointcloud", "image"]))
    centre = draw(st.booleans())
    data = draw(ri.staged_case(centre, even_d=(kind == "pointcloud")))
    n, d = data["n"], data["d"]
    # first history: the initial batch is exactly stage 1, later stages are cut further at drawn places;
    # second history: any composition
    bounds = ri.stage_bounds(data)
    aligned = [bounds[0]]
    for a, b in zip(bounds[:-1], bounds[1:]):
        ln = b - a
        if ln >= 2 and draw(st.booleans()):
            c = draw(st.integers(1, ln - 1))
            aligned += [c, ln - c]
        else:
            aligned.append(ln)
    case = {
        "data": data,
        "splits": [aligned, draw(split_case(n))],
        "zero_cols": draw(st.sampled_from([[], [], [], [0, 0], [1, 3]])) if kind == "vector" else [],
        # (fixed-point rounding would push a rotated subspace's zero eigenvalues into the excluded grey zone: integer
        # samples only where the deficiency is exact, i.e. stuck coordinates)
        "int_data": draw(st.sampled_from([None, None, "int64"])) if data["family"] == "stuck" else None,
        "scale_pow": draw(st.sampled_from([0, 0, 0, -20, 20])),
        "kind": kind,
        "side": "n>d" if n > d else ("n==d" if n == d else "n<d"),
    }
    case.update(draw(run_options(kind)))
    return case


def s_pca_staged():
    return s_pca_staged_case()


def _grey(eigs):
    eigs = np.asarray(eigs, dtype=float)
    if eigs.size == 0:
        return False
    top = float(eigs.max())
    if top <= 0:
        return False
    rel = eigs / top
    # relative to the largest eigenvalue only: the floor of the code under test is relative, and the unit of the data
    # is arbitrary (an absolute window would exclude every micro-unit data set)
    return bool(np.any((rel > 1e-20) & (rel < 1e-8)))


def _template(kind, d):
    if kind == "pointcloud":
        return PointCloud(np.zeros((d // 2, 2)))
    if kind == "image":
        c = 3 if d % 3 == 0 else (2 if d % 2 == 0 else 1)
        rest = d // c
        h = max(k for k in range(1, rest + 1) if rest % k == 0 and k * k <= rest)
        return Image(np.zeros((c, h, rest // h)))
    return None


def _samples(rows, mode, tmpl, cast):
    """The samples of one chunk in the requested form: (samples, keyword arguments)."""
    k = rows.shape[0]
    if tmpl is None:
        if mode == "array":
            return cast(rows), {}
        if mode == "list":
            return [cast(r) for r in rows], {}
        if mode == "list_n_exact":
            return [cast(r) for r in rows], {"n_samples": k}
        if mode == "list_n":
            # a longer list with n_samples=k: only the first k entries are samples
            return [cast(r) for r in np.vstack([rows, ri.decoy_rows(rows)])], {"n_samples": k}
        raise ValueError("unknown feed %r" % (mode,))
    if mode == "list":
        return [tmpl.from_vector(r.copy()) for r in rows], {}
    if mode == "gen_n":
        return (tmpl.from_vector(r.copy()) for r in rows), {"n_samples": k}
    raise ValueError("unknown feed %r" % (mode,))


@contextlib.contextmanager
def _quiet(active):
    if active:
        with contextlib.redirect_stdout(io.StringIO()):
            yield
    else:
        yield


def _run_incremental(kind, x, centre, split, int_dtype=None, feed=None, ff_default=False, verbose=False, active=0):
    """Builds the initial model on the first chunk and feeds the remaining chunks.

    Returns (model, chunks, zero_mean_corner, k_active) - k_active is the number of active components requested on the
    initial model through the public setter (None: left alone)."""
    edges = np.cumsum([0] + list(split))
    chunks = [x[edges[i] : edges[i + 1]] for i in range(len(split))]
    as_given = (lambda a: a.astype(int_dtype)) if (int_dtype and kind == "vector") else (lambda a: a.copy())
    tmpl = _template(kind, x.shape[1])
    if feed is None:
        feed = "array" if kind == "vector" else "list"
    # (the constructor centres its argument in place by default, which needs a float array: only the increments
    # are handed over integer-typed)
    first, kw = _samples(chunks[0], feed, tmpl, lambda a: a.copy())
    with _quiet(verbose):
        if kind == "vector":
            m = PCAVectorModel(first, centre=centre, **kw)
        else:
            m = PCAModel(first, centre=centre, verbose=bool(verbose), **kw)
    k_active = None
    if active and m.n_components >= 2:
        k_active = 1 + (int(active) - 1) % (m.n_components - 1)
        m.n_active_components = k_active
    # the excluded corner (a centred model whose running mean is EXACTLY the zero vector) is decided from the data,
    # never from the state of the model under test
    seen = chunks[0]
    zero_mean_corner = centre and bool(np.all(seen.mean(axis=0) == 0))
    for c in chunks[1:]:
        samples, kw = _samples(c, feed, tmpl, as_given)
        if not ff_default:
            kw["forgetting_factor"] = 1.0
        if verbose:
            kw["verbose"] = True
        with _quiet(verbose):
            m.increment(samples, **kw)
        seen = np.vstack([seen, c])
        if centre and bool(np.all(seen.mean(axis=0) == 0)):
            zero_mean_corner = True
    return m, chunks, zero_mean_corner, k_active


def _summary(m):
    """State of a model as seen through its public interface (all components active)."""
    mean = m.mean()
    if not isinstance(mean, np.ndarray):
        mean = mean.as_vector()
    return {
        "n_samples": int(m.n_samples),
        "mean": np.array(mean, dtype=float, copy=True),
        "eigs": np.array(m.eigenvalues, dtype=float, copy=True),
        "comps": np.array(m.components, dtype=float, copy=True),
    }


def _cmp_pca(ctx, got, want_n, want_mean, want_eigs, want_comps, prefix, sc, tol=1e-7, single=True):
    """got: summary of the incremental model; want_*: batch model or reference.

    single=False: some eigenvalues nearly coincide, single eigenvectors are not compared (the subspace still is)."""
    ok = True
    ok &= ctx.expect(got["n_samples"] == want_n, prefix + ".n_samples", "%r vs %r" % (got["n_samples"], want_n))
    ok &= ctx.expect(
        close(got["mean"], want_mean, atol=1e-9 * sc),
        prefix + ".mean",
        lambda: describe(got["mean"], want_mean),
    )
    k = want_eigs.shape[0]
    if not ctx.expect(
        got["eigs"].shape == (k,) and got["comps"].shape == want_comps.shape,
        prefix + ".component_count",
        "incremental has %r eigenvalues / components %r, expected %d" % (got["eigs"].shape, got["comps"].shape, k),
    ):
        return False
    lmax = float(want_eigs[0]) if k else 1.0
    ok &= ctx.expect(
        bool(np.all(np.abs(got["eigs"] - want_eigs) <= tol * want_eigs + 1e-12 * lmax)),
        prefix + ".eigenvalues",
        lambda: describe(got["eigs"], want_eigs),
    )
    dp = maxdiff(rp.projector(got["comps"]), rp.projector(want_comps))
    ok &= ctx.expect(dp <= tol, prefix + ".subspace", lambda: "projector difference %.3e" % dp)
    if single:
        dv = rp.sign_aligned_diff(got["comps"], want_comps)
        ok &= ctx.expect(
            dv <= 10 * tol,
            prefix + ".components",
            lambda: "max sign-aligned component difference %.3e" % dv,
        )
    return ok


def _prefix_analysis(ctx, x, centre, splits):
    """Reference spectra of every prefix a history passes through.

    Returns None when the case is excluded, else (kappa, ranks) with kappa = worst conditioning (lambda_max / smallest
    numerically non-zero lambda) over all prefixes and ranks[e] = numerical rank of the first e samples."""
    kappa = 1.0
    ranks = {}
    for split in splits:
        for i, e in enumerate(np.cumsum(split)):
            e = int(e)
            _, pe, _ = rp.ref_pca(x[:e], centre)
            # (decided on the samples themselves: the mean of three identical rows need not be that row exactly)
            flat = bool(np.all(x[:e] == x[0][None, :])) if centre else not np.any(x[:e])
            if flat or float(pe.max()) <= 0:
                # every sample so far is the same vector (centred) / the zero vector (uncentred): a model without any
                # component.  As an initial batch that is a legitimate start; as the RESULT of an increment it is the
                # fully degenerate corner (no component before, none after), left out
                if i > 0:
                    ctx.event("excluded:increment_result_without_components")
                    return None
                ctx.event("initial batch without variance")
                ranks[e] = 0
                continue
            if _grey(pe):
                ctx.event("excluded:floor_grey_zone")
                return None
            pos = pe[pe > 1e-20 * pe.max()]
            kappa = max(kappa, float(pe.max() / pos.min()))
            ranks[e] = ri.numeric_rank(pe)
    return kappa, ranks


def c_pca(case, ctx):
    dc = case["data"]
    staged = "stages" in dc
    x = ri.build_staged(dc) if staged else rp.build_data(dc)
    n, d, centre = dc["n"], dc["d"], dc["centre"]
    sp = int(case.get("scale_pow", 0))
    if sp and not case.get("int_data"):
        x = x * 2.0 ** sp  # exact in binary
        ctx.event("data unit 2^%d" % sp)
    idt = case.get("int_data")
    if idt and (float(np.abs(x).max()) > 64.0 or int(dc.get("unit_pow", 0)) != 0):
        idt = None  # far-from-origin clouds stay float (fixed point would overflow / lose the spread)
    if idt:
        # integer-valued (fixed point with 20 fractional bits: rounding perturbs the constructed spectrum by ~1e-4
        # relative, far below its separation); the reference below is computed from these very numbers
        x = np.round(x * 2.0 ** 20)
        ctx.event("integer-typed samples (%s)" % idt)
    zc = case.get("zero_cols", [])
    if zc:
        # appending all-zero feature columns changes neither the rank nor the spectrum
        for pos in sorted(zc):
            x = np.insert(x, min(pos, x.shape[1]), 0.0, axis=1)
        x = np.ascontiguousarray(x)
        d = x.shape[1]
        ctx.event("identically-zero features: %d" % len(zc))
    kind = case["kind"]
    sc = max(1.0, float(np.abs(x).max()))
    ctx.event("side=%s centre=%s" % (case["side"], centre))
    ctx.event("kind=%s" % kind)
    if staged:
        ctx.event("family=%s" % dc["family"])

    # skip cases where a prefix spectrum touches the eigenvalue floor (legitimate truncation);
    # kappa = worst conditioning (lambda_max / smallest numerically non-zero lambda) over all prefixes
    pa = _prefix_analysis(ctx, x, centre, case["splits"])
    if pa is None:
        return
    kappa, ranks = pa
    ctx.event("prefix_cond<=1e4" if kappa <= 1e4 else ("prefix_cond<=1e6" if kappa <= 1e6 else "prefix_cond>1e6"))
    # measured forward error of ipca is <= 1e-14 * kappa (components of a tiny prefix eigenvalue lose
    # orthogonality once the eigenspace saturates); tolerance is 100x that, never below the design's 1e-7
    tol = max(1e-7, 1e-12 * kappa)

    ref_mean, ref_eigs, ref_vt = rp.ref_pca(x, centre)
    # rank of the whole data set: by construction, or (staged data) read off the reference spectrum, which the grey
    # zone exclusion above keeps unambiguous
    r = ranks[n] if staged else dc["r"]
    if r < rp.full_rank(n, d - len(zc), centre):
        ctx.event("whole data set rank-deficient")
    # single eigenvectors are only defined as well as the eigenvalues are separated (by construction for the
    # prescribed spectra; measured for staged data)
    single = (not staged) or ri.min_rel_gap(ref_eigs[:r]) >= 1e-3
    if not single:
        ctx.event("nearly coinciding eigenvalues: subspace compared, single components not")
    batch = PCAVectorModel(x.copy(), centre=centre)
    sb = _summary(batch)
    # the batch model itself is C10's business; if it disagrees with the reference say so distinctly
    batch_ok = (
        sb["eigs"].shape == (r,)
        and bool(np.all(np.abs(sb["eigs"] - ref_eigs[:r]) <= 1e-7 * ref_eigs[:r]))
        and maxdiff(rp.projector(sb["comps"]), rp.projector(ref_vt[:r])) <= 1e-6
        and (not single or rp.sign_aligned_diff(sb["comps"], ref_vt[:r]) <= 1e-6)
    )
    ctx.expect(batch_ok, "pca.batch_model_vs_reference", "batch model disagrees with the SVD reference (see C10)")

    summaries = []
    for si, split in enumerate(case["splits"]):
        incs = split[1:]
        ctx.event("increments=%d" % len(incs))
        unequal = len(incs) >= 2 and len(set(incs)) > 1
        ctx.event("unequal" if unequal else ("single1" if 1 in incs else "plain"))
        feed = case["feed"][si] if "feed" in case else None
        ffd = bool(case["ff_default"][si]) if "ff_default" in case else False
        verbose = bool(case["verbose"][si]) if "verbose" in case else False
        active = int(case["active"][si]) if "active" in case else 0
        ctx.event("feed=%s" % (feed or "default"))
        ctx.event("forgetting_factor=%s" % ("default" if ffd else "1.0"))
        if verbose:
            ctx.event("verbose=True")
        # the model being incremented has seen more samples than dimensions, is nevertheless rank deficient, and the
        # increment raises the rank (new samples leave the subspace spanned so far)
        bounds = [int(e) for e in np.cumsum(split)]
        leaves = False
        for a, b in zip(bounds[:-1], bounds[1:]):
            deficient = ranks[a] < min(a - int(centre), d - len(zc))
            if deficient and ranks[b] > ranks[a]:
                ctx.event("rank-deficient model leaves its subspace (%s)" % ("n_a>d" if a > d else "n_a<=d"))
                leaves = leaves or a > d
        m, chunks, corner, k_active = _run_incremental(kind, x, centre, split, idt, feed, ffd, verbose, active)
        if corner:
            ctx.event("excluded:exact_zero_mean")
            return
        if staged:
            ctx.nontrivial(leaves)
        else:
            ctx.nontrivial(unequal or 1 in incs or centre)
        ctx.expect(
            maxdiff(np.vstack(chunks), x) == 0.0, "harness.chunks", "chunks do not concatenate to the data"
        )
        tag = "centred" if centre else "uncentred"
        if k_active is not None:
            # fewer active components than components before the increments: the increments leave that choice alone,
            # the active view shows the leading k components of the updated model, nothing of the full state is lost
            ctx.event("n_active_components < n_components before the increments")
            ctx.expect(
                m.n_active_components == k_active,
                "pca.active_components.count_changed_by_increment",
                "n_active_components set to %d before the increments, %r afterwards (n_components=%r)"
                % (k_active, m.n_active_components, m.n_components),
            )
            ka = int(m.n_active_components)
            ev, cv = np.asarray(m.eigenvalues, dtype=float), np.asarray(m.components, dtype=float)
            if ctx.expect(
                ev.shape == (ka,) and cv.shape == (ka, d),
                "pca.active_components.view_shape",
                "n_active=%r eigenvalues %r components %r" % (ka, ev.shape, cv.shape),
            ) and ka <= sb["eigs"].shape[0]:
                ctx.expect(
                    bool(np.all(np.abs(ev - sb["eigs"][:ka]) <= tol * sb["eigs"][:ka] + 1e-12 * sb["eigs"][0])),
                    "pca.active_components.eigenvalues.%s" % tag,
                    lambda: describe(ev, sb["eigs"][:ka]),
                )
            # back to all components through the public setter
            m.n_active_components = int(m.n_components)
        # the public view shows the whole state (all components active after increments)
        ev, cv = np.asarray(m.eigenvalues), np.asarray(m.components)
        ctx.expect(
            m.n_components == m.n_active_components == ev.shape[0] == cv.shape[0],
            "pca.counts_consistent",
            "n_components=%r n_active=%r eigenvalues=%r components=%r"
            % (m.n_components, m.n_active_components, ev.shape, cv.shape),
        )
        s = _summary(m)
        if kind != "vector":
            mv = np.asarray(m.mean_vector, dtype=float)
            ctx.expect(
                mv.shape == s["mean"].shape and bool(np.array_equal(mv, s["mean"])),
                "pca.mean_vector_vs_mean",
                lambda: describe(mv, s["mean"]),
            )
        summaries.append(s)
        _cmp_pca(ctx, s, n, sb["mean"], sb["eigs"], sb["comps"], "pca.vs_batch.%s" % tag, sc, tol, single)
        _cmp_pca(ctx, s, n, ref_mean, ref_eigs[:r], ref_vt[:r], "pca.vs_reference.%s" % tag, sc, tol, single)
    if len(summaries) == 2:
        a, b = summaries
        _cmp_pca(ctx, a, b["n_samples"], b["mean"], b["eigs"], b["comps"], "pca.chunking_dependence", sc, tol, single)


# ----------------------------------------------------------------------------------------------
# ipca called directly without a mean (m_a=None): uncentred update


@st.composite
def s_ipca_case(draw):
    side = draw(st.sampled_from(["n>d", "n>d", "n==d", "n<d"]))
    n = draw(st.integers(4, 12))
    if side == "n>d":
        d = draw(st.integers(2, n - 1))
    elif side == "n==d":
        d = n
    else:
        d = draw(st.integers(n + 1, n + 4))
    full = rp.full_rank(n, d, False)
    r = None
    if full >= 2 and draw(st.integers(0, 3)) == 0:
        r = draw(st.integers(1, full - 1))
    return {
        "data": draw(rp.data_case(n, d, False, r=r, spread=100.0, s0=(1.0, 8.0))),
        "split": draw(split_case(n)),
        # the mean argument: left out, None, or a vector of zeros (all documented as "do not centre")
        "m_a": draw(st.sampled_from(["none", "omitted", "none", "zeros"])),
        "f": draw(st.sampled_from(["omitted", "1.0"])),
        "side": side,
    }


def s_ipca():
    return s_ipca_case()


def c_ipca(case, ctx):
    dc = case["data"]
    x = rp.build_data(dc)
    n, d, r = dc["n"], dc["d"], dc["r"]
    split = case["split"]
    ctx.event("side=%s" % case["side"])
    ctx.event("m_a=%s f=%s" % (case["m_a"], case["f"]))
    pa = _prefix_analysis(ctx, x, False, [split])
    if pa is None:
        return
    kappa, _ = pa
    tol = max(1e-7, 1e-12 * kappa)
    sc = max(1.0, float(np.abs(x).max()))
    incs = split[1:]
    unequal = len(incs) >= 2 and len(set(incs)) > 1
    ctx.nontrivial(unequal or 1 in incs or len(incs) >= 2)
    edges = np.cumsum([0] + list(split))
    chunks = [x[edges[i] : edges[i + 1]] for i in range(len(split))]
    u, l, _ = menpo_pca(chunks[0].copy(), centre=False)
    n_a = chunks[0].shape[0]
    m = None
    for c in chunks[1:]:
        kw = {}
        if case["m_a"] == "none":
            kw["m_a"] = None
        elif case["m_a"] == "zeros":
            kw["m_a"] = np.zeros(d)
        if case["f"] == "1.0":
            kw["f"] = 1.0
        u, l, m = menpo_ipca(c.copy(), u, l, n_a, **kw)
        n_a += c.shape[0]
        if not ctx.expect(
            isinstance(m, np.ndarray) and m.shape == (d,) and not np.any(m != 0),
            "ipca.uncentred.returned_mean_not_zero_vector",
            lambda: "returned mean %r" % (m,),
        ):
            return
    got = {"n_samples": n_a, "mean": np.asarray(m, dtype=float), "eigs": np.asarray(l, float), "comps": np.asarray(u, float)}
    ref_mean, ref_eigs, ref_vt = rp.ref_pca(x, False)
    bu, bl, bm = menpo_pca(x.copy(), centre=False)
    _cmp_pca(ctx, got, n, np.asarray(bm, float), np.asarray(bl, float), np.asarray(bu, float), "ipca.uncentred.vs_batch_pca", sc, tol)
    _cmp_pca(ctx, got, n, ref_mean, ref_eigs[:r], ref_vt[:r], "ipca.uncentred.vs_reference", sc, tol)


# ==============================================================================================
# GMRF

GRAPH_KINDS = ["edgeless", "chain", "cycle", "star", "tree", "isolated", "isolated"]


@st.composite
def graph_case(draw):
    kind = draw(st.sampled_from(GRAPH_KINDS))
    if kind == "edgeless":
        nv = draw(st.integers(1, 6))
        edges = []
    elif kind == "chain":
        nv = draw(st.integers(2, 6))
        edges = [[i, i + 1] for i in range(nv - 1)]
    elif kind == "cycle":
        nv = draw(st.integers(3, 6))
        edges = [[i, (i + 1) % nv] for i in range(nv)]
    elif kind == "star":
        nv = draw(st.integers(3, 6))
        edges = [[0, i] for i in range(1, nv)]
    elif kind == "tree":
        nv = draw(st.integers(2, 7))
        edges = [[draw(st.integers(0, k - 1)), k] for k in range(1, nv)]
    else:
        nv = draw(st.integers(3, 7))
        n_iso = draw(st.integers(1, nv - 2))
        live = nv - n_iso
        pairs = [[i, j] for i in range(live) for j in range(i + 1, live)]
        bits = draw(st.lists(st.booleans(), min_size=len(pairs), max_size=len(pairs)))
        forced = draw(st.integers(0, len(pairs) - 1))
        edges = [p for k, p in enumerate(pairs) if bits[k] or k == forced]
    is_tree_shaped = kind in ("chain", "star", "tree")
    cls = draw(st.sampled_from(["undirected", "undirected", "directed"] + (["tree"] if is_tree_shaped else [])))
    if kind == "edgeless":
        cls = draw(st.sampled_from(["undirected", "directed"]))
    if cls == "tree":
        perm = list(range(nv))
    else:
        perm = draw(st.permutations(list(range(nv))))
    edges = [[perm[a], perm[b]] for a, b in edges]
    if cls == "directed":
        flips = draw(st.lists(st.booleans(), min_size=len(edges), max_size=len(edges)))
        edges = [[b, a] if f else [a, b] for (a, b), f in zip(edges, flips)]
    anti = False
    if cls == "directed" and edges and draw(st.integers(0, 3)) == 0:
        # a directed graph that lists both orientations of some edges (e.g. a chain given with symmetric edges, a
        # directed 2-cycle): the batch model defines the precision there, the incremental one has to agree with it
        dup = draw(st.lists(st.booleans(), min_size=len(edges), max_size=len(edges)))
        dup[draw(st.integers(0, len(edges) - 1))] = True
        edges = edges + [[b, a] for (a, b), f in zip(edges, dup) if f]
        anti = True
    if cls != "tree":
        order = draw(st.permutations(list(range(len(edges)))))
        edges = [edges[i] for i in order]
    return {"kind": kind, "nv": nv, "edges": edges, "cls": cls, "antiparallel": anti}


@st.composite
def s_gmrf_case(draw):
    g = draw(graph_case())
    f = draw(st.integers(1, 3))
    mode = draw(st.sampled_from(["concatenation", "subtraction"]))
    nfeat = g["nv"] * f
    block = f if (not g["edges"] or mode == "subtraction") else 2 * f
    n0 = max(2 * block + 2, nfeat + 1) + draw(st.integers(0, 4))
    incs = draw(st.lists(st.integers(1, 4), min_size=1, max_size=4))
    model = draw(st.sampled_from(["vector", "vector", "object"]))
    return {
        "graph": g,
        "f": f,
        "mode": mode,
        "sparse": draw(st.booleans()),
        "bias": draw(st.sampled_from([0, 1])),
        "n0": n0,
        "incs": incs,
        "seed": draw(st.integers(0, 2**31 - 1)),
        "s": draw(st.lists(gen.q(0.5, 2.0), min_size=nfeat, max_size=nfeat)),
        "mean": draw(gen.vec(nfeat, -10, 10)),
        # vector-backed GMRFVectorModel or the PointCloud-backed GMRFModel (vertices = points, features = dims)
        "model": model,
        # the cloud may sit far from the origin compared with its spread (|mean| / sigma up to 2e4): the running
        # covariance update subtracts large second moments there
        "mean_scale": draw(st.sampled_from([1, 1, 1, 100, 100, 1000])),
        # ndarray / list of rows / longer list + n_samples=k (vector model); list / true generator + n_samples=k (object model)
        "feed": draw(st.sampled_from(VECTOR_FEEDS if model == "vector" else OBJECT_FEEDS)),
        "verbose": draw(st.sampled_from([False, False, False, True])),
    }


def s_gmrf():
    return s_gmrf_case()


def build_graph(g):
    e = np.array(g["edges"], dtype=int).reshape(-1, 2)
    if g["cls"] == "undirected":
        return UndirectedGraph.init_from_edges(e, g["nv"])
    if g["cls"] == "directed":
        return DirectedGraph.init_from_edges(e, g["nv"])
    return Tree.init_from_edges(e, g["nv"], root_vertex=0)


def build_gmrf_data(case):
    n = case["n0"] + sum(case["incs"])
    nfeat = len(case["s"])
    rs = np.random.RandomState(case["seed"])
    z = rs.randn(n, nfeat)
    z = z - z.mean(axis=0)[None, :]
    q, _ = np.linalg.qr(z)  # n x nfeat, orthonormal columns orthogonal to ones
    w, _ = np.linalg.qr(rs.randn(nfeat, nfeat))
    x = np.sqrt(n - 1.0) * (q * np.asarray(case["s"], dtype=float)[None, :]).dot(w.T)
    mean = np.asarray(case["mean"], dtype=float) * float(case.get("mean_scale", 1))
    return np.ascontiguousarray(x + mean[None, :])


def _cov(a, bias):
    n = a.shape[0]
    c = a - (a.sum(axis=0) / n)[None, :]
    return c.T.dot(c) / (n if bias == 1 else n - 1.0)


def ref_precision(x, nv, edges, f, mode, bias):
    """Independent float64 reference: sum of inverted block covariances scattered to block positions."""
    p = np.zeros((nv * f, nv * f))
    if not edges:
        for v in range(nv):
            sl = slice(v * f, (v + 1) * f)
            p[sl, sl] = np.linalg.inv(_cov(x[:, sl], bias))
        return p
    for a, b in edges:
        sa = slice(a * f, (a + 1) * f)
        sb = slice(b * f, (b + 1) * f)
        if mode == "concatenation":
            k = np.linalg.inv(_cov(np.hstack([x[:, sa], x[:, sb]]), bias))
            p[sa, sa] += k[:f, :f]
            p[sb, sb] += k[f:, f:]
            p[sa, sb] += k[:f, f:]
            p[sb, sa] += k[f:, :f]
        else:
            k = np.linalg.inv(_cov(x[:, sa] - x[:, sb], bias))
            p[sa, sa] += k
            p[sb, sb] += k
            p[sa, sb] -= k
            p[sb, sa] -= k
    return p


def _dense(p, sparse, ctx, what):
    if sparse:
        if not ctx.expect(hasattr(p, "toarray"), "gmrf.storage.sparse_flag_ignored", "%s precision is %s" % (what, type(p).__name__)):
            return np.asarray(p, dtype=float)
        return np.asarray(p.toarray(), dtype=float)
    ctx.expect(isinstance(p, np.ndarray), "gmrf.storage.dense_flag_ignored", "%s precision is %s" % (what, type(p).__name__))
    return np.asarray(p, dtype=float)


def c_gmrf(case, ctx):
    g = case["graph"]
    f, mode, sparse, bias = case["f"], case["mode"], case["sparse"], case["bias"]
    incs = case["incs"]
    x = build_gmrf_data(case)
    n = x.shape[0]
    graph = build_graph(g)
    has_edges = len(g["edges"]) > 0
    deg = np.zeros(g["nv"], dtype=int)
    for a, b in g["edges"]:
        deg[a] += 1
        deg[b] += 1
    ctx.event("graph=%s" % g["kind"])
    ctx.event("cls=%s" % g["cls"])
    ctx.event("mode=%s sparse=%s bias=%d" % (mode if has_edges else "-", sparse, bias))
    ctx.event("f=%d" % f)
    if has_edges and bool(np.any(deg == 0)):
        ctx.event("edge+isolated_vertex")
    unequal = len(incs) >= 2 and len(set(incs)) > 1
    ctx.event("increments=%d" % len(incs))
    ctx.nontrivial(unequal or 1 in incs)

    edges_idx = np.cumsum([0, case["n0"]] + list(incs))
    chunks = [x[edges_idx[i] : edges_idx[i + 1]] for i in range(len(incs) + 1)]
    kw = dict(mode=mode, sparse=sparse, bias=bias, dtype=np.float64)
    obj = case.get("model", "vector") == "object"
    ctx.event("model=%s" % ("GMRFModel" if obj else "GMRFVectorModel"))
    tmpl = PointCloud(np.zeros((g["nv"], f))) if obj else None
    feed = case.get("feed", "list" if obj else "array")
    verbose = bool(case.get("verbose", False))
    ctx.event("feed=%s" % feed)
    if verbose:
        ctx.event("verbose=True")
    # far-from-origin data: |mean| / sigma_min decides how much the running second-moment update cancels
    mscale = float(case.get("mean_scale", 1))
    ctx.event("mean_scale=%g" % mscale)
    far = float(np.abs(np.asarray(case["mean"], dtype=float)).max()) * mscale / float(min(case["s"]))
    # measured: relative error of the incremental precision <= 4 * eps * (|mean|/sigma_min)^2 (1e-13 near the origin)
    rtol_inc = max(1e-8, 2e2 * np.finfo(float).eps * far**2)
    matol = 2e-9 * mscale
    cls = GMRFModel if obj else GMRFVectorModel
    first, fkw = _samples(chunks[0], feed, tmpl, lambda a: a.copy())
    with _quiet(verbose):
        inc = cls(first, graph, incremental=True, verbose=verbose, **dict(kw, **fkw))
    seen = chunks[0].shape[0]
    ctx.expect(inc.n_samples == seen, "gmrf.n_samples", "initial batch of %d samples: n_samples=%r" % (seen, inc.n_samples))
    for c in chunks[1:]:
        samples, ikw = _samples(c, feed, tmpl, lambda a: a.copy())
        if verbose:
            ikw["verbose"] = True
        with _quiet(verbose):
            inc.increment(samples, **ikw)
        seen += c.shape[0]
        ctx.expect(inc.n_samples == seen, "gmrf.n_samples", "after %d samples n_samples=%r" % (seen, inc.n_samples))
        mv = np.asarray(inc.mean_vector, dtype=float)
        want = x[:seen].sum(axis=0) / seen
        ctx.expect(close(mv, want, atol=matol, rtol=0.0), "gmrf.mean_after_increment", lambda: describe(mv, want))
    as_samples = (lambda a: [tmpl.from_vector(r.copy()) for r in a]) if obj else (lambda a: a.copy())
    batch = cls(as_samples(np.vstack(chunks)), build_graph(g), incremental=False, **kw)

    ctx.expect(inc.n_samples == batch.n_samples == n, "gmrf.n_samples", "%r vs batch %r (N=%d)" % (inc.n_samples, batch.n_samples, n))
    ctx.expect(
        close(inc.mean_vector, batch.mean_vector, atol=matol, rtol=0.0),
        "gmrf.mean_vs_batch",
        lambda: describe(inc.mean_vector, batch.mean_vector),
    )
    ctx.expect(
        close(np.asarray(inc.mean().as_vector() if obj else inc.mean()), x.sum(axis=0) / n, atol=matol, rtol=0.0),
        "gmrf.mean_vs_reference",
        lambda: describe(inc.mean().as_vector() if obj else inc.mean(), x.sum(axis=0) / n),
    )
    pi = _dense(inc.precision, sparse, ctx, "incremental")
    pb = _dense(batch.precision, sparse, ctx, "batch")
    ref = ref_precision(x, g["nv"], g["edges"], f, mode, bias)
    tag = ("%s.%s" % (mode, "sparse" if sparse else "dense")) if has_edges else ("edgeless.%s" % ("sparse" if sparse else "dense"))
    anti = bool(g.get("antiparallel"))
    if anti:
        # with both orientations of an edge listed, what the precision should be is defined by the batch model only
        # (the sum-over-edges reference is stated for graphs without antiparallel pairs, see C12): incremental == batch
        ctx.event("antiparallel edge pairs: incremental vs batch only")
        ref = pb
    ctx.expect(
        close(pb, ref, rtol=1e-8),
        "gmrf.batch_precision_vs_reference." + tag,
        lambda: "batch model disagrees with the reference (see C12)\n" + describe(pb, ref),
    )
    ctx.expect(
        close(pi, pb, rtol=rtol_inc),
        "gmrf.precision_vs_batch.%s.bias%d" % (tag, bias),
        lambda: "increments %r after %d\n%s" % (incs, case["n0"], describe(pi, pb)),
    )
    ctx.expect(
        close(pi, ref, rtol=rtol_inc),
        "gmrf.precision_vs_reference.%s.bias%d" % (tag, bias),
        lambda: "increments %r after %d\n%s" % (incs, case["n0"], describe(pi, ref)),
    )


CLAUSES = [
    Clause(
        "pca_compositions",
        c_pca,
        enumerate=enum_pca,
        rule="every composition of n = 4..6 (quick) / 4..8 (thorough) into initial batch >= 2 + increments, x {centred, uncentred} x {n>d, n==d, n<d} x 2 fixed data sets; samples as ndarray / list / longer list + n_samples, forgetting factor spelled out or defaulted, alternating over the enumeration",
    ),
    Clause(
        "pca_random",
        c_pca,
        s_pca_random,
        quick=1500,
        thorough=20000,
        nt_floor=0.3,
        rule="n = 4..16, full-rank or rank-deficient data, two drawn compositions of the same data compared with batch, reference and each other; vector, PointCloud- and Image-backed models; samples as ndarray / list / list + n_samples / generator + n_samples; default or explicit forgetting factor; verbose; fewer active components than components before the increments",
    ),
    Clause(
        "pca_rank_growth",
        c_pca,
        s_pca_staged,
        quick=1500,
        thorough=20000,
        nt_floor=0.3,
        rule="staged histories: a first stage (mostly longer than d) confined to a proper subspace - rotated subspace, stuck coordinates, repeated samples - followed by 1-3 stages that leave it; one history cut at the stage boundaries, one drawn composition; non-trivial: a model that has seen more samples than dimensions and is rank deficient receives an increment that raises the rank",
    ),
    Clause(
        "ipca_uncentred_direct",
        c_ipca,
        s_ipca,
        quick=600,
        thorough=8000,
        nt_floor=0.3,
        rule="menpo.math.ipca called directly with m_a omitted / None / zeros on uncentred data (full rank or not), chained over a drawn composition, vs menpo.math.pca(centre=False) on the concatenation and the SVD reference; non-trivial: >= 2 increments or an increment of one sample",
    ),
    Clause(
        "gmrf",
        c_gmrf,
        s_gmrf,
        quick=2500,
        thorough=20000,
        nt_floor=0.3,
        rule="graph kind x class x features x mode x storage x bias x distance from the origin x sample container; non-trivial: >= 2 unequal increments or an increment of one sample",
    ),
]
