"""C13 - crops and patches are pixel-exact and honour their boundary contract."""
import math

import numpy as np
from hypothesis import strategies as st

from vlib.runner import Clause
from vlib.tol import close, describe
from vlib.digest import digest, parameter_mutation

from menpo.image import Image, MaskedImage, BooleanImage
from menpo.image.base import ImageBoundaryError
from menpo.image.patches import extract_patches_by_sampling, extract_patches_with_slice
from menpo.image.patches import set_patches as set_patches_fn
from menpo.shape import PointCloud, PointUndirectedGraph

PROPERTY = "C13"
RULE = (
    "Hypothesis-drawn images (Image/MaskedImage/BooleanImage; 2-D..5-D for crops; 1..14 pixels per axis (<= 8 / 4 / 3 in 3-D / 4-D / 5-D); "
    "every integer width, float32/float64, bool; 1..5 channels; full-range random or position-coded pixel content from a "
    "drawn seed; masks all/random/box/single; landmark groups anywhere in and around the image). Crop requests are drawn "
    "per axis and per side as inside / on the border / outside by 1..5 / wholly outside / degenerate, integer or "
    "fractional (k/8), with constrain_to_boundary on / off / defaulted, through crop, crop_to_pointcloud, "
    "crop_to_landmarks (group named, or omitted when it is the only one), crop_to_pointcloud_proportion / "
    "crop_to_landmarks_proportion (proportion k/8, minimum on / off / defaulted) and crop_to_true_mask. Patch cases draw patch shapes 1..7 x 1..7, 1..4 centres inside, straddling "
    "and beyond every border, 0..3 offsets, order 0..5, four boundary modes, cval, both return forms and both "
    "extraction paths. Write-back passes offset and offset_index together, singly or not at all, through the methods, the "
    "around-landmarks forms and the module function. A last clause pins the bounds helpers (bounds_true / bounds_false / "
    "constrain_points_to_bounds / constrain_landmarks_to_bounds) against np.nonzero / np.clip. The path-equivalence clause runs the two "
    "paths in either order on one PointCloud / offsets object, optionally after a resampling call on them, and the write-back clause "
    "optionally starts with a resampling call on its centres; a re-use clause hands one set of argument objects (PointCloud over a copy of / "
    "directly on a float64 / float32 / int centres array, landmark group or bare array; patch_shape; sample_offsets; crop min / max) to "
    "2..4 calls drawn from every extraction, write-back and crop entry point, judging every call against the values the caller created "
    "and every argument object against its state before the call. Non-trivial: a crop request that crosses a border or is fractional; a patch set that is partly "
    "outside the image or an image whose channel count is not 3; a write-back with at least two patches, an offset or a non-square patch. "
    "Distinct = distinct canonical-JSON digest of the case."
)
ASSUMPTIONS = [
    "crop oracle: numpy basic slicing of the pixel array the image was built from (independent of menpo); equality is np.array_equal plus dtype equality (the sign of -0.0 is not compared)",
    "a crop request is 'degenerate' when ceil(max) <= floor(min) on some axis; raw max <= min with ceil(max) > floor(min) (e.g. min=4.7,max=4.5) is not generated",
    "wholly-outside requests (empty intersection) with constraining on: accepted outcomes are a refusal (ValueError family) or an empty result; a non-empty result is a failure",
    "patch reference: sample position = centre + offset - patch//2 + k per axis; order 0 takes pixel floor(pos+0.5) (positions are >= 0.05 away from rounding ties), order 1 the explicit bilinear formula",
    "positions whose nearest pixel is inside but which lie outside the pixel-centre extent [0, n-1] (by < 0.5 for order 0, < 1 for order 1) may legitimately give either the pixel or cval in constant mode: order 0 accepts both, order 1 skips them",
    "outside values are asserted for mode constant (cval), nearest (edge pixel) and, at order 0 and integer positions only, reflect (index i mod 2n mirrored: d c b a | a b c d); for wrap, and reflect at fractional positions or order >= 1, only in-image samples and the shape are asserted",
    "orders 2..5 are asserted only at integer in-image positions (an interpolating spline returns the pixel there: float images within 1e-9 (float32 1e-5) of the value scale, integer images exactly after rounding; bool output is not compared) and for shape / dtype; values between pixels are not asserted for order >= 2",
    "proportional crops: points on a k/8 grid (extra points k/128) and proportions k/8 keep boundary = proportion * range exact in binary; minimum defaults to True",
    "group=None is only used when the image carries exactly one landmark group (the documented condition)",
    "bounds_true is not called on an all-false mask nor bounds_false on an all-true one (empty extent: behaviour not stated); the deprecated constrain_landmarks_to_bounds is held to its docstring (pc.constrain_to_bounds(image.bounds()), i.e. clip to [0, shape-1]) while constrain_points_to_bounds clips to [0, shape] (exclusive crop end)",
    "cval is drawn representable in the image dtype (integer for integer images, 0/1 for bool): the two paths cast unrepresentable fill values differently and the property does not cover that",
    "order-1 results on integer images are compared within 0.5 (+1e-6) of the real-valued bilinear reference (scipy rounds to the output dtype)",
    "write-back uses interior, pairwise non-overlapping patch grids by construction; offsets for set_patches are integer",
    "re-use clause: 'unchanged' is judged on public values (the centres / offsets / patch_shape / min / max arrays element-wise with dtype, digest.parameter_mutation for the PointCloud and the image); set_patches (methods) returns a copy per its docstring, so the receiver must be unchanged too; the module function set_patches is handed a copy of the pixels; set steps use interior, pairwise disjoint patches (centres with fractional part < 1/2) and offsets within the padding; crop steps always constrain, and a degenerate / empty request is only checked for leaving its arguments alone",
    "sample_offsets are passed as ndarray (documented type); a list / tuple is refused by both paths alike (AttributeError on .shape) and is not exercised",
]

INT_DTYPES = ("uint8", "uint16", "int32", "int8", "int16", "uint32")
FLOAT_DTYPES = ("float32", "float64")
ALL_DTYPES = INT_DTYPES + FLOAT_DTYPES + ("bool",)
# crop must be bit-exact for every dtype; 64-bit integers above 2**53 do not survive a float64 detour.  (float16 is
# refused by the scipy sampler everything goes through - RuntimeError "data type not supported" - and is not generated.)
WIDE_INT_DTYPES = ("int64", "uint64")
CROP_DTYPES = ALL_DTYPES + WIDE_INT_DTYPES
LM_NAMES = ["g", "PTS", "left eye", "ü"]
PROP_VIAS = ("pointcloud_prop", "landmarks_prop")
LM_VIAS = ("landmarks", "landmarks_prop")
PC_VIAS = ("pointcloud", "landmarks") + PROP_VIAS


# =============================================================================================
# images: plain-data case -> (pixels, mask, image)


@st.composite
def s_image(draw, ndims=(2,), smin=1, smax=14, classes=("Image", "MaskedImage", "BooleanImage"),
            dtypes=ALL_DTYPES, special=False, lms=True, lm_pad=3):
    # BooleanImage is one class out of three but has a single dtype / channel count: weight it down
    cls = draw(st.sampled_from([k for k in classes for _ in range(1 if k == "BooleanImage" else 2)]))
    ndim = draw(st.sampled_from(list(ndims)))
    hi = {2: smax, 3: 8, 4: 4}.get(ndim, 3)
    shape = draw(st.lists(st.integers(smin, hi), min_size=ndim, max_size=ndim))
    c = {"cls": cls, "shape": shape, "seed": draw(st.integers(0, 2**16))}
    if cls == "BooleanImage":
        c["ch"], c["dtype"] = 1, "bool"
        c["fill"] = draw(st.sampled_from(["random", "coords"]))
    else:
        c["ch"] = draw(st.integers(1, 5))
        c["dtype"] = draw(st.sampled_from(list(dtypes)))
        fills = ["random", "random", "coords"]
        if special and c["dtype"] in FLOAT_DTYPES:
            fills.append("special")
        c["fill"] = draw(st.sampled_from(fills))
    if cls == "MaskedImage":
        c["mask"] = draw(st.sampled_from(["all", "random", "box", "single"]))
        if c["mask"] == "box":
            box = []
            for s in shape:
                a = draw(st.integers(0, s - 1))
                b = draw(st.integers(a + 1, s))
                box.append([a, b])
            c["mbox"] = box
    if lms:
        k = draw(st.integers(0, 2))
        names = draw(st.lists(st.sampled_from(LM_NAMES), min_size=k, max_size=k, unique=True))
        groups = []
        for nm in names:
            n = draw(st.integers(1, 4))
            pts = [[draw(st.integers(-lm_pad * 8, (s + lm_pad) * 8)) / 8.0 for s in shape] for _ in range(n)]
            groups.append([nm, draw(st.sampled_from(["PointCloud", "PointUndirectedGraph"])), pts])
        c["lms"] = groups
    return c


def build_pixels(c):
    rs = np.random.RandomState(c["seed"])
    shape = (c["ch"],) + tuple(c["shape"])
    n = int(np.prod(shape))
    dt = np.dtype(c["dtype"])
    if c["dtype"] == "bool":
        if c["fill"] == "coords":
            a = np.arange(n).reshape(shape)
            px = ((a * 5 + a // 3) % 3 == 0)
        else:
            px = rs.rand(*shape) > 0.5
        return px.astype(bool)
    if c["fill"] == "coords":
        a = np.arange(n, dtype=np.int64).reshape(shape)
        if dt.kind in "iu":
            px = (a * 7 + 3).astype(dt) if dt.itemsize == 8 else ((a * 7 + 3) % (int(np.iinfo(dt).max) + 1)).astype(dt)
        else:
            px = (a + 0.25).astype(dt)
        return px
    if dt.kind in "iu":
        info = np.iinfo(dt)
        if dt.itemsize == 8:
            # full range: most values are above 2**53 in magnitude (not representable in float64)
            return rs.randint(int(info.min), int(info.max), size=shape, dtype=dt)
        return rs.randint(int(info.min), int(info.max) + 1, size=shape, dtype=np.int64).astype(dt)
    px = (rs.standard_normal(shape) * 100.0).astype(dt)
    if c["fill"] == "special":
        fi = np.finfo(dt)
        vals = [np.nan, np.inf, -np.inf, -0.0, fi.max, fi.tiny, -fi.max, np.nan]
        k = max(1, n // 4)
        where = rs.randint(0, n, size=k)
        flat = px.reshape(-1)
        for j, w in enumerate(where):
            flat[w] = vals[j % len(vals)]
    return px


def build_mask(c):
    rs = np.random.RandomState(c["seed"] + 7919)
    shape = tuple(c["shape"])
    kind = c.get("mask", "all")
    if kind == "all":
        return np.ones(shape, dtype=bool)
    if kind == "random":
        m = rs.rand(*shape) > 0.4
        if not m.any():
            m[tuple(0 for _ in shape)] = True
        return m
    if kind == "single":
        m = np.zeros(shape, dtype=bool)
        m[tuple(int(rs.randint(0, s)) for s in shape)] = True
        return m
    m = np.zeros(shape, dtype=bool)
    sl = tuple(slice(a, b) for a, b in c["mbox"])
    inner = rs.rand(*[b - a for a, b in c["mbox"]]) > 0.3
    m[sl] = inner
    # pin the extents of the box: two opposite corners are true
    m[tuple(a for a, b in c["mbox"])] = True
    m[tuple(b - 1 for a, b in c["mbox"])] = True
    return m


def build_landmark(kind, pts):
    p = np.array(pts, dtype=float)
    if kind == "PointCloud":
        return PointCloud(p)
    n = p.shape[0]
    adj = np.zeros((n, n), dtype=int)
    for i in range(n - 1):
        adj[i, i + 1] = adj[i + 1, i] = 1
    return PointUndirectedGraph(p, adj)


def build(c):
    """Returns (px, mask_or_None, image). px / mask are private reference copies."""
    px = build_pixels(c)
    mask = None
    if c["cls"] == "BooleanImage":
        im = BooleanImage(px[0].copy())
    elif c["cls"] == "MaskedImage":
        mask = build_mask(c)
        im = MaskedImage(px.copy(), mask=mask.copy())
    else:
        im = Image(px.copy())
    for nm, kind, pts in c.get("lms", []):
        im.landmarks[nm] = build_landmark(kind, pts)
    return px, mask, im


def eq_exact(got, want):
    got = np.asarray(got)
    want = np.asarray(want)
    return got.shape == want.shape and got.dtype == want.dtype and bool(np.array_equal(got, want))


def short(a, b):
    a = np.asarray(a)
    b = np.asarray(b)
    if a.shape != b.shape:
        return "shape %s vs %s" % (a.shape, b.shape)
    if a.dtype != b.dtype:
        return "dtype %s vs %s" % (a.dtype, b.dtype)
    bad = np.argwhere(~((a == b) | ((a != a) & (b != b))))
    if bad.size == 0:
        return "equal"
    i = tuple(bad[0])
    return "%d differing, first at %s: got %r want %r" % (len(bad), i, a[i].tolist(), b[i].tolist())


# =============================================================================================
# clause 1 + 2: crops

AXIS_KINDS_MIXED = ["in", "in", "in", "in", "border", "lo_out", "lo_out", "hi_out", "hi_out", "both_out",
                    "whole_lo", "whole_hi", "degenerate"]


@st.composite
def s_axis_bounds(draw, s, kinds):
    kind = draw(st.sampled_from(kinds))
    if kind == "in":
        lo = draw(st.integers(0, s - 1))
        hi = draw(st.integers(lo + 1, s))
    elif kind == "border":
        lo, hi = 0, s
    elif kind == "lo_out":
        lo = draw(st.integers(-5, -1))
        hi = draw(st.integers(1, s))
    elif kind == "hi_out":
        lo = draw(st.integers(0, s - 1))
        hi = draw(st.integers(s + 1, s + 5))
    elif kind == "both_out":
        lo = draw(st.integers(-5, -1))
        hi = draw(st.integers(s + 1, s + 5))
    elif kind == "whole_lo":
        lo = draw(st.integers(-6, -2))
        hi = draw(st.integers(lo + 1, 0))
    elif kind == "whole_hi":
        lo = draw(st.integers(s, s + 4))
        hi = draw(st.integers(lo + 1, s + 6))
    else:  # degenerate
        lo = draw(st.integers(-2, s + 1))
        hi = draw(st.integers(lo - 3, lo))
    f = draw(st.sampled_from([0, 0, 0, 1, 2, 4, 6, 7]))
    g = draw(st.sampled_from([0, 0, 0, 1, 2, 4, 6, 7]))
    if kind != "degenerate" and hi - lo == 1 and f + g >= 8:
        g = 0
    # floor(lo + f/8) == lo and ceil(hi - g/8) == hi
    return [lo + f / 8.0, hi - g / 8.0]


@st.composite
def s_crop(draw, vias):
    via = draw(st.sampled_from(vias))
    classes = ("MaskedImage",) if via == "true_mask" else ("Image", "MaskedImage", "BooleanImage")
    ndims = draw(st.sampled_from([(2,), (2,), (2,), (3,), (3,), (4,), (5,), (2, 3, 4, 5)]))
    img = draw(s_image(ndims=ndims, classes=classes, special=True, dtypes=CROP_DTYPES))
    case = {"img": img, "via": via}
    case["constrain"] = draw(st.sampled_from([True, True, False, False, None]))
    case["rt"] = draw(st.booleans())
    if via == "true_mask":
        case["boundary"] = draw(st.integers(0, 3))
        return case
    mode = draw(st.sampled_from(["inside", "mixed", "mixed"]))
    kinds = ["in", "in", "border"] if mode == "inside" else AXIS_KINDS_MIXED
    b = [draw(s_axis_bounds(s, kinds)) for s in img["shape"]]
    case["min"] = [x[0] for x in b]
    case["max"] = [x[1] for x in b]
    if via == "crop":
        case["form"] = draw(st.sampled_from(["ndarray", "ndarray", "list", "tuple", "int_ndarray"]))
    else:
        if via in PROP_VIAS:
            # boundary = proportion * (smallest | largest) per-axis range of the points; k/8 keeps the product exact
            case["prop"] = draw(st.sampled_from([0.0, 0.125, 0.25, 0.5, 0.5, 1.0, 1.5]))
            case["minimum"] = draw(st.sampled_from([True, False, None]))
        else:
            case["boundary"] = draw(st.sampled_from([0, 0, 1, 2, 3]))
        if via in LM_VIAS and draw(st.booleans()):
            # the crop group is the only group on the image: the group argument is left out
            img["lms"] = []
            case["omit_group"] = True
        k = draw(st.integers(0, 3))
        case["extra"] = [[draw(st.integers(0, 15)) / 16.0 for _ in img["shape"]] for _ in range(k)]
        case["swap"] = draw(st.lists(st.booleans(), min_size=len(img["shape"]), max_size=len(img["shape"])))
    return case


def _pc_points(case):
    """Points whose bounding box is [min(a,b), max(a,b)] per axis (two corner points, corners mixed per
    axis, plus points in between)."""
    a = np.array(case["min"], dtype=float)
    b = np.array(case["max"], dtype=float)
    lo, hi = np.minimum(a, b), np.maximum(a, b)
    sw = np.array(case["swap"], dtype=bool)
    p0 = np.where(sw, hi, lo)
    p1 = np.where(sw, lo, hi)
    pts = [p0, p1]
    for t in case["extra"]:
        pts.append(lo + np.array(t) * (hi - lo))
    return np.array(pts)


def c_crop(case, ctx):
    c = case["img"]
    px, mask, im = build(c)
    shape = list(c["shape"])
    nd = len(shape)
    via = case["via"]
    before = digest(im)

    # ---- the request, computed without menpo
    if via == "crop":
        rmin = [float(x) for x in case["min"]]
        rmax = [float(x) for x in case["max"]]
    elif via in PC_VIAS:
        pts = _pc_points(case)
        if via in PROP_VIAS:
            spread = pts.max(axis=0) - pts.min(axis=0)
            # minimum defaults to True: proportion of the smallest per-axis range
            b = case["prop"] * float(spread.max() if case["minimum"] is False else spread.min())
            ctx.event("proportion minimum=%s boundary%s0" % (case["minimum"], ">" if b > 0 else "="))
        else:
            b = case["boundary"]
        rmin = [float(pts[:, a].min() - b) for a in range(nd)]
        rmax = [float(pts[:, a].max() + b) for a in range(nd)]
    else:
        idx = np.nonzero(mask)
        b = case["boundary"]
        rmin = [float(idx[a].min() - b) for a in range(nd)]
        rmax = [float(idx[a].max() + b) for a in range(nd)]
    fmin = [int(math.floor(x)) for x in rmin]
    cmax = [int(math.ceil(x)) for x in rmax]
    bmin = [min(max(v, 0), s) for v, s in zip(fmin, shape)]
    bmax = [min(max(v, 0), s) for v, s in zip(cmax, shape)]
    degenerate = any(h <= l for l, h in zip(fmin, cmax))
    lo_out = any(l < 0 or l > s for l, s in zip(fmin, shape))
    hi_out = any(h < 0 or h > s for h, s in zip(cmax, shape))
    inside = not (lo_out or hi_out)
    empty = any(h <= l for l, h in zip(bmin, bmax))
    fractional = any(x != math.floor(x) for x in rmin + rmax)
    constrain = case["constrain"]
    constrain_eff = constrain if constrain is not None else (via != "crop")

    if degenerate:
        cat = "degenerate"
    elif inside:
        cat = "inside"
    elif empty:
        cat = "wholly_outside"
    else:
        cat = "one_sided" if (lo_out != hi_out) else "two_sided"
    ctx.event("via=%s cls=%s nd=%d" % (via, c["cls"], nd))
    ctx.event("cat=%s constrain=%s" % (cat, constrain_eff))
    ctx.event("dtype=%s" % c["dtype"])
    ctx.event("ch=%d" % c["ch"])
    if fractional:
        ctx.event("fractional")
    if c["fill"] == "special":
        ctx.event("fill=special")
    ctx.nontrivial(fractional or not inside)

    # ---- the call
    kw = {}
    if constrain is not None:
        kw["constrain_to_boundary"] = constrain
    if case["rt"]:
        kw["return_transform"] = True
    outcome, out, err = "ok", None, None
    try:
        if via == "crop":
            form = case["form"]
            if form == "list":
                a0, a1 = list(rmin), list(rmax)
            elif form == "tuple":
                a0, a1 = tuple(rmin), tuple(rmax)
            elif form == "int_ndarray" and not fractional:
                a0, a1 = np.array(fmin, dtype=int), np.array(cmax, dtype=int)
            else:
                a0, a1 = np.array(rmin), np.array(rmax)
            out = im.crop(a0, a1, **kw)
        elif via == "pointcloud":
            out = im.crop_to_pointcloud(PointCloud(pts.copy()), boundary=b, **kw)
        elif via == "pointcloud_prop":
            if case["minimum"] is not None:
                kw["minimum"] = case["minimum"]
            out = im.crop_to_pointcloud_proportion(PointCloud(pts.copy()), case["prop"], **kw)
        elif via in LM_VIAS:
            im.landmarks["__crop"] = PointCloud(pts.copy())
            before = digest(im)
            if not (case.get("omit_group") and not c.get("lms")):
                kw["group"] = "__crop"
            else:
                ctx.event("group omitted")
            if via == "landmarks":
                out = im.crop_to_landmarks(boundary=b, **kw)
            else:
                if case["minimum"] is not None:
                    kw["minimum"] = case["minimum"]
                out = im.crop_to_landmarks_proportion(case["prop"], **kw)
        else:
            out = im.crop_to_true_mask(boundary=b, **kw)
    except ImageBoundaryError as e:
        outcome, err = "ibe", e
    except ValueError as e:
        outcome, err = "ve", e
    req = "shape=%r min=%r max=%r constrain=%r via=%s" % (shape, rmin, rmax, constrain, via)

    ctx.expect(parameter_mutation(before, digest(im)) is None, "crop.source_mutated", req)

    if outcome == "ve" and nd > 3 and "2D or 3D" in str(err) and not degenerate:
        # the crop itself is never attempted: Translation refuses n_dims > 3
        if inside or (constrain_eff and not empty):
            ctx.fail("crop.ndim_gt3.translation_refused", "%s -> ValueError(%s)" % (req, err))
            return
    if degenerate:
        ctx.expect(outcome in ("ve", "ibe"), "crop.degenerate_not_refused", req)
        return
    if not inside and not constrain_eff:
        if outcome == "ok":
            ctx.fail("crop.%s_oob_not_refused.constrain=False" % ("one_sided" if cat == "one_sided" else "two_sided" if cat == "two_sided" else "wholly"),
                     "%s -> block of shape %r" % (req, (out[0] if case["rt"] else out).pixels.shape))
        elif outcome == "ve":
            ctx.fail("crop.oob.plain_ValueError_not_ImageBoundaryError", "%s -> %r" % (req, err))
        else:
            ok = (
                np.array_equal(np.asarray(err.requested_min, dtype=float), np.array(fmin, dtype=float))
                and np.array_equal(np.asarray(err.requested_max, dtype=float), np.array(cmax, dtype=float))
                and np.array_equal(np.asarray(err.snapped_min, dtype=float), np.array(bmin, dtype=float))
                and np.array_equal(np.asarray(err.snapped_max, dtype=float), np.array(bmax, dtype=float))
            )
            ctx.expect(ok, "crop.boundary_error_fields", lambda: "%s -> %r" % (req, err.__dict__))
        return
    if not inside and empty:
        if outcome == "ok":
            res = out[0] if case["rt"] else out
            ctx.expect(res.pixels.size == 0, "crop.wholly_outside.nonempty_block",
                       lambda: "%s -> shape %r" % (req, res.pixels.shape))
        return
    # a block is due: [bmin, bmax) (== [fmin, cmax) when inside)
    if outcome != "ok":
        ctx.fail("crop.%s.refused" % ("inside" if inside else "constrained"), "%s -> %s %s" % (req, type(err).__name__, err))
        return
    tr = None
    if case["rt"]:
        if not ctx.expect(isinstance(out, tuple) and len(out) == 2, "crop.return_transform_form", type(out).__name__):
            return
        out, tr = out
    suffix = "" if inside else ".constrained"
    sl = (slice(None),) + tuple(slice(l, h) for l, h in zip(bmin, bmax))
    want = px[sl]
    ctx.expect(type(out) is type(im), "crop.class", "%s -> %s" % (type(im).__name__, type(out).__name__))
    got = out.pixels
    if not eq_exact(got, want):
        if got.shape != want.shape:
            ctx.fail("crop.block_shape" + suffix, "%s: got %r want %r" % (req, got.shape, want.shape))
        elif got.dtype != want.dtype:
            ctx.fail("crop.dtype", "%s: got %s want %s" % (req, got.dtype, want.dtype))
        else:
            finite = np.isfinite(want.astype(float)) if want.dtype.kind == "f" else np.ones(want.shape, bool)
            if want.dtype.kind == "f" and np.array_equal(got[finite], want[finite]):
                # exactly this: every NaN source pixel came back as 0 and every other pixel (inf included) is identical
                nan_only = bool(np.all(np.isnan(want) | (got == want))) and bool(np.all(got[np.isnan(want)] == 0))
                ctx.fail("crop.nonfinite_pixels_altered" if not nan_only else "crop.nan_pixels_zeroed",
                         lambda: "%s dtype=%s: %s" % (req, c["dtype"], short(got, want)))
            elif want.dtype.kind in "iu" and want.dtype.itemsize == 8 and bool(np.all((got == want) | (np.abs(want.astype(object)) >= 2 ** 52))):
                # exactly this: only pixels of magnitude >= 2**52 differ (the sampler computes floor(float64(x) + 0.5))
                ctx.fail("crop.int64_pixels_through_float", lambda: "%s dtype=%s: %s" % (req, c["dtype"], short(got, want)))
            else:
                ctx.fail("crop.block" + suffix, lambda: "%s cls=%s dtype=%s: %s" % (req, c["cls"], c["dtype"], short(got, want)))
    if mask is not None and isinstance(out, MaskedImage):
        wm = mask[tuple(slice(l, h) for l, h in zip(bmin, bmax))][None]
        ctx.expect(eq_exact(out.mask.pixels, wm), "crop.mask_block" + suffix, lambda: "%s: %s" % (req, short(out.mask.pixels, wm)))
    # landmarks: every group, shifted by the (clipped) floored minimum
    shift = np.array(bmin, dtype=float)
    groups = list(c.get("lms", []))
    if via in LM_VIAS:
        groups = groups + [["__crop", "PointCloud", pts.tolist()]]
    got_names = sorted(out.landmarks.keys()) if out.has_landmarks else []
    ctx.expect(got_names == sorted(g[0] for g in groups), "crop.landmark_groups", lambda: "%r vs %r" % (got_names, [g[0] for g in groups]))
    for nm, kind, p in groups:
        if nm not in got_names:
            continue
        wantp = np.array(p, dtype=float) - shift
        gotp = out.landmarks[nm].points
        ctx.expect(gotp.shape == wantp.shape and np.array_equal(gotp, wantp), "crop.landmarks_shift" + suffix,
                   lambda: "%s group %r: %s" % (req, nm, short(gotp, wantp)))
        ctx.expect(type(out.landmarks[nm]) is type(im.landmarks[nm]), "crop.landmark_class", nm)
    if tr is not None:
        z = np.zeros((1, nd))
        t0 = np.asarray(tr.apply(z))[0]
        ctx.expect(np.array_equal(t0, shift), "crop.returned_transform", lambda: "%s: origin -> %r want %r" % (req, t0, shift))


# =============================================================================================
# patch reference (plain loops)


def _reflect(i, n):
    m = i % (2 * n)
    return m if m < n else 2 * n - 1 - m


def ref_patches(px, centres, pshape, offsets, order, mode, cval, ambiguous_ok):
    """Returns want (float64), known (bool), alt (float64 alternative where two answers are legal, else nan),
    n_out (number of samples whose nearest pixel is outside the image)."""
    C, H, W = px.shape
    ph, pw = pshape
    offs = [[0.0, 0.0]] if offsets is None else offsets
    n, no = len(centres), len(offs)
    want = np.zeros((n, no, C, ph, pw), dtype=float)
    known = np.zeros((n, no, C, ph, pw), dtype=bool)
    alt = np.full((n, no, C, ph, pw), np.nan)
    pf = px.astype(float)
    n_out = 0
    for a in range(n):
        for o in range(no):
            for i in range(ph):
                r = centres[a][0] + offs[o][0] - (ph // 2) + i
                for j in range(pw):
                    cc = centres[a][1] + offs[o][1] - (pw // 2) + j
                    ir, ic = int(math.floor(r + 0.5)), int(math.floor(cc + 0.5))
                    idx_in = 0 <= ir < H and 0 <= ic < W
                    pos_in = 0 <= r <= H - 1 and 0 <= cc <= W - 1
                    if not idx_in:
                        n_out += 1
                    if order == 0:
                        if pos_in:
                            want[a, o, :, i, j] = pf[:, ir, ic]
                            known[a, o, :, i, j] = True
                        elif idx_in:
                            # nearest pixel inside, position outside the pixel-centre extent
                            if mode in ("constant", "nearest") or not ambiguous_ok:
                                want[a, o, :, i, j] = pf[:, ir, ic]
                                known[a, o, :, i, j] = True
                                if mode == "constant" and ambiguous_ok:
                                    alt[a, o, :, i, j] = cval
                        elif mode == "constant":
                            want[a, o, :, i, j] = cval
                            known[a, o, :, i, j] = True
                        elif mode == "nearest":
                            want[a, o, :, i, j] = pf[:, min(max(ir, 0), H - 1), min(max(ic, 0), W - 1)]
                            known[a, o, :, i, j] = True
                        elif mode == "reflect" and r == ir and cc == ic:
                            # integer positions only: the image mirrored about its outer pixel edges (d c b a | a b c d)
                            want[a, o, :, i, j] = pf[:, _reflect(ir, H), _reflect(ic, W)]
                            known[a, o, :, i, j] = True
                    elif order == 1:
                        rr, c2 = r, cc
                        if not pos_in:
                            if mode == "nearest":
                                rr = min(max(r, 0.0), H - 1.0)
                                c2 = min(max(cc, 0.0), W - 1.0)
                            elif mode == "constant":
                                if r <= -1 or r >= H or cc <= -1 or cc >= W:
                                    want[a, o, :, i, j] = cval
                                    known[a, o, :, i, j] = True
                                continue
                            else:
                                continue
                        i0, j0 = int(math.floor(rr)), int(math.floor(c2))
                        i1, j1 = min(i0 + 1, H - 1), min(j0 + 1, W - 1)
                        fr, fc = rr - i0, c2 - j0
                        want[a, o, :, i, j] = (
                            (1 - fr) * (1 - fc) * pf[:, i0, j0]
                            + (1 - fr) * fc * pf[:, i0, j1]
                            + fr * (1 - fc) * pf[:, i1, j0]
                            + fr * fc * pf[:, i1, j1]
                        )
                        known[a, o, :, i, j] = True
                    elif px.dtype.kind in "fiu":
                        # order >= 2: the spline interpolates, so an integer in-image position returns that pixel
                        # (bool output truncates 0.999.. to False and is left out)
                        if pos_in and r == math.floor(r) and cc == math.floor(cc):
                            want[a, o, :, i, j] = pf[:, int(r), int(cc)]
                            known[a, o, :, i, j] = True
    return want, known, alt, n_out


def s_cval(dtype):
    if dtype == "bool":
        return st.sampled_from([0.0, 0.0, 1.0])
    if dtype in INT_DTYPES:
        top = float(min(int(np.iinfo(dtype).max), 255))  # representable in the dtype
        return st.sampled_from([0.0, 0.0, 1.0, 7.0, 100.0, top])
    return st.sampled_from([0.0, 0.0, 1.0, -1.0, 2.5, -37.125, 1000.0])


@st.composite
def s_centres(draw, H, W, ph, pw, nmax=4, integer=False):
    n = draw(st.integers(1, nmax))
    out = []
    for _ in range(n):
        p = []
        for s, k in ((H, ph), (W, pw)):
            zone = draw(st.sampled_from(["interior", "any", "any", "edge"]))
            lo_int, hi_int = k // 2, s - k + k // 2  # patch fully inside for centres in [lo_int, hi_int]
            if zone == "interior" and hi_int >= lo_int:
                v = draw(st.integers(lo_int, hi_int))
            elif zone == "edge":
                v = draw(st.sampled_from([-k, -1, 0, 1, s - 2, s - 1, s, s + k]))
            else:
                v = draw(st.integers(-(k + 2), s + k + 2))
            p.append(float(v))
        out.append(p)
    fr = None
    if not integer and draw(st.booleans()):
        # one fractional part per axis shared by all centres, >= 0.05 away from 0.5 (and from 0)
        fr = [draw(st.sampled_from([0.0, 0.0625, 0.25, 0.375, 0.4375, 0.5625, 0.625, 0.75, 0.9375])) for _ in range(2)]
        out = [[p[0] + fr[0], p[1] + fr[1]] for p in out]
    return out, fr


@st.composite
def s_offsets(draw, frac_ok):
    k = draw(st.integers(0, 3))
    if k == 0:
        return None
    offs = [[float(draw(st.integers(-4, 4))), float(draw(st.integers(-4, 4)))] for _ in range(k)]
    if frac_ok and draw(st.booleans()):
        f = draw(st.sampled_from([0.0625, 0.25, 0.4375, 0.5625, 0.75]))
        offs = [[o[0] + f, o[1] + f] for o in offs]
    return offs


@st.composite
def s_patches_ref(draw):
    img = draw(s_image(ndims=(2,), lms=False))
    H, W = img["shape"]
    ph, pw = draw(st.integers(1, 7)), draw(st.integers(1, 7))
    via = draw(st.sampled_from(["method", "method", "method", "landmarks", "sampling_fn", "slice_fn"]))
    case = {"img": img, "pshape": [ph, pw], "via": via}
    if via == "landmarks":
        case["order"], case["mode"], case["cval"] = 0, "constant", 0.0
        case["omit_group"] = draw(st.booleans())  # the centres are the only group on the image
    elif via == "slice_fn":
        case["order"], case["mode"], case["cval"] = 0, "constant", draw(s_cval(img["dtype"]))
    else:
        case["order"] = draw(st.sampled_from([0, 0, 0, 1, 1, 2, 3, 4, 5]))
        case["mode"] = draw(st.sampled_from(["constant", "constant", "nearest", "reflect", "wrap"]))
        case["cval"] = draw(s_cval(img["dtype"]))
    # what can be asserted of a spline (order >= 2) and of reflected samples needs integer positions: favour them there
    favour_int = case["order"] >= 2 or (case["mode"] == "reflect" and case["order"] == 0)
    integer = favour_int and draw(st.sampled_from([True, True, False]))
    centres, fr = draw(s_centres(H, W, ph, pw, integer=integer))
    case["centres"] = centres
    case["offsets"] = draw(s_offsets(frac_ok=fr is None and not integer))
    case["single"] = draw(st.booleans())
    case["pshape_form"] = draw(st.sampled_from(["tuple", "list", "ndarray"]))
    case["int_offsets"] = draw(st.booleans())
    return case


def _pshape(case):
    ph, pw = case["pshape"]
    f = case.get("pshape_form", "tuple")
    if f == "list":
        return [ph, pw]
    if f == "ndarray":
        return np.array([ph, pw])
    return (ph, pw)


def _offsets_arg(case):
    if case["offsets"] is None:
        return None
    o = np.array(case["offsets"], dtype=float)
    if case.get("int_offsets") and np.array_equal(o, np.floor(o)):
        return o.astype(int)
    return o


def _to_array(res, n, no, ctx, sig):
    """list-of-Image form -> 5-D array (centre-major order)."""
    if not ctx.expect(isinstance(res, list) and len(res) == n * no, sig + ".list_length",
                      lambda: "%s len %s, want %d" % (type(res).__name__, len(res) if isinstance(res, list) else "-", n * no)):
        return None
    if not ctx.expect(all(type(x) is Image for x in res), sig + ".list_item_class", ""):
        return None
    try:
        return np.array([[res[a * no + o].pixels for o in range(no)] for a in range(n)])
    except ValueError:
        ctx.fail(sig + ".list_item_shapes", repr([x.pixels.shape for x in res]))
        return None


def compare_patches(ctx, got, want, known, alt, dtype, order, sig, info):
    """got vs reference on the known elements."""
    if got.shape != want.shape:
        ctx.fail(sig + ".shape", "%s: got %r want %r" % (info, got.shape, want.shape))
        return
    ctx.expect(got.dtype == np.dtype(dtype), sig + ".dtype", "%s: %s vs %s" % (info, got.dtype, dtype))
    g = got.astype(float)
    if order == 0:
        ok = (g == want) | (g == alt)
        ok |= ~known
    else:
        if np.dtype(dtype).kind in "iub":
            if np.dtype(dtype).kind == "b":
                # bool output: any non-zero interpolated value is True; only exact 0 / non-zero is comparable
                ok = (g == (want != 0)) | ~known | ((want > 0) & (want < 1))
            else:
                ok = (np.abs(g - want) <= 0.5 + 1e-6) | ~known
        else:
            rtol = 1e-5 if dtype == "float32" else 1e-9
            scale = max(1.0, float(np.abs(want[known]).max()) if known.any() else 1.0)
            ok = (np.abs(g - want) <= rtol * scale) | ~known
    if not ok.all():
        bad = np.argwhere(~ok)
        i = tuple(bad[0])
        ctx.fail(sig + ".values", "%s: %d/%d known elements differ; first at %r got %r want %r" % (
            info, len(bad), int(known.sum()), [int(x) for x in i], g[i], want[i]))


def c_patches_ref(case, ctx):
    c = case["img"]
    px, mask, im = build(c)
    H, W = c["shape"]
    ph, pw = case["pshape"]
    centres, offsets = case["centres"], case["offsets"]
    order, mode, cval, via = case["order"], case["mode"], case["cval"], case["via"]
    n, no = len(centres), (1 if offsets is None else len(offsets))
    slicing = via in ("slice_fn", "landmarks") or (via == "method" and order == 0 and mode == "constant")
    path = "slice" if slicing else "sampling"
    want, known, alt, n_out = ref_patches(px, centres, (ph, pw), offsets, order, mode, cval, ambiguous_ok=True)
    total = n * no * ph * pw
    loc = "inside" if n_out == 0 else ("outside" if n_out == total else "partial")
    ctx.event("path=%s order=%d mode=%s" % (path, order, mode))
    ctx.event("via=%s single=%s" % (via, case["single"]))
    ctx.event("patches=%s" % loc)
    ctx.event("ch=%d cls=%s" % (c["ch"], c["cls"]))
    ctx.event("dtype=%s" % c["dtype"])
    ctx.event("n_offsets=%d" % (0 if offsets is None else no))
    frac = any(v != math.floor(v) for p in centres for v in p) or (offsets is not None and any(v != math.floor(v) for p in offsets for v in p))
    ctx.event("fractional" if frac else "integer")
    if order >= 2:
        ctx.event("order>=2 pixels asserted: %s" % ("some" if known.any() else "none"))
    if order == 0 and mode == "reflect":
        ctx.event("reflect outside samples asserted: %s" % ("some" if (n_out and not frac) else "none"))
    ctx.nontrivial(loc == "partial" or c["ch"] != 3)
    info = "cls=%s shape=%r ch=%d dtype=%s patch=%r centres=%r offsets=%r order=%d mode=%s cval=%r via=%s" % (
        c["cls"], c["shape"], c["ch"], c["dtype"], case["pshape"], centres, offsets, order, mode, cval, via)

    pc = PointCloud(np.array(centres, dtype=float))
    oarg = _offsets_arg(case)
    ps = _pshape(case)
    before = digest(im)
    if via == "method":
        res = im.extract_patches(pc, patch_shape=ps, sample_offsets=oarg, as_single_array=case["single"],
                                 order=order, mode=mode, cval=cval)
    elif via == "landmarks":
        im.landmarks["pc"] = pc
        before = digest(im)
        if case.get("omit_group"):
            ctx.event("group omitted")
            res = im.extract_patches_around_landmarks(patch_shape=ps, sample_offsets=oarg, as_single_array=case["single"])
        else:
            res = im.extract_patches_around_landmarks("pc", patch_shape=ps, sample_offsets=oarg, as_single_array=case["single"])
    elif via == "sampling_fn":
        res = extract_patches_by_sampling(im.pixels, pc.points, ps, offsets=oarg, order=order, mode=mode, cval=cval)
    else:
        res = extract_patches_with_slice(im.pixels, pc.points, ps, offsets=oarg, cval=cval)
    ctx.expect(parameter_mutation(before, digest(im)) is None, "patches.source_mutated", info)
    sig = "patches.%s" % path
    if via in ("method", "landmarks") and not case["single"]:
        res = _to_array(res, n, no, ctx, sig)
        if res is None:
            return
    if not ctx.expect(isinstance(res, np.ndarray), sig + ".type", type(res).__name__):
        return
    if not ctx.expect(res.shape == (n, no, c["ch"], ph, pw), sig + ".shape",
                      "%s: got %r want %r" % (info, res.shape, (n, no, c["ch"], ph, pw))):
        return
    compare_patches(ctx, res, want, known, alt, c["dtype"], order, sig + (".order%d" % order if order else ""), info)


# =============================================================================================
# clause 4: path equivalence at integer positions


@st.composite
def s_paths(draw):
    img = draw(s_image(ndims=(2,), lms=False))
    H, W = img["shape"]
    ph, pw = draw(st.integers(1, 7)), draw(st.integers(1, 7))
    centres, _ = draw(s_centres(H, W, ph, pw, integer=True))
    offsets = draw(s_offsets(frac_ok=False))
    return {"img": img, "pshape": [ph, pw], "centres": centres, "offsets": offsets, "cval": draw(s_cval(img["dtype"])),
            "int_offsets": draw(st.booleans()),
            # which path runs first on the SAME PointCloud / offsets objects, and whether a resampling call (other
            # mode / order) on those objects came before both
            "first": draw(st.sampled_from(["slice", "sampling"])),
            "warm": draw(st.sampled_from([None, None, "nearest", "order1"]))}


def c_paths(case, ctx):
    c = case["img"]
    px, mask, im = build(c)
    ph, pw = case["pshape"]
    centres, offsets, cval = case["centres"], case["offsets"], case["cval"]
    n, no = len(centres), (1 if offsets is None else len(offsets))
    want, known, alt, n_out = ref_patches(px, centres, (ph, pw), offsets, 0, "constant", cval, ambiguous_ok=False)
    total = n * no * ph * pw
    loc = "inside" if n_out == 0 else ("outside" if n_out == total else "partial")
    ctx.event("patches=%s" % loc)
    ctx.event("ch=%d" % c["ch"])
    ctx.event("dtype=%s cls=%s" % (c["dtype"], c["cls"]))
    ctx.event("cval%s0" % ("=" if cval == 0 else "!="))
    ctx.nontrivial(loc == "partial" or c["ch"] != 3)
    info = "cls=%s shape=%r ch=%d dtype=%s patch=%r centres=%r offsets=%r cval=%r" % (
        c["cls"], c["shape"], c["ch"], c["dtype"], case["pshape"], centres, offsets, cval)
    pc = PointCloud(np.array(centres, dtype=float))
    oarg = _offsets_arg(case)
    first, warm = case.get("first", "slice"), case.get("warm")
    ctx.event("first=%s warm=%s" % (first, warm))
    okeep = None if oarg is None else oarg.copy()
    before = digest(im)
    if warm is not None:
        im.extract_patches(pc, patch_shape=(ph, pw), sample_offsets=oarg, cval=cval,
                           **({"order": 0, "mode": "nearest"} if warm == "nearest" else {"order": 1, "mode": "constant"}))
    a = b = None
    for which in ((first, "sampling") if first == "slice" else (first, "slice")):
        if which == "slice":
            a = im.extract_patches(pc, patch_shape=(ph, pw), sample_offsets=oarg, order=0, mode="constant", cval=cval)
        else:
            b = extract_patches_by_sampling(im.pixels, pc.points, (ph, pw), offsets=oarg, order=0, mode="constant", cval=cval)
    ctx.expect(pc.points.dtype == np.float64 and np.array_equal(pc.points, np.array(centres, dtype=float)), "paths.centres_mutated",
               lambda: "%s first=%s warm=%s: centres now %r" % (info, first, warm, pc.points.tolist()))
    ctx.expect(oarg is None or (oarg.dtype == okeep.dtype and np.array_equal(oarg, okeep)), "paths.sample_offsets_mutated", info)
    ctx.expect(parameter_mutation(before, digest(im)) is None, "paths.source_mutated", info)
    assert known.all()
    ctx.expect(eq_exact(a, b), "paths.slice_vs_sampling", lambda: "%s: %s" % (info, short(a, b)))
    compare_patches(ctx, a, want, known, alt, c["dtype"], 0, "paths.slice_vs_reference", info)
    compare_patches(ctx, b, want, known, alt, c["dtype"], 0, "paths.sampling_vs_reference", info)


# =============================================================================================
# clause 5: write-back


@st.composite
def s_writeback(draw):
    ph, pw = draw(st.integers(1, 5)), draw(st.integers(1, 5))
    ny, nx = draw(st.integers(1, 3)), draw(st.integers(1, 3))
    pad = [draw(st.integers(0, 3)) for _ in range(4)]  # top, bottom, left, right
    gap = [draw(st.integers(0, 2)), draw(st.integers(0, 2))]
    H = pad[0] + ny * ph + (ny - 1) * gap[0] + pad[1]
    W = pad[2] + nx * pw + (nx - 1) * gap[1] + pad[3]
    img = draw(s_image(ndims=(2,), lms=True, lm_pad=0))
    img["shape"] = [H, W]
    if "mbox" in img:
        img["mbox"] = [[0, H], [0, W]]
    img["lms"] = [[nm, kind, [[min(p[0], H - 1.0), min(p[1], W - 1.0)] for p in pts]] for nm, kind, pts in img.get("lms", [])]
    allc = [[i, j] for i in range(ny) for j in range(nx)]
    k = draw(st.integers(1, len(allc)))
    cells = list(draw(st.permutations(allc)))[:k]
    frac = draw(st.sampled_from([None, None, None, [0.25, 0.0625], [0.75, 0.5625], [0.0625, 0.9375]]))
    # offset: all patches shifted together stay interior when |offset| <= padding on that side
    n_off = draw(st.integers(1, 3))
    oi = draw(st.integers(0, n_off - 1))
    offs = [[draw(st.integers(-pad[0], pad[1])), draw(st.integers(-pad[2], pad[3]))] for _ in range(n_off)]
    use_offsets = draw(st.sampled_from([True, True, False]))
    case = {"img": img, "pshape": [ph, pw], "grid": [ny, nx], "pad": pad, "gap": gap, "cells": cells, "frac": frac,
            "offsets": offs if use_offsets else None, "oi": oi if use_offsets else None,
            "offset_form": draw(st.sampled_from(["tuple", "list", "ndarray"])),
            "via": draw(st.sampled_from(["method", "method", "landmarks", "landmarks", "fn"])), "gseed": draw(st.integers(0, 2**16))}
    # which of offset / offset_index are passed: a missing offset means (0, 0), a missing index means patches[:, 0]
    case["kwform"] = draw(st.sampled_from(["both", "both", "offset_only", "index_only"])) if use_offsets else "none"
    # a resampling-path extraction on the same centres / offsets objects before anything is written
    case["warm"] = draw(st.sampled_from([None, None, "nearest", "order1", "sampling_fn"]))
    if case["via"] == "landmarks" and draw(st.booleans()):
        img["lms"] = []  # the centres are the only group: the group argument is left out
        case["omit_group"] = True
    return case


def c_writeback(case, ctx):
    c = case["img"]
    px, mask, im = build(c)
    H, W = c["shape"]
    ph, pw = case["pshape"]
    pad, gap = case["pad"], case["gap"]
    frac = case["frac"]
    tops = [[pad[0] + i * (ph + gap[0]), pad[2] + j * (pw + gap[1])] for i, j in case["cells"]]
    centres = [[float(t[0] + ph // 2), float(t[1] + pw // 2)] for t in tops]
    bump = [0, 0]
    if frac is not None:
        # nearest-pixel convention: the patch of a centre with fractional part > 0.5 starts one pixel later
        # (all patches move together, so they stay disjoint); it must stay interior, so that needs one pixel of
        # padding on the far side - otherwise fall back to a fractional part below 0.5 on that axis
        frac = [frac[0] if (frac[0] < 0.5 or pad[1] >= 1) else 0.25, frac[1] if (frac[1] < 0.5 or pad[3] >= 1) else 0.25]
        centres = [[p[0] + frac[0], p[1] + frac[1]] for p in centres]
        bump = [1 if frac[0] > 0.5 else 0, 1 if frac[1] > 0.5 else 0]
        tops = [[t[0] + bump[0], t[1] + bump[1]] for t in tops]
    n = len(centres)
    offsets, oi = case["offsets"], case["oi"]
    if offsets is not None:
        # with the bump the offset range shrinks on the far side
        offsets = [[min(o[0], pad[1] - bump[0]), min(o[1], pad[3] - bump[1])] for o in offsets]
    no = 1 if offsets is None else len(offsets)
    kwform = case.get("kwform", "none" if offsets is None else "both")
    # off: the shift applied to every centre; gi: which entry of the patches' offset axis is written
    off = [int(v) for v in offsets[oi]] if kwform in ("both", "offset_only") else [0, 0]
    gi = oi if kwform in ("both", "index_only") else 0
    sfx = "" if frac is None else ".fractional_centres"
    ctx.event("cls=%s dtype=%s" % (c["cls"], c["dtype"]))
    ctx.event("ch=%d" % c["ch"])
    ctx.event("n=%d n_off=%d" % (n, 0 if offsets is None else no))
    ctx.event("centres=%s" % ("integer" if frac is None else "fractional"))
    ctx.event("via=%s" % case["via"])
    ctx.event("offset/index passed: %s" % kwform)
    ctx.nontrivial(n >= 2 or offsets is not None or ph != pw)
    info = "cls=%s shape=%r ch=%d dtype=%s patch=%r centres=%r offsets=%r index=%r passed=%s via=%s" % (
        c["cls"], c["shape"], c["ch"], c["dtype"], case["pshape"], centres, offsets, oi, kwform, case["via"])

    pc = PointCloud(np.array(centres, dtype=float))
    use_lm = case["via"] == "landmarks"
    use_fn = case["via"] == "fn"
    if use_lm:
        im.landmarks["pc"] = pc
    before = digest(im)
    oarg = None
    if offsets is not None:
        # the offsets the patches are extracted at: entry gi is the shift they are written back with
        ex = [list(o) for o in offsets]
        ex[gi] = off
        oarg = np.array(ex, dtype=int)
    kw = {}
    if kwform in ("both", "offset_only"):
        o = [int(off[0]), int(off[1])]
        kw["offset"] = tuple(o) if case["offset_form"] == "tuple" else (o if case["offset_form"] == "list" else np.array([o]))
    if kwform in ("both", "index_only"):
        kw["offset_index"] = oi
    gkw = {} if (case.get("omit_group") and not c.get("lms")) else {"group": "pc"}
    if use_lm and not gkw:
        ctx.event("group omitted")

    warm = case.get("warm")
    ctx.event("warm=%s" % warm)
    if warm is not None:
        wpc = im.landmarks["pc"] if use_lm else pc  # the object the later calls read their centres from
        if warm == "sampling_fn":
            extract_patches_by_sampling(im.pixels, wpc.points, (ph, pw), offsets=oarg, order=0, mode="constant")
        else:
            im.extract_patches(wpc, patch_shape=(ph, pw), sample_offsets=oarg,
                               **({"order": 0, "mode": "nearest"} if warm == "nearest" else {"order": 1}))

    def extract(img_, as_single=True):
        if use_lm:
            return img_.extract_patches_around_landmarks(patch_shape=(ph, pw), sample_offsets=oarg, as_single_array=as_single, **gkw)
        return img_.extract_patches(pc, patch_shape=(ph, pw), sample_offsets=oarg, as_single_array=as_single)

    def put(img_, patches):
        if use_lm:
            return img_.set_patches_around_landmarks(patches, **dict(kw, **gkw))
        if use_fn:
            # the module function writes into the pixel array it is handed
            res = img_.copy()
            set_patches_fn(patches, res.pixels, pc.points, np.array([off], dtype=np.intp), gi)
            return res
        return img_.set_patches(patches, pc, **kw)

    # generated patch content and two loop references of where it must land: by the nearest-pixel convention that
    # extraction uses (want) and, for diagnosis only, by truncating the centre (want_trunc)
    rs = np.random.RandomState(case["gseed"])
    dt = np.dtype(c["dtype"])
    shp = (n, no, c["ch"], ph, pw)
    if dt.kind == "b":
        G = rs.rand(*shp) > 0.5
    elif dt.kind in "iu":
        G = rs.randint(int(np.iinfo(dt).min), int(np.iinfo(dt).max) + 1, size=shp, dtype=np.int64).astype(dt)
    else:
        G = (rs.standard_normal(shp) * 50).astype(dt)

    def place(tops_):
        w = px.copy()
        for a in range(n):
            r0, c0 = tops_[a][0] + off[0], tops_[a][1] + off[1]
            for ch in range(c["ch"]):
                for i in range(ph):
                    for j in range(pw):
                        w[ch, r0 + i, c0 + j] = G[a, gi, ch, i, j]
        return w

    want = place(tops)
    Gc = G.copy()
    wrote = put(im, G)
    ctx.expect(parameter_mutation(before, digest(im)) is None, "writeback.receiver_mutated", info)
    ctx.expect(np.array_equal(G, Gc), "writeback.patches_argument_mutated", info)
    ctx.expect(type(wrote) is type(im) and wrote is not im, "writeback.result_class", type(wrote).__name__)
    ctx.expect(not np.shares_memory(wrote.pixels, im.pixels), "writeback.result_aliases_receiver", info)
    if mask is not None:
        ctx.expect(eq_exact(wrote.mask.pixels, mask[None]), "writeback.mask_changed", info)
    if any(bump):
        # where does set_patches put a patch whose centre has a fractional part > 0.5?  Probe with a blank float
        # image and all-ones patches (independent of the case's dtype / content).
        def loc_mask(tops_):
            m = np.zeros((H, W), dtype=bool)
            for t in tops_:
                m[t[0] + off[0]: t[0] + off[0] + ph, t[1] + off[1]: t[1] + off[1] + pw] = True
            return m

        probe = Image(np.zeros((1, H, W)))
        if use_lm:
            probe.landmarks["pc"] = pc
        landed = put(probe, np.ones((n, no, 1, ph, pw))).pixels[0] == 1
        if not np.array_equal(landed, loc_mask(tops)) and np.array_equal(
            landed, loc_mask([[t[0] - bump[0], t[1] - bump[1]] for t in tops])
        ):
            # one root cause for every content check below: set_patches truncates a fractional centre where
            # extract_patches rounds it to the nearest pixel
            ctx.fail("set_patches.fractional_centre_truncated_not_rounded",
                     "%s: set_patches writes at int(centre), extract_patches reads at round(centre)" % info)
            return
    ctx.expect(eq_exact(wrote.pixels, want), "writeback.set_patches_placement" + sfx, lambda: "%s: %s" % (info, short(wrote.pixels, want)))

    # (a) extract then write back restores the image
    P = extract(im)
    if not ctx.expect(isinstance(P, np.ndarray) and P.shape == (n, no, c["ch"], ph, pw), "writeback.extract_shape", info):
        return
    Pc = P.copy()
    back = put(im, P)
    ctx.expect(parameter_mutation(before, digest(im)) is None, "writeback.receiver_mutated", info)
    ctx.expect(np.array_equal(P, Pc), "writeback.patches_argument_mutated", info)
    ctx.expect(eq_exact(back.pixels, px), "writeback.restore" + sfx, lambda: "%s: %s" % (info, short(back.pixels, px)))
    if mask is not None:
        ctx.expect(eq_exact(back.mask.pixels, mask[None]), "writeback.mask_changed", info)

    # (b) extracting at the same centres + that offset returns the written content
    if use_lm:
        R = wrote.extract_patches_around_landmarks(patch_shape=(ph, pw), sample_offsets=None if offsets is None else np.array([off]), **gkw)
    else:
        R = wrote.extract_patches(pc, patch_shape=(ph, pw), sample_offsets=None if offsets is None else np.array([off]))
    wantR = G[:, gi][:, None]
    ctx.expect(eq_exact(R, wantR), "writeback.write_then_extract" + sfx, lambda: "%s: %s" % (info, short(R, wantR)))

    def centres_untouched():
        cur = (im.landmarks["pc"] if use_lm else pc).points
        ctx.expect(np.array_equal(cur, np.array(centres, dtype=float)), "writeback.centres_mutated",
                   lambda: "%s warm=%s: centres now %r" % (info, warm, cur.tolist()))

    # (c) list-of-Image form agrees with the ndarray form (methods only: the module function takes the array)
    if use_fn:
        centres_untouched()
        return
    L = [Image(G[a, o].copy()) for a in range(n) for o in range(no)]
    wrote_l = put(im, L)
    ctx.expect(eq_exact(wrote_l.pixels, wrote.pixels), "writeback.list_vs_array_form", lambda: "%s: %s" % (info, short(wrote_l.pixels, wrote.pixels)))
    L2 = extract(im, as_single=False)
    back_l = put(im, L2)
    ctx.expect(eq_exact(back_l.pixels, px), "writeback.restore_list_form" + sfx, lambda: "%s: %s" % (info, short(back_l.pixels, px)))
    ctx.expect(parameter_mutation(before, digest(im)) is None, "writeback.receiver_mutated", info)
    centres_untouched()


# =============================================================================================
# clause 6: the bounds helpers the crops are built on


@st.composite
def s_bounds(draw):
    img = draw(s_image(ndims=(2, 2, 3, 4), classes=("Image", "MaskedImage"), dtypes=("uint8", "float64")))
    shape = img["shape"]
    # the boolean mask whose true / false extent is asked for (independent of the image class)
    img["mask"] = draw(st.sampled_from(["random", "box", "box", "single", "all"]))
    if img["mask"] == "box":
        box = []
        for s in shape:
            a = draw(st.integers(0, s - 1))
            box.append([a, draw(st.integers(a + 1, s))])
        img["mbox"] = box
    else:
        img.pop("mbox", None)
    k = draw(st.integers(1, 3))
    pts = [[draw(st.integers(-3 * 8, (s + 3) * 8)) / 8.0 for s in shape] for _ in range(k)]
    if draw(st.booleans()):
        pts = [[float(math.floor(v)) for v in p] for p in pts]
    return {"img": img, "holder": draw(st.sampled_from(["boolean", "masked"])), "invert": draw(st.booleans()),
            "boundary": draw(st.sampled_from([None, 0, 1, 2, 2, 3, 3, 5, 5, -1, -2])),
            "constrain": draw(st.sampled_from([True, True, False, None])),
            "points": pts, "int_points": draw(st.booleans())}


def c_bounds(case, ctx):
    c = case["img"]
    px, _, im = build(c)
    shape = np.array(c["shape"])
    nd = len(shape)
    m = build_mask(c)
    if case["invert"] and not m.all():
        m = ~m
    holder = BooleanImage(m.copy()) if case["holder"] == "boolean" else MaskedImage(np.zeros((1,) + m.shape), mask=m.copy()).mask
    b, constrain = case["boundary"], case["constrain"]
    kw = {}
    if b is not None:
        kw["boundary"] = b
    if constrain is not None:
        kw["constrain_to_bounds"] = constrain
    b_eff = 0 if b is None else b
    clip = constrain is not False
    ctx.event("nd=%d holder=%s mask=%s%s" % (nd, case["holder"], c["mask"], " inverted" if case["invert"] else ""))
    ctx.event("boundary=%r constrain=%r" % (b, constrain))
    info = "shape=%r mask=%s boundary=%r constrain_to_bounds=%r" % (c["shape"], c["mask"], b, constrain)
    before = digest(holder)
    clipped_any = False
    crosses = False
    for name, sel in (("bounds_true", m), ("bounds_false", ~m)):
        if not sel.any():
            ctx.event("%s: no such pixel (not called)" % name)
            continue
        idx = np.nonzero(sel)
        lo = np.array([int(i.min()) - b_eff for i in idx])
        hi = np.array([int(i.max()) + b_eff for i in idx])
        lo_c, hi_c = np.clip(lo, 0, shape), np.clip(hi, 0, shape)
        crosses = crosses or not (np.array_equal(lo, lo_c) and np.array_equal(hi, hi_c))
        if clip:
            lo, hi = lo_c, hi_c
        got = getattr(holder, name)(**kw)
        if not ctx.expect(isinstance(got, tuple) and len(got) == 2, name + ".return_form", type(got).__name__):
            continue
        g0, g1 = np.asarray(got[0]), np.asarray(got[1])
        ctx.expect(g0.shape == (nd,) and g1.shape == (nd,) and np.array_equal(g0, lo) and np.array_equal(g1, hi),
                   name + ".values", lambda: "%s: got %r..%r want %r..%r" % (info, g0.tolist(), g1.tolist(), lo.tolist(), hi.tolist()))
    ctx.expect(parameter_mutation(before, digest(holder)) is None, "bounds.mask_mutated", info)

    # constrain_points_to_bounds: clipped to [0, shape] per axis, the argument left alone
    before = digest(im)
    for target in (im, holder):
        for p in case["points"]:
            arr = np.array(p, dtype=float)
            if case["int_points"] and np.array_equal(arr, np.floor(arr)):
                arr = arr.astype(int)
            keep = arr.copy()
            want = np.clip(arr, 0, shape)
            clipped_any = clipped_any or not np.array_equal(want, arr)
            got = target.constrain_points_to_bounds(arr)
            ctx.expect(np.array_equal(arr, keep), "constrain_points.argument_mutated", lambda: "shape=%r points=%r" % (c["shape"], p))
            ctx.expect(isinstance(got, np.ndarray) and got.shape == want.shape and np.array_equal(got, want), "constrain_points.values",
                       lambda: "shape=%r points=%r: got %r want %r" % (c["shape"], p, np.asarray(got).tolist(), want.tolist()))
    ctx.expect(parameter_mutation(before, digest(im)) is None, "constrain_points.image_mutated", info)

    # constrain_landmarks_to_bounds (deprecated, documented as pc.constrain_to_bounds(image.bounds())): every group
    # is moved onto the valid pixel indices [0, shape - 1]; nothing else on the image changes
    groups = c.get("lms", [])
    if groups:
        ctx.event("landmark groups=%d" % len(groups))
        im.constrain_landmarks_to_bounds()
        ctx.expect(sorted(im.landmarks.keys()) == sorted(g[0] for g in groups), "constrain_landmarks.groups", info)
        for nm, kind, p in groups:
            if nm not in im.landmarks.keys():
                continue
            src = np.array(p, dtype=float)
            want = np.clip(src, 0, shape - 1)
            clipped_any = clipped_any or not np.array_equal(want, src)
            gotp = im.landmarks[nm].points
            ctx.expect(gotp.shape == want.shape and np.array_equal(gotp, want), "constrain_landmarks.values",
                       lambda: "shape=%r group %r: %s" % (c["shape"], nm, short(gotp, want)))
        ctx.expect(eq_exact(im.pixels, px if c["cls"] != "BooleanImage" else px[:1]), "constrain_landmarks.pixels_changed", info)
    ctx.event("points/landmarks: %s" % ("clipping needed" if clipped_any else "nothing clipped"))
    ctx.event("true/false extent + boundary %s" % ("leaves the image" if crosses else "stays inside"))
    ctx.nontrivial(crosses)


# =============================================================================================
# clause 7: the same argument objects handed to a sequence of calls

CENTRE_DTYPES = ("float64", "float64", "float64", "float32", "int")
EXTRACT_OPS = ("method", "lm", "sampling_fn", "slice_fn")
SET_OPS = ("set", "set_lm", "set_fn")
CROP_OPS = ("crop_pc", "crop_lm", "crop")
OPS_BY_HOLDER = {
    # a PointCloud the caller keeps (built over a copy of, or directly on, the caller's array)
    "pc": ["method", "method", "method", "sampling_fn", "sampling_fn", "slice_fn", "set", "set_fn", "crop_pc", "crop"],
    # a landmark group of the image: the group's own PointCloud is what every call reads
    "lm": ["method", "method", "method", "lm", "sampling_fn", "set_lm", "set", "crop_lm", "crop_pc", "crop"],
    # a bare centres array handed to the module functions
    "array": ["sampling_fn", "sampling_fn", "slice_fn", "slice_fn", "set_fn", "crop"],
}


@st.composite
def s_reuse(draw):
    geometry = draw(st.sampled_from(["grid", "free"]))
    ph, pw = draw(st.integers(1, 6)), draw(st.integers(1, 6))
    img = draw(s_image(ndims=(2,), lms=False))
    case = {"img": img, "pshape": [ph, pw], "geometry": geometry}
    if geometry == "grid":
        # interior, pairwise disjoint patches (what set_patches needs), as in the write-back clause
        ny, nx = draw(st.integers(1, 3)), draw(st.integers(1, 2))
        pad = [draw(st.integers(0, 3)) for _ in range(4)]
        gap = [draw(st.integers(0, 2)), draw(st.integers(0, 2))]
        H = pad[0] + ny * ph + (ny - 1) * gap[0] + pad[1]
        W = pad[2] + nx * pw + (nx - 1) * gap[1] + pad[3]
        img["shape"] = [H, W]
        if "mbox" in img:
            img["mbox"] = [[0, H], [0, W]]
        allc = [[i, j] for i in range(ny) for j in range(nx)]
        k = draw(st.integers(1, min(4, len(allc))))
        cells = list(draw(st.permutations(allc)))[:k]
        centres = [[float(pad[0] + i * (ph + gap[0]) + ph // 2), float(pad[2] + j * (pw + gap[1]) + pw // 2)] for i, j in cells]
        fr = None
        if draw(st.sampled_from([False, False, True])):
            # fractional part below one half: the nearest pixel (hence the patch) is unchanged
            fr = [draw(st.sampled_from([0.0625, 0.25, 0.375, 0.4375])) for _ in range(2)]
            centres = [[p[0] + fr[0], p[1] + fr[1]] for p in centres]
        n_off = draw(st.integers(0, 3))
        # shifted together by at most the padding the patches stay interior and disjoint
        offsets = [[float(draw(st.integers(-pad[0], pad[1]))), float(draw(st.integers(-pad[2], pad[3])))] for _ in range(n_off)] or None
    else:
        H, W = img["shape"]
        centres, fr = draw(s_centres(H, W, ph, pw, integer=draw(st.booleans())))
        offsets = draw(s_offsets(frac_ok=fr is None))
    case["centres"], case["offsets"] = centres, offsets
    integer = fr is None
    case["cdtype"] = draw(st.sampled_from([d for d in CENTRE_DTYPES if integer or d != "int"]))
    holder = draw(st.sampled_from(["pc", "pc", "lm", "lm", "array"]))
    case["holder"] = holder
    case["copy"] = draw(st.booleans())  # PointCloud(points, copy=...): False shares the caller's array
    case["pshape_form"] = draw(st.sampled_from(["tuple", "list", "ndarray"]))
    case["int_offsets"] = draw(st.booleans())
    # the crop request whose min / max arrays are re-used: a non-empty intersection with the image on every axis
    b = [draw(s_axis_bounds(s_, ["in", "in", "border", "lo_out", "hi_out", "both_out"])) for s_ in img["shape"]]
    case["cmin"], case["cmax"] = [x[0] for x in b], [x[1] for x in b]
    ops = [o for o in OPS_BY_HOLDER[holder] if geometry == "grid" or o not in SET_OPS]
    steps = []
    for _ in range(draw(st.integers(2, 4))):
        op = draw(st.sampled_from(ops))
        stp = {"op": op}
        if op in ("method", "sampling_fn"):
            stp["order"] = draw(st.sampled_from([0, 0, 0, 1, 1, 2, 3]))
            stp["mode"] = draw(st.sampled_from(["constant", "constant", "nearest", "nearest", "reflect", "wrap"]))
        if op in EXTRACT_OPS:
            stp["cval"] = 0.0 if op == "lm" else draw(s_cval(img["dtype"]))
            stp["single"] = draw(st.booleans())
        elif op in SET_OPS:
            stp["content"] = draw(st.sampled_from(["random", "source"]))
            stp["oi"] = draw(st.integers(0, len(offsets) - 1)) if offsets else None
            stp["gseed"] = draw(st.integers(0, 2**16))
        elif op in ("crop_pc", "crop_lm"):
            stp["boundary"] = draw(st.sampled_from([0, 1, 1, 2, 3]))
        steps.append(stp)
    if integer and (offsets is None or all(v == math.floor(v) for o in offsets for v in o)) and draw(st.sampled_from([True, False, False])):
        # both paths at order 0 / constant with one fill value on the same objects, in either order
        cv = draw(s_cval(img["dtype"]))
        pair = [{"op": "sampling_fn", "order": 0, "mode": "constant", "cval": cv, "single": True},
                {"op": "slice_fn" if holder == "array" else draw(st.sampled_from(["slice_fn", "method"])),
                 "order": 0, "mode": "constant", "cval": cv, "single": draw(st.booleans())}]
        if draw(st.booleans()):
            pair.reverse()
        at = draw(st.integers(0, len(steps) - 2))
        steps[at:at + 2] = pair
    case["steps"] = steps
    return case


def c_reuse(case, ctx):
    c = case["img"]
    px, mask, im = build(c)
    H, W = c["shape"]
    ph, pw = case["pshape"]
    centres, offsets = case["centres"], case["offsets"]
    n, no = len(centres), (1 if offsets is None else len(offsets))
    holder, steps = case["holder"], case["steps"]
    integer = all(v == math.floor(v) for p in centres for v in p) and (offsets is None or all(v == math.floor(v) for p in offsets for v in p))

    # ---- the argument objects, created once, and pristine copies of their values
    cdt = {"float64": np.float64, "float32": np.float32, "int": np.int64}[case["cdtype"]]
    c0 = np.array(centres, dtype=float).astype(cdt)  # pristine
    user = c0.copy()  # the array the caller keeps
    pcobj = None
    if holder == "array":
        carr = lambda: user
    else:
        pcobj = PointCloud(user, copy=case["copy"])
        if holder == "lm":
            im.landmarks["pc"] = pcobj
            pcobj = im.landmarks["pc"]
        carr = lambda: pcobj.points
    ps = _pshape(case)
    ps0 = np.array(case["pshape"])
    oarg = _offsets_arg(case)
    o0 = None if oarg is None else oarg.copy()
    cmin, cmax = np.array(case["cmin"], dtype=float), np.array(case["cmax"], dtype=float)
    cmin0, cmax0 = cmin.copy(), cmax.copy()
    before_im = digest(im)
    before_pc = None if pcobj is None else digest(pcobj)

    def path_of(stp):
        op = stp["op"]
        if op in SET_OPS:
            return "set"
        if op in CROP_OPS:
            return "crop"
        if op == "sampling_fn" or (op == "method" and not (stp["order"] == 0 and stp["mode"] == "constant")):
            return "sampling"
        return "slice"

    paths = [path_of(s_) for s_ in steps]
    ctx.event("holder=%s%s centres=%s %s" % (holder, "" if holder == "array" else " copy=%s" % case["copy"], case["cdtype"],
                                            "integer positions" if integer else "fractional positions"))
    ctx.event("geometry=%s" % case["geometry"])
    ctx.event("steps=%d" % len(steps))
    ctx.event("sequence=%s" % ">".join(paths[:2]) + (">.." if len(paths) > 2 else ""))
    for s_ in steps:
        ctx.event("op=%s" % s_["op"])
    ctx.event("patch=%s" % ("odd" if (ph % 2 or pw % 2) else "even"))
    ctx.event("ch=%d cls=%s dtype=%s" % (c["ch"], c["cls"], c["dtype"]))
    # non-trivial: a call that reads the centres comes after a different kind of call on the same objects
    ctx.nontrivial(len(set(paths)) >= 2)
    info0 = "cls=%s shape=%r ch=%d dtype=%s patch=%r(%s) centres=%r(%s, %s) offsets=%r" % (
        c["cls"], c["shape"], c["ch"], c["dtype"], case["pshape"], case["pshape_form"], centres, case["cdtype"], holder, offsets)

    # every argument object is compared with its state after the previous call (initially: as created), so a change is
    # attributed to the call that made it and reported once
    prev = {"centres": c0.copy(), "user": c0.copy(), "pc": before_pc, "im": before_im, "ps": ps0.copy(), "off": o0,
            "cmin": cmin0.copy(), "cmax": cmax0.copy()}

    def same(a, b):
        return a.dtype == b.dtype and a.shape == b.shape and bool(np.array_equal(a, b))

    def arguments_untouched(k, path):
        where = "by_%s" % path
        cur = carr()
        if not ctx.expect(same(cur, prev["centres"]) and same(user, prev["user"]), "reuse.centres_mutated." + where,
                          lambda: "%s after step %d of %r: centres now %r" % (info0, k, [s_["op"] for s_ in steps], cur.tolist())):
            prev["centres"], prev["user"] = cur.copy(), user.copy()
            if pcobj is not None:
                prev["pc"] = digest(pcobj)
        elif pcobj is not None:
            d = digest(pcobj)
            if not ctx.expect(parameter_mutation(prev["pc"], d) is None, "reuse.centres_mutated." + where,
                              lambda: "%s after step %d: %r" % (info0, k, parameter_mutation(prev["pc"], d))):
                prev["pc"] = d
        if not ctx.expect(type(ps) is type(_pshape(case)) and np.array_equal(np.asarray(ps), prev["ps"]), "reuse.patch_shape_mutated." + where,
                          lambda: "%s after step %d: now %r" % (info0, k, ps)):
            prev["ps"] = np.array(ps)
        if oarg is not None and not ctx.expect(same(oarg, prev["off"]), "reuse.sample_offsets_mutated." + where,
                                               lambda: "%s after step %d: now %r" % (info0, k, oarg.tolist())):
            prev["off"] = oarg.copy()
        if not ctx.expect(same(cmin, prev["cmin"]) and same(cmax, prev["cmax"]), "reuse.crop_bounds_mutated",
                          lambda: "%s after step %d: min %r max %r (given %r %r)" % (info0, k, cmin.tolist(), cmax.tolist(), cmin0.tolist(), cmax0.tolist())):
            prev["cmin"], prev["cmax"] = cmin.copy(), cmax.copy()
        d = digest(im)
        if not ctx.expect(parameter_mutation(prev["im"], d) is None, "reuse.image_mutated." + where,
                          lambda: "%s after step %d: %r" % (info0, k, parameter_mutation(prev["im"], d))):
            prev["im"] = d

    tops = [[int(math.floor(p[0])) - ph // 2, int(math.floor(p[1])) - pw // 2] for p in centres]  # grid geometry (fraction < 1/2)
    exact0 = {}  # order 0 / constant results at integer positions, by (path, cval): the two paths must agree
    for k, stp in enumerate(steps):
        op, path = stp["op"], paths[k]
        when = "first_call" if k == 0 else "later_call"
        info = "%s | step %d of %r: %r" % (info0, k, [s_["op"] for s_ in steps], stp)
        if op in EXTRACT_OPS:
            order, mode, cval = stp.get("order", 0), stp.get("mode", "constant"), stp["cval"]
            if op == "method":
                res = im.extract_patches(pcobj, patch_shape=ps, sample_offsets=oarg, as_single_array=stp["single"],
                                         order=order, mode=mode, cval=cval)
            elif op == "lm":
                res = im.extract_patches_around_landmarks("pc", patch_shape=ps, sample_offsets=oarg, as_single_array=stp["single"])
            elif op == "sampling_fn":
                res = extract_patches_by_sampling(im.pixels, carr(), ps, offsets=oarg, order=order, mode=mode, cval=cval)
            else:
                res = extract_patches_with_slice(im.pixels, carr(), ps, offsets=oarg, cval=cval)
            arguments_untouched(k, path)
            sig = "reuse.%s.%s" % (when, path)
            if op in ("method", "lm") and not stp["single"]:
                res = _to_array(res, n, no, ctx, sig)
                if res is None:
                    continue
            if not ctx.expect(isinstance(res, np.ndarray) and res.shape == (n, no, c["ch"], ph, pw), sig + ".shape",
                              lambda: "%s: got %r want %r" % (info, getattr(res, "shape", type(res).__name__), (n, no, c["ch"], ph, pw))):
                continue
            # judged against the centres / offsets the caller created, whatever happened in between
            want, known, alt, _ = ref_patches(px, centres, (ph, pw), offsets, order, mode, cval, ambiguous_ok=True)
            compare_patches(ctx, res, want, known, alt, c["dtype"], order, sig + (".order%d" % order if order else ""), info)
            if integer and order == 0 and mode == "constant":
                other = exact0.get(("sampling" if path == "slice" else "slice", cval))
                if other is not None:
                    ctx.event("slice and sampling compared: %s first" % ("sampling" if path == "slice" else "slice"))
                    ctx.expect(eq_exact(res, other), "reuse.slice_vs_sampling", lambda: "%s: %s" % (info, short(res, other)))
                exact0.setdefault((path, cval), res)
        elif op in SET_OPS:
            oi = stp["oi"]
            off = [0, 0] if oi is None else [int(v) for v in offsets[oi]]
            gi = 0 if oi is None else oi
            rs = np.random.RandomState(stp["gseed"])
            dt = np.dtype(c["dtype"])
            shp = (n, no, c["ch"], ph, pw)
            if stp["content"] == "source":
                # the source blocks themselves (at every offset): writing them back must restore the image
                offs = [[0, 0]] if offsets is None else offsets
                G = np.empty(shp, dtype=dt)
                for a in range(n):
                    for o in range(no):
                        r0, c0_ = tops[a][0] + int(offs[o][0]), tops[a][1] + int(offs[o][1])
                        G[a, o] = px[:, r0:r0 + ph, c0_:c0_ + pw]
            elif dt.kind == "b":
                G = rs.rand(*shp) > 0.5
            elif dt.kind in "iu":
                G = rs.randint(int(np.iinfo(dt).min), int(np.iinfo(dt).max) + 1, size=shp, dtype=np.int64).astype(dt)
            else:
                G = (rs.standard_normal(shp) * 50).astype(dt)
            want = px.copy()
            for a in range(n):
                r0, c0_ = tops[a][0] + off[0], tops[a][1] + off[1]
                want[:, r0:r0 + ph, c0_:c0_ + pw] = G[a, gi]
            Gc = G.copy()
            kw = {} if oi is None else {"offset": tuple(off), "offset_index": oi}
            if op == "set":
                got = im.set_patches(G, pcobj, **kw).pixels
            elif op == "set_lm":
                got = im.set_patches_around_landmarks(G, group="pc", **kw).pixels
            else:
                got = im.pixels.copy()  # the module function writes into the array it is handed
                set_patches_fn(G, got, carr(), np.array([off], dtype=np.intp), gi)
            arguments_untouched(k, path)
            ctx.expect(np.array_equal(G, Gc), "reuse.patches_argument_mutated", info)
            ctx.expect(eq_exact(got, want), "reuse.%s.set_patches%s" % (when, ".restore" if stp["content"] == "source" else ""),
                       lambda: "%s: %s" % (info, short(got, want)))
        else:
            if op == "crop":
                rmin, rmax = list(cmin0), list(cmax0)
            else:
                b = stp["boundary"]
                pts = np.array(centres, dtype=float)
                rmin, rmax = list(pts.min(axis=0) - b), list(pts.max(axis=0) + b)
            fmin = [int(math.floor(x)) for x in rmin]
            cmx = [int(math.ceil(x)) for x in rmax]
            bmin = [min(max(v, 0), s_) for v, s_ in zip(fmin, (H, W))]
            bmax = [min(max(v, 0), s_) for v, s_ in zip(cmx, (H, W))]
            due = all(h > l for l, h in zip(fmin, cmx)) and all(h > l for l, h in zip(bmin, bmax))
            out = None
            try:
                if op == "crop":
                    out = im.crop(cmin, cmax, constrain_to_boundary=True)
                elif op == "crop_pc":
                    out = im.crop_to_pointcloud(pcobj, boundary=b, constrain_to_boundary=True)
                else:
                    out = im.crop_to_landmarks("pc", boundary=b, constrain_to_boundary=True)
            except ValueError as e:
                # a degenerate / wholly outside request may be refused (judged in the crop clauses)
                ctx.expect(not due, "reuse.%s.crop_refused" % when, lambda: "%s: %s %s" % (info, type(e).__name__, e))
            arguments_untouched(k, path)
            if not due:
                ctx.event("crop request degenerate / outside: only the arguments are checked")
                continue
            if out is None:
                continue
            wantb = px[:, bmin[0]:bmax[0], bmin[1]:bmax[1]]
            ctx.expect(eq_exact(out.pixels, wantb), "reuse.%s.crop_block" % when, lambda: "%s: %s" % (info, short(out.pixels, wantb)))
            if holder == "lm":
                gotp = out.landmarks["pc"].points
                wantp = np.array(centres, dtype=float) - np.array(bmin, dtype=float)
                ctx.expect(gotp.shape == wantp.shape and np.array_equal(gotp, wantp), "reuse.%s.crop_landmarks" % when,
                           lambda: "%s: %s" % (info, short(gotp, wantp)))



CLAUSES = [
    Clause("crop", c_crop, lambda: s_crop(["crop"]), quick=2600, thorough=70000, nt_floor=0.4,
           rule="Image.crop on 2-D..5-D images of every class and dtype; per axis and side inside / border / outside by 1..5 / wholly outside / degenerate, integer or k/8 fractional; constrain on/off/default; three-way reference (block, ImageBoundaryError, ValueError); non-trivial: crosses a border or fractional"),
    Clause("crop_to", c_crop, lambda: s_crop(["pointcloud", "landmarks", "true_mask", "pointcloud_prop", "landmarks_prop"]), quick=2200, thorough=40000, nt_floor=0.4,
           rule="the same reference through crop_to_pointcloud / crop_to_landmarks / crop_to_true_mask with boundary 0..3 and through crop_to_pointcloud_proportion / crop_to_landmarks_proportion (boundary = proportion k/8 x smallest or largest per-axis range of the points, minimum on / off / defaulted); the landmark forms with the group named or, when it is the only group, omitted"),
    Clause("patches_ref", c_patches_ref, s_patches_ref, quick=2200, thorough=50000, nt_floor=0.4,
           rule="patch extraction (method, around landmarks with the group named or defaulted, both module functions) against a Python-loop reference: order 0 nearest, order 1 bilinear, orders 2..5 the pixel itself at integer in-image positions, cval / edge / (order 0, integer positions) mirrored pixel outside; non-trivial: partly outside or channels != 3"),
    Clause("paths", c_paths, s_paths, quick=1300, thorough=30000, nt_floor=0.4,
           rule="integer centres and offsets: slicing path == sampling path (order 0, constant) == loop reference, element-wise, including patches partly or wholly outside"),
    Clause("writeback", c_writeback, s_writeback, quick=1300, thorough=30000, nt_floor=0.4,
           rule="interior non-overlapping patch grids: extract->set restores, set generated content == loop reference, set->extract returns it, list and array forms agree, receiver untouched; offset / offset_index passed both, singly (missing offset = (0, 0), missing index = patches[:, 0]) or not at all; methods, around-landmarks (group given or defaulted) and the module function; non-trivial: >= 2 patches, an offset or a non-square patch"),
    Clause("reuse", c_reuse, s_reuse, quick=1800, thorough=40000, nt_floor=0.4,
           rule="the same argument objects (a PointCloud built over a copy of / directly on the caller's float64 / float32 / int centres array, a landmark group, or the bare array; the patch_shape and sample_offsets objects; crop min / max arrays) handed to a sequence of 2..4 calls drawn from extract_patches (slicing and resampling path, order 0..3, four modes), extract_patches_around_landmarks, the two module functions, set_patches / set_patches_around_landmarks / the module function (generated content, or the source blocks: restore), crop_to_pointcloud / crop_to_landmarks / crop: every call is judged by the loop / slicing references against the values the caller created, every argument object (and the image) must be unchanged after every call, and at integer positions order-0 constant results of the two paths must be identical in whichever order they ran; non-trivial: the sequence mixes at least two kinds of call (slice / sampling / set / crop)"),
    Clause("bounds", c_bounds, s_bounds, quick=900, thorough=20000, nt_floor=0.3,
           rule="the helpers the crops are built on, against np.nonzero / np.clip: BooleanImage.bounds_true / bounds_false (2-D..4-D masks, boundary -2..5 or defaulted, constrain_to_bounds on / off / defaulted, standalone and as MaskedImage.mask), Image.constrain_points_to_bounds (clip to [0, shape], argument untouched), constrain_landmarks_to_bounds (clip to [0, shape-1]); non-trivial: the true / false extent plus boundary leaves the image (so clipping, or not clipping, is observable)"),
]
