"""C18 - features agree on arrays and images and keep annotations attached.

Clauses
  convention : size-preserving features (everything ``menpo.feature`` exports except daisy) -
               f(image).pixels == f(image.pixels) exactly, input untouched, no shared buffers,
               same image kind, mask and landmarks carried over unchanged.
  daisy      : the size-changing feature - same three statements, with the landmarks scaled by
               new_shape/old_shape per axis and the mask nearest-resized to the new shape.
  normalisers: values of normalize / normalize_std / normalize_norm / normalize_var against an
               independent float64 reference; unit std / unit norm; idempotence.
  zero_scale : constant images / constant channels / constant masked region: ValueError when
               refusing is requested, otherwise warning + finite result, zero-scale part only centred.
  compose    : compositions of two features (at most one of them daisy).
  (convention, daisy, convention_3d also: results of repeated calls are independent - earlier results unchanged by
   later calls on other same-shaped inputs, no memory shared between results, no write-through.)
  convention_3d : the convention clause on 3-D images for the features documented for (C, X, ..., Z) arrays.
  winit      : the window-iterating decorator: mask sampled at the window centres, landmarks moved to the window grid.
  resample   : a feature that stretches one axis and shrinks the other: mask resized, landmarks rescaled per axis.
"""
import math
import warnings
from fractions import Fraction

import numpy as np
from hypothesis import strategies as st

from vlib.runner import Clause
from vlib import gen, objs, digest
from vlib.tol import close, describe, maxdiff

import menpo.feature as mf
from menpo.feature.base import ndfeature as _ndfeature, winitfeature as _winitfeature
from menpo.image import Image, MaskedImage

PROPERTY = "C18"
RULE = (
    "features are discovered from the callables menpo.feature exports (decorators excluded) and driven "
    "with Hypothesis-drawn keyword arguments; images are Image / MaskedImage (mask all-true, random, "
    "blob, single pixel, empty), 1..4 channels, float32/float64, 2-D (3-D, sides 2..7, in convention_3d), axis "
    "lengths from the feature's minimum to 40, 0..3 landmark groups (PointCloud / PointUndirectedGraph / "
    "LabelledPointUndirectedGraph); daisy with rings/radius given directly or through sigmas / ring_radii (also "
    "contradicting rings/radius: the documented overrides); the two decorator mechanisms no available feature uses "
    "(window centres; per-axis size change in both directions) are driven through features defined by the check; "
    "pixel content from RandomState(drawn seed) or the identity-coordinate fill, for the normaliser "
    "clauses shifted/scaled by drawn dyadic offset/gain and with drawn constant channels (dyadic k/8 or arbitrary "
    "decimal values); a case is "
    "non-trivial when the image carries a landmark group and (if masked) a partial mask (convention, "
    "daisy, compose), when the data mean is non-zero (normalisers), when a zero scale really occurs "
    "(zero_scale); distinct = distinct canonical-JSON digest of the case"
)
ASSUMPTIONS = [
    "igo, double_igo, es and daisy are 2-D features; gradient, gaussian_filter, no_op, sum_channels and the normalisers "
    "are documented for (C, X, Y, ..., Z) arrays and are also run on 3-D images (convention_3d)",
    "gradient reference: per axis, per channel, (a[i+1]-a[i-1])/2 inside and one-sided differences at the ends, "
    "channels ordered axis-major as documented; tolerance 8*eps(dtype)*max(1,max|x|)",
    "an empty (all-false) mask is a legal mask for every @ndfeature; plain `normalize` (mask-aware) has no data "
    "over it and is replaced by normalize_std there",
    "winitfeature contract (menpo/feature/base.py): wrapped function returns (feature, centres (H, W, 2) integer "
    "array); image form: mask = input mask sampled at the centres, landmarks = (landmarks - first centre) / step "
    "per axis (step read off the first two centres, hence grids of at least 2x2 centres); array form: the feature "
    "array alone. Driven with a feature defined in this module (pixel at each centre) through the public decorator",
    "daisy ring_radii are increasing integers (they become slice bounds); sigmas and ring_radii given together are "
    "consistent (len(sigmas) - 1 == len(ring_radii)); effective rings/radius follow the documented overrides",
    "feature(image) is compared with feature(copy of image.pixels): both run the same code, so equality is exact "
    "(np.array_equal, NaN==NaN) and dtypes must agree",
    "normalize (the @imgfeature one) on a MaskedImage normalises the masked pixels only (documented through "
    "as_vector/from_vector); its array form is therefore the (C, n_true, 1) array of masked pixels (compared within the "
    "normaliser tolerance, as the two sides sum in different memory order), and pixels outside the mask are not asserted. normalize_std/_norm/_var are @ndfeature: they act on all pixels, mask ignored",
    "the lazily created empty LandmarkManager is forced (image.landmarks touched) before the input digest is "
    "taken: creating it is not an observable modification",
    "mask resize reference: output pixel i samples input position i*(old-1)/(new-1) rounded to nearest; exact .5 "
    "ties accept either neighbour; an output axis of length 1 accepts any input pixel of that axis",
    "daisy sizes start at 2*radius+1 (one output pixel; 2*radius+step+1 inside compositions, whose other stage "
    "needs 2 pixels per axis); at most one daisy per composition",
    "normaliser tolerances: |got-want| <= 256*eps(dtype)*(max|x|/scale + max|want|*(1+max|x|/max|x-mean|)); "
    "idempotence: second application changes nothing within max(1e-12, 16*eps(dtype)*(1+max|x|/max|x-mean|))*max|out| "
    "(the first pass leaves a mean residual of order eps*max|x|, which the second pass removes)",
    "zero-scale data are constant channels / images / masked regions with dyadic (k/8) or arbitrary decimal values. "
    "Dyadic constants are centred to exactly 0, so every scale statistic is exactly 0.0. For an arbitrary constant "
    "the float mean of n copies may be a few ulps off, the centred data are then a rounding-sized constant: a "
    "statistic that removes the mean (std, var) is still exactly 0 and the channel must be refused / skipped like "
    "any zero-scale channel; for norm / max-abs / mean-abs the tree treats such a channel as zero scale or as a "
    "rounding-sized scale depending on value and size, and only what holds for every constant is asserted there "
    "(ValueError only when refusal was requested, finite output, other channels normalised, input untouched). "
    "Nearly-constant (not exactly constant) data are outside the clause",
    "optional vlfeat features (dsift, ...) are absent in this environment; discovery lists any exported feature "
    "the module has no driver for under coverage.undriven_features",
]

_DECORATORS = ("ndfeature", "imgfeature", "winitfeature")


def discover():
    out = []
    for n in sorted(dir(mf)):
        if n.startswith("_") or n in _DECORATORS:
            continue
        o = getattr(mf, n)
        if callable(o) and not isinstance(o, type):
            out.append(n)
    return out


DISCOVERED = discover()
NORMALISERS = ["normalize", "normalize_std", "normalize_norm", "normalize_var"]
DRIVEN = [
    "gradient", "gaussian_filter", "igo", "double_igo", "es", "no_op", "sum_channels", "daisy",
] + NORMALISERS
AVAILABLE = [n for n in DRIVEN if n in DISCOVERED]


def evidence_extra(tier):
    return {
        "discovered_features": DISCOVERED,
        "driven_features": AVAILABLE,
        "undriven_features": [n for n in DISCOVERED if n not in DRIVEN],
    }


# ==============================================================================================
# custom scale functions for `normalize` (menpo side) and the reference statistics


def _sf_maxabs(x, axis=None):
    return np.atleast_1d(np.max(np.abs(x), axis=axis))


def _sf_meanabs(x, axis=None):
    return np.atleast_1d(np.mean(np.abs(x), axis=axis))


def _sf_std(x, axis=None):
    return np.atleast_1d(np.std(x, axis=axis))


SCALE_FUNCS = {"maxabs": _sf_maxabs, "meanabs": _sf_meanabs, "std": _sf_std}


def scale_kind(feat):
    """Which statistic the feature divides by: none/std/norm/var/maxabs/meanabs."""
    n = feat["name"]
    if n == "normalize_std":
        return "std"
    if n == "normalize_norm":
        return "norm"
    if n == "normalize_var":
        return "var"
    return feat["kw"].get("scale_func") or "none"


def _ref_stat(row, kind):
    """row: 1-D float64 of already centred values."""
    n = len(row)
    if kind == "none":
        return 1.0
    if kind == "std":
        return math.sqrt(math.fsum(v * v for v in row) / n)
    if kind == "var":
        return math.fsum(v * v for v in row) / n
    if kind == "norm":
        return math.sqrt(math.fsum(v * v for v in row))
    if kind == "maxabs":
        return max(abs(v) for v in row)
    if kind == "meanabs":
        return math.fsum(abs(v) for v in row) / n
    raise ValueError(kind)


def ref_normalise(X, kind, mode):
    """X: (C, N) float64 domain. Returns centred (C,N), scales (C,) (the single scale repeated in
    mode 'all'), expected (C,N) with zero-scale rows only centred."""
    X = np.asarray(X, dtype=np.float64)
    C, N = X.shape
    centred = np.empty_like(X)
    scales = np.empty(C)
    # the mean of a constant data set is that constant, exactly (no rounding in the model)
    if mode == "all":
        m = float(X.flat[0]) if np.all(X == X.flat[0]) else math.fsum(X.ravel().tolist()) / X.size
        centred[:] = X - m
        scales[:] = _ref_stat(centred.ravel().tolist(), kind)
    else:
        for c in range(C):
            m = float(X[c, 0]) if np.all(X[c] == X[c, 0]) else math.fsum(X[c].tolist()) / N
            centred[c] = X[c] - m
            scales[c] = _ref_stat(centred[c].tolist(), kind)
    expected = centred.copy()
    for c in range(C):
        if scales[c] != 0:
            expected[c] = centred[c] / scales[c]
    return centred, scales, expected


# ==============================================================================================
# generators (plain data)

LM_NAMES = ["g", "PTS", "left eye", "ü"]
LM_KINDS = ["PointCloud", "PointUndirectedGraph", "LabelledPointUndirectedGraph"]


@st.composite
def s_image(draw, hmin=2, wmin=2, smax=40, masks=("all", "random", "blob", "single", "none"), fills=("random", "coords"),
            min_groups=0, exact=(None, None), ndim=2):
    def side(lo, k=None):
        if k is not None and exact[k] is not None:
            return exact[k]
        lo = min(lo, smax)
        return draw(st.one_of(st.integers(lo, min(smax, lo + 6)), st.integers(lo, smax)))

    c = {
        "cls": draw(st.sampled_from(["Image", "MaskedImage"])),
        "shape": [side(hmin, 0), side(wmin, 1)] + [side(2) for _ in range(ndim - 2)],
        "seed": draw(st.integers(0, 2**16)),
        "ch": draw(st.integers(1, 4)),
        "dtype": draw(st.sampled_from(["float64", "float32"])),
        "fill": draw(st.sampled_from(list(fills))),
    }
    if c["cls"] == "MaskedImage":
        c["mask"] = draw(st.sampled_from(list(masks)))
    k = draw(st.integers(min_groups, 3))
    names = draw(st.lists(st.sampled_from(LM_NAMES), min_size=k, max_size=k, unique=True))
    lms = []
    for nm in names:
        n = draw(st.integers(1, 5))
        fr = draw(st.lists(st.lists(gen.q(0.1, 0.9, 256), min_size=ndim, max_size=ndim), min_size=n, max_size=n))
        # a group's coordinates may be integer-typed (clicked pixel positions, box corners): rounded, stored as int64
        lms.append([nm, {"kind": draw(st.sampled_from(LM_KINDS)), "fr": fr, "int": draw(st.sampled_from([False, False, True]))}])
    c["lms"] = lms
    return c


def s_norm_kw(allow_error=True):
    return st.fixed_dictionaries(
        {},
        optional={
            "mode": st.sampled_from(["all", "per_channel"]),
            "error_on_divide_by_zero": st.booleans() if allow_error else st.just(False),
        },
    )


@st.composite
def s_normaliser(draw, allow_error=True, force_kw=False):
    name = draw(st.sampled_from([n for n in NORMALISERS if n in AVAILABLE]))
    if force_kw:
        kw = {
            "mode": draw(st.sampled_from(["all", "per_channel"])),
            "error_on_divide_by_zero": draw(st.booleans()) if allow_error else False,
        }
    else:
        kw = dict(draw(s_norm_kw(allow_error)))
        if not allow_error:
            kw["error_on_divide_by_zero"] = False
    if name == "normalize":
        kw["scale_func"] = draw(st.sampled_from([None, None, "maxabs", "meanabs", "std"]))
    return {"name": name, "kw": kw}


ND_PLAIN = ("gradient", "gaussian_filter", "no_op", "sum_channels")  # documented for (C, X, Y, ..., Z) arrays
PLAIN_2D = ("gradient", "gaussian_filter", "igo", "double_igo", "es", "no_op", "sum_channels")


@st.composite
def s_plain_feature(draw, ndim=2):
    """size-preserving, non-normalising features (igo, double_igo and es are 2-D only)."""
    name = draw(st.sampled_from([n for n in (PLAIN_2D if ndim == 2 else ND_PLAIN) if n in AVAILABLE]))
    kw = {}
    if name == "gaussian_filter":
        if draw(st.booleans()):
            kw["sigma"] = draw(gen.q(0.25, 4))
        else:
            kw["sigma"] = [draw(gen.q(0.25, 4)) for _ in range(ndim)]
    elif name == "igo":
        if draw(st.booleans()):
            kw["double_angles"] = draw(st.booleans())
    elif name == "sum_channels":
        if draw(st.booleans()):
            kw["channels"] = draw(st.lists(st.integers(0, 3), min_size=1, max_size=4))
        else:
            kw["channels"] = None
    return {"name": name, "kw": kw}


@st.composite
def s_daisy_feature(draw):
    kw = {
        "step": draw(st.integers(1, 4)),
        "radius": draw(st.integers(2, 6)),
        "rings": draw(st.integers(1, 3)),
        "histograms": draw(st.integers(1, 4)),
        "orientations": draw(st.integers(2, 8)),
        "normalization": draw(st.sampled_from(["l1", "l2", "daisy", None])),
    }
    how = draw(st.sampled_from(["plain", "plain", "sigmas", "sigmas_override", "ring_radii", "ring_radii", "both"]))
    n_rings = kw["rings"]
    if how in ("sigmas_override", "ring_radii", "both"):
        # documented overrides: rings = len(sigmas) - 1; rings = len(ring_radii) and radius = ring_radii[-1] - whatever
        # `rings` / `radius` say
        n_rings = draw(st.integers(1, 3))
    if how in ("sigmas", "sigmas_override", "both"):
        # explicit smoothing scales, one per ring plus the centre
        kw["sigmas"] = draw(st.lists(gen.q(0.5, 3.0, 8), min_size=n_rings + 1, max_size=n_rings + 1))
    if how in ("ring_radii", "both"):
        # increasing integer radii, the outermost one between 2 and 6 like `radius`
        incs = draw(st.lists(st.integers(1, 2), min_size=n_rings, max_size=n_rings))
        rr = [sum(incs[: i + 1]) for i in range(n_rings)]
        if rr[-1] < 2:
            rr[-1] = 2
        kw["ring_radii"] = rr
    return {"name": "daisy", "kw": kw}


def daisy_effective(kw):
    """(radius, rings) after the documented overrides."""
    radius, rings = kw["radius"], kw["rings"]
    if kw.get("ring_radii") is not None:
        rings, radius = len(kw["ring_radii"]), kw["ring_radii"][-1]
    if kw.get("sigmas") is not None:
        rings = len(kw["sigmas"]) - 1
    return radius, rings


def s_daisy_sizes(draw, kw, smax=40, min_out=1):
    """minimum side so that the output has at least min_out (1 or 2) pixels; usually at least 2."""
    r, s = daisy_effective(kw)[0], kw["step"]
    los = [2 * r + s + 1, 2 * r + s + 1, 2 * r + 2 * s + 1]
    if min_out == 1:
        los.append(2 * r + 1)
    lo = draw(st.sampled_from(los))
    return min(lo, smax)


# ==============================================================================================
# builders


def build_image(c):
    """Fresh image from the case; landmark manager materialised (see ASSUMPTIONS)."""
    if c.get("mask") == "none":
        # the empty mask (no pixel selected) is a legal mask: built as all-true, then cleared
        im = objs.build_image(dict(c, mask="all"))
        im.mask.pixels[...] = False
    else:
        im = objs.build_image(c)
    px = im.pixels
    if "affine" in c:
        off, gain = c["affine"]
        px[...] = (off + gain * px.astype(np.float64)).astype(px.dtype)
    for nm, spec in c.get("lms", []):
        if spec.get("int"):
            g = im.landmarks[nm]
            g.points = np.round(g.points).astype(np.int64)
    for k, v in c.get("const_channels", []):
        if k < px.shape[0]:
            px[k] = v
    if c.get("const_in_mask") is not None and hasattr(im, "mask"):
        for k in range(px.shape[0]):
            px[k][im.mask.mask] = c["const_in_mask"]
    return materialise(im)


def materialise(im):
    """Force the lazily created (empty) landmark managers so that their creation is not seen as a change."""
    im.landmarks  # noqa: B018
    if hasattr(im, "mask"):
        im.mask.landmarks  # noqa: B018
    return im


def feature_callable(feat, n_channels):
    f = getattr(mf, feat["name"])
    kw = dict(feat["kw"])
    if feat["name"] == "normalize" and kw.get("scale_func") is not None:
        kw["scale_func"] = SCALE_FUNCS[kw["scale_func"]]
    if feat["name"] == "sum_channels" and kw.get("channels") is not None:
        kw["channels"] = sorted(set(k % n_channels for k in kw["channels"]))
    import copy as _copy

    def call(x):
        return f(x, **kw)

    # the very same option objects (lists included) are handed to every call made through this callable
    call.kw, call.kw0 = kw, _copy.deepcopy({k: v for k, v in kw.items() if not callable(v)})
    return call


def check_options_unchanged(ctx, f, tag):
    """Option values passed to a feature are inputs too: a list given as sigma / sigmas / ring_radii / channels must
    come back as it went in."""
    now = {k: v for k, v in f.kw.items() if not callable(v)}
    ctx.expect(now == f.kw0, "options_argument_modified." + tag, lambda: "passed %r, afterwards %r" % (f.kw0, now))


def feat_label(feat):
    n = feat["name"]
    if n == "normalize":
        return "normalize[%s]" % (feat["kw"].get("scale_func") or "none")
    return n


# ==============================================================================================
# reference: nearest resize of a mask


def _axis_candidates(new, old):
    out = []
    for i in range(new):
        if new == 1:
            out.append(tuple(range(old)))
            continue
        t = Fraction(i * (old - 1), new - 1)
        lo = t.numerator // t.denominator
        fr = t - lo
        if abs(fr - Fraction(1, 2)) < Fraction(1, 10**6):
            out.append((lo, lo + 1))
        elif fr < Fraction(1, 2):
            out.append((lo,))
        else:
            out.append((min(lo + 1, old - 1),))
    return out


def mask_resize_mismatches(in_mask, out_mask):
    """Number of output pixels that are not the nearest input pixel (ties tolerated)."""
    old, new = in_mask.shape, out_mask.shape
    cr, cc = _axis_candidates(new[0], old[0]), _axis_candidates(new[1], old[1])
    bad = []
    for i in range(new[0]):
        for j in range(new[1]):
            ok = False
            for a in cr[i]:
                for b in cc[j]:
                    if bool(in_mask[a, b]) == bool(out_mask[i, j]):
                        ok = True
            if not ok:
                bad.append((i, j))
    return bad


# ==============================================================================================
# shared checks


def check_unchanged_and_unshared(ctx, im, d0, out, tag):
    d1 = digest.digest(im)
    if digest.parameter_mutation(d0, d1) is not None:
        ctx.fail("input_modified." + tag, lambda: "first difference: %r" % (digest.parameter_mutation(d0, d1),))
    sh = digest.shared_buffers(im, out)
    ctx.expect(not sh, "output_shares_buffer_with_input." + tag, lambda: repr(sh[:4]))


def check_kind(ctx, im, out, tag):
    want = MaskedImage if isinstance(im, MaskedImage) else Image
    return ctx.expect(type(out) is want, "kind." + tag,
                      lambda: "%s in -> %s out" % (type(im).__name__, type(out).__name__))


def check_landmarks(ctx, im, out, factor, tag, offset=None):
    """factor None: landmarks must be equal to the input's; else per-axis scale factors (applied after subtracting
    the per-axis offset, if one is given)."""
    gin = list(im.landmarks.group_labels)
    gout = list(out.landmarks.group_labels)
    if not ctx.expect(gin == gout, "landmarks.groups." + tag, lambda: "in %r out %r" % (gin, gout)):
        return
    for g in gin:
        a, b = im.landmarks[g], out.landmarks[g]
        if not ctx.expect(type(a) is type(b), "landmarks.class." + tag,
                          lambda: "%s -> %s" % (type(a).__name__, type(b).__name__)):
            continue
        va, vb = digest.public_view(a), digest.public_view(b)
        va.pop("points"), vb.pop("points")
        sd = digest.state_diff(va, vb, memo_tolerant=True)
        ctx.expect(sd is None, "landmarks.structure." + tag, lambda: "group %r: %s" % (g, sd))
        if factor is None:
            ctx.expect(np.array_equal(a.points, b.points), "landmarks.points_changed." + tag,
                       lambda: "group %r\n%s" % (g, describe(b.points, a.points)))
        else:
            want = a.points.astype(np.float64)
            if offset is not None:
                want = want - np.asarray(offset, dtype=float)[None, :]
            want = want * np.asarray(factor, dtype=float)[None, :]
            ctx.expect(close(b.points, want, rtol=1e-12, atol=1e-12), "landmarks.points_not_rescaled." + tag,
                       lambda: "group %r factor %r offset %r\n%s" % (g, list(factor), offset, describe(b.points, want)))


def check_mask(ctx, im, out, resized, tag):
    if not isinstance(im, MaskedImage) or not isinstance(out, MaskedImage):
        return
    mi, mo = im.mask.mask, out.mask.mask
    if not ctx.expect(mo.dtype == np.bool_ and mo.shape == out.pixels.shape[1:], "mask.shape." + tag,
                      lambda: "mask %s %s for pixels %s" % (mo.dtype, mo.shape, out.pixels.shape)):
        return
    if not resized:
        ctx.expect(np.array_equal(mi, mo), "mask.changed." + tag,
                   lambda: "%d of %d mask pixels differ" % (int((mi != mo).sum()), mi.size))
    else:
        bad = mask_resize_mismatches(mi, mo)
        ctx.expect(not bad, "mask.not_resized." + tag,
                   lambda: "in %s (%d true) -> out %s (%d true): %d pixels are not the nearest input pixel, first %r"
                   % (mi.shape, int(mi.sum()), mo.shape, int(mo.sum()), len(bad), bad[:3]))


def same_values(a, b):
    return a.shape == b.shape and np.array_equal(a, b, equal_nan=True)


def nt_annotations(c):
    return bool(c["lms"]) and (c["cls"] == "Image" or c.get("mask") in ("random", "blob", "single", "none"))


def class_events(ctx, c):
    ctx.event("cls=%s%s" % (c["cls"], "/" + c["mask"] if c["cls"] == "MaskedImage" else ""))
    ctx.event("dtype=%s ch=%d" % (c["dtype"], c["ch"]))
    ctx.event("groups=%d" % len(c["lms"]))


def is_masked_normalize(feat, c):
    return feat["name"] == "normalize" and c["cls"] == "MaskedImage" and c.get("mask") != "all"


def call_both(ctx, feat, c, im, tag):
    """Run the feature on the image and on the array form. Returns (out_image, out_array, array_form)
    or None when both conventions refuse a zero scale with ValueError (legitimate for normalisers)."""
    f = feature_callable(feat, c["ch"])
    masked_norm = is_masked_normalize(feat, c)
    if masked_norm:
        # the masked data as an image array of shape (C, n_true, 1)
        arr = np.ascontiguousarray(im.as_vector(keep_channels=True)[:, :, None])
    else:
        arr = im.pixels.copy()
    arr0 = arr.copy()
    refusable = feat["name"] in NORMALISERS and feat["kw"].get("error_on_divide_by_zero", True)
    err_i = err_a = None
    out = out_arr = None
    try:
        out = f(im)
    except ValueError as e:
        if not refusable:
            raise
        err_i = e
    try:
        out_arr = f(arr)
    except ValueError as e:
        if not refusable:
            raise
        err_a = e
    if err_i is not None or err_a is not None:
        ctx.event("refused zero scale")
        ctx.expect(err_i is not None and err_a is not None, "conventions_disagree_on_refusal." + tag,
                   lambda: "image: %r, array: %r" % (err_i, err_a))
        return None
    check_options_unchanged(ctx, f, tag)
    ctx.expect(isinstance(out_arr, np.ndarray), "array_in_not_array_out." + tag, lambda: type(out_arr).__name__)
    ctx.expect(arr.dtype == arr0.dtype and np.array_equal(arr, arr0, equal_nan=True), "input_array_modified." + tag,
               lambda: describe(arr, arr0))
    if isinstance(out_arr, np.ndarray):
        ctx.expect(not np.shares_memory(out_arr, arr), "output_array_shares_input_array." + tag, "")
    return out, out_arr, arr0


def check_results_independent(ctx, feat, c, im, out, out_arr, arr0, tag):
    """Every call of a feature hands out a result of its own. After the feature has run on the image and on the array
    form, it is run again on other inputs of the same shape (array, then image: same values, first spatial axis
    reversed); then (1) the earlier results are bit-identical to the copies saved before the later calls, (2) no two
    results share memory, nor does a later result with its input (every exported feature, no_op included, is documented
    as returning new data: "a copy of the pixels passed in"), (3) overwriting one result leaves the others as they were."""
    if not isinstance(out_arr, np.ndarray) or not hasattr(out, "pixels"):
        return
    f = feature_callable(feat, c["ch"])
    refusable = feat["name"] in NORMALISERS and feat["kw"].get("error_on_divide_by_zero", True)
    rev = (slice(None), slice(None, None, -1))
    arr_b = np.ascontiguousarray(arr0[rev]).copy()
    im_b = im.copy()
    im_b.pixels[...] = im.pixels[rev]
    arr_b0 = arr_b.copy()
    saved = [("f(image).pixels", out.pixels, out.pixels.copy()), ("f(array)", out_arr, out_arr.copy())]
    try:
        r3 = f(arr_b)
        if isinstance(r3, np.ndarray):
            saved.append(("f(second array)", r3, r3.copy()))
        r4 = f(im_b)
    except ValueError:
        if not refusable:
            raise
        ctx.event("independence: second input refused (zero scale)")
        return
    ctx.event("independence: checked")
    if not isinstance(r3, np.ndarray) or not hasattr(r4, "pixels"):
        return  # reported by the convention checks of the first pair
    for name, a, a0 in saved:
        ctx.expect(a.dtype == a0.dtype and same_values(a, a0), "feature.earlier_result_changed." + tag,
                   lambda name=name, a=a, a0=a0: "%s is no longer what it was before the feature ran on other inputs of the same shape\n%s"
                   % (name, describe(a, a0)))
    results = [(n, a) for n, a, _ in saved] + [("f(second image).pixels", r4.pixels)]
    shared = [(results[i][0], results[j][0]) for i in range(len(results)) for j in range(i + 1, len(results))
              if np.shares_memory(results[i][1], results[j][1])]
    ctx.expect(not shared, "feature.results_share_memory." + tag, lambda: repr(shared))
    ctx.expect(not np.shares_memory(r3, arr_b) and not np.shares_memory(r4.pixels, im_b.pixels),
               "feature.result_shares_memory_with_input." + tag, "second pair of calls")
    ctx.expect(np.array_equal(arr_b, arr_b0, equal_nan=True), "input_array_modified." + tag, "second array")
    if isinstance(out, MaskedImage) and isinstance(r4, MaskedImage):
        ctx.expect(not np.shares_memory(out.mask.pixels, r4.mask.pixels), "feature.results_share_memory." + tag, "masks")
    # (3) overwrite one result (the second array's), look at the others
    others = [(n, a, a.copy()) for n, a in results if a is not r3]
    r3[...] = 7
    for name, a, a0 in others:
        ctx.expect(same_values(a, a0), "feature.result_write_through." + tag,
                   lambda name=name, a=a, a0=a0: "overwriting f(second array) changed %s\n%s" % (name, describe(a, a0)))


def check_pixels_agree(ctx, feat, c, im, out, out_arr, tag):
    if is_masked_normalize(feat, c) and isinstance(out, MaskedImage):
        # not the same memory layout on both sides (boolean indexing), so summation order may differ: stated tolerance
        got = out.as_vector(keep_channels=True)[:, :, None]
        X = im.as_vector(keep_channels=True).astype(np.float64)
        centred, scales, expected = ref_normalise(X, scale_kind(feat), feat["kw"].get("mode", "all"))
        tol = norm_tolerance(im.pixels.dtype, X, centred, scales, expected)
        ctx.expect(got.shape == out_arr.shape and maxdiff(got, out_arr) <= tol, "image_vs_array.values." + tag,
                   lambda: "f(masked image) over its mask vs f(array of the masked pixels), tol %.3e\n%s"
                   % (tol, describe(got, out_arr)))
    else:
        got = out.pixels
        ctx.expect(same_values(got, out_arr), "image_vs_array.values." + tag,
                   lambda: "f(image).pixels vs f(image.pixels)\n%s" % describe(got, out_arr))
    ctx.expect(got.dtype == out_arr.dtype, "image_vs_array.dtype." + tag,
               lambda: "%s vs %s" % (got.dtype, out_arr.dtype))


# ==============================================================================================
# 1. convention: size-preserving features


def unmask_aware(feat, img):
    """plain `normalize` is mask-aware; over an EMPTY mask it has no data at all (outside the property): the
    all-pixels normaliser is used instead."""
    if img["cls"] == "MaskedImage" and img.get("mask") == "none" and feat["name"] == "normalize":
        feat["name"] = "normalize_std"
        feat["kw"].pop("scale_func", None)


def s_convention(ndim=2, smax=40):
    @st.composite
    def s(draw):
        feat = draw(st.one_of(s_plain_feature(ndim), s_plain_feature(ndim), s_normaliser()))
        img = draw(s_image(smax=smax, ndim=ndim))
        unmask_aware(feat, img)
        return {"feat": feat, "img": img}

    return s()


def ref_gradient(px):
    """documented layout: for every axis in turn, the derivative of every channel along that axis (second order
    central differences inside, one-sided first order differences at the two ends)."""
    C, nd = px.shape[0], px.ndim - 1
    out = np.empty((C * nd,) + px.shape[1:], dtype=np.result_type(px.dtype, np.float32))
    for d in range(nd):
        for c in range(C):
            a = np.moveaxis(px[c], d, 0)
            g = np.empty(a.shape, dtype=out.dtype)
            g[1:-1] = (a[2:] - a[:-2]) / 2.0
            g[0] = a[1] - a[0]
            g[-1] = a[-1] - a[-2]
            out[d * C + c] = np.moveaxis(g, 0, d)
    return out


def c_convention(case, ctx):
    feat, c = case["feat"], case["img"]
    tag = feat_label(feat)
    ctx.event("feature=" + tag)
    class_events(ctx, c)
    ctx.nontrivial(nt_annotations(c))
    im = build_image(c)
    d0 = digest.digest(im)
    r = call_both(ctx, feat, c, im, tag)
    if r is None:
        check_unchanged_and_unshared(ctx, im, d0, None, tag)
        return
    out, out_arr, arr0 = r
    check_unchanged_and_unshared(ctx, im, d0, out, tag)
    if not check_kind(ctx, im, out, tag):
        return
    check_pixels_agree(ctx, feat, c, im, out, out_arr, tag)
    check_results_independent(ctx, feat, c, im, out, out_arr, arr0, tag)
    check_unchanged_and_unshared(ctx, im, d0, out, tag)
    if not ctx.expect(out.shape == im.shape, "size_preserving_feature_changed_size." + tag,
                      lambda: "%r -> %r" % (im.shape, out.shape)):
        return
    check_mask(ctx, im, out, False, tag)
    check_landmarks(ctx, im, out, None, tag)
    if feat["name"] == "no_op":
        # documented: "does nothing but return a copy of the pixels passed in"
        ctx.expect(same_values(out.pixels, im.pixels) and out.pixels.dtype == im.pixels.dtype, "no_op.not_identity", "")
    if feat["name"] == "gradient":
        # documented channel layout and difference scheme, any number of image dimensions
        want = ref_gradient(im.pixels)
        eps = float(np.finfo(im.pixels.dtype).eps)
        ctx.expect(out.pixels.shape == want.shape and maxdiff(out.pixels, want) <= 8 * eps * max(1.0, float(np.abs(im.pixels).max())),
                   "gradient.documented_layout.%dd" % im.n_dims,
                   lambda: "pixels %r\n%s" % (im.pixels.shape, describe(out.pixels, want)))
    if feat["name"] == "double_igo":
        # documented: IGO with double angles - the same feature under another name, both conventions
        twin = feature_callable({"name": "igo", "kw": {"double_angles": True}}, c["ch"])
        ctx.expect(same_values(out.pixels, twin(im).pixels) and same_values(out_arr, twin(im.pixels.copy())),
                   "double_igo.differs_from_igo_double_angles", lambda: describe(out.pixels, twin(im).pixels))


# ==============================================================================================
# 2. daisy: the size-changing feature


def s_daisy():
    @st.composite
    def s(draw):
        feat = draw(s_daisy_feature())
        hmin = s_daisy_sizes(draw, feat["kw"])
        wmin = s_daisy_sizes(draw, feat["kw"])
        # sides n whose output size `out` is float-fragile: (out / n) * n != out in double precision, so code that
        # goes through the scale factor instead of the target size is off by one there (rare: 25, 35, 50, 51 ...)
        fr = fragile_sides(feat["kw"])
        exact = [None, None]
        if fr:
            for k in (0, 1):
                if draw(st.integers(0, 3)) == 0:
                    exact[k] = draw(st.sampled_from(fr))
        img = draw(s_image(hmin=hmin, wmin=wmin, exact=tuple(exact)))
        return {"feat": feat, "img": img}

    return s()


def fragile_sides(kw, smax=64):
    r, s = daisy_effective(kw)[0], kw["step"]
    out = []
    for n in range(2 * r + 1, smax + 1):
        o = int(math.ceil((n - 2 * r) / float(s)))
        if (o / n) * n != o:
            out.append(n)
    return out


def daisy_out_shape(shape, kw):
    r, s = daisy_effective(kw)[0], kw["step"]
    return tuple(int(math.ceil((n - 2 * r) / float(s))) for n in shape)


def c_daisy(case, ctx):
    feat, c = case["feat"], case["img"]
    kw = feat["kw"]
    tag = "daisy"
    class_events(ctx, c)
    ctx.event("step=%d" % kw["step"])
    eff_radius, eff_rings = daisy_effective(kw)
    ctx.event("radius=%d" % eff_radius)
    ctx.event("normalization=%s" % kw["normalization"])
    ctx.event("rings from %s" % ("ring_radii" if kw.get("ring_radii") else "sigmas" if kw.get("sigmas") else "rings"))
    ctx.event("rings/radius overridden=%s" % ((eff_radius, eff_rings) != (kw["radius"], kw["rings"])))
    ctx.nontrivial(nt_annotations(c))
    im = build_image(c)
    d0 = digest.digest(im)
    r = call_both(ctx, feat, c, im, tag)
    out, out_arr, arr0 = r
    check_unchanged_and_unshared(ctx, im, d0, out, tag)
    if not check_kind(ctx, im, out, tag):
        return
    check_pixels_agree(ctx, feat, c, im, out, out_arr, tag)
    check_results_independent(ctx, feat, c, im, out, out_arr, arr0, tag)
    check_unchanged_and_unshared(ctx, im, d0, out, tag)
    want_shape = daisy_out_shape(im.shape, kw)
    want_ch = (eff_rings * kw["histograms"] + 1) * kw["orientations"]
    ctx.event("out_min_side=%s" % ("1" if min(want_shape) == 1 else ">=2"))
    if not ctx.expect(tuple(out.shape) == want_shape and out.n_channels == want_ch, "daisy.documented_shape",
                      lambda: "in %r kw %r: out %r x %d, documented %r x %d"
                      % (im.shape, kw, out.shape, out.n_channels, want_shape, want_ch)):
        return
    factor = [want_shape[a] / float(im.shape[a]) for a in range(2)]
    check_mask(ctx, im, out, True, tag)
    check_landmarks(ctx, im, out, factor, tag)


# ==============================================================================================
# 3. normalisers: values


def s_normalisers():
    @st.composite
    def s(draw):
        feat = draw(s_normaliser(force_kw=True))
        img = draw(s_image(hmin=3, wmin=3, masks=("all", "random", "blob")))
        img["affine"] = [draw(gen.qnz(-4, 4, 1 / 8.0, 8)), draw(gen.q(0.125, 4, 8))]
        # low-dynamic-range images (a faint texture on a constant background) are legal inputs whose scale
        # statistic is tiny but NOT zero: they must be normalised like any other image, not refused or skipped
        tiny = draw(st.sampled_from([None, None, None, 2.0 ** -10, 2.0 ** -20, 2.0 ** -30, 2.0 ** -34]))
        if tiny is not None:
            img["affine"][1] = tiny
            img["dtype"] = "float64"
        via = draw(st.sampled_from(["image", "array"]))
        if draw(st.integers(0, 3)) == 0:
            # the mask-aware class: plain `normalize` on a partially masked image
            feat["name"] = "normalize"
            feat["kw"]["scale_func"] = draw(st.sampled_from([None, "maxabs", "meanabs", "std"]))
            img["cls"] = "MaskedImage"
            img["mask"] = draw(st.sampled_from(["random", "blob"]))
            via = "image"
        return {"feat": feat, "img": img, "via": via}

    return s()


def norm_tolerance(dtype, X, centred, scales, expected):
    eps = float(np.finfo(dtype).eps)
    amax = float(np.abs(X).max())
    cmax = float(np.abs(centred).max())
    smin = float(np.min(scales[scales != 0])) if np.any(scales != 0) else 1.0
    emax = float(np.abs(expected).max())
    return 256 * eps * (amax / smin + max(emax, 1e-300) * (1 + amax / max(cmax, 1e-300)))


def domain_of(feat, c, im, via):
    """(C, N) float64 array of the pixels the normalisation statistic runs over + extractor for outputs."""
    if via == "image" and is_masked_normalize(feat, c):
        m = im.mask.mask
        return im.pixels[:, m].astype(np.float64), (lambda o: o.pixels[:, m]), "masked pixels"
    C = im.pixels.shape[0]
    if via == "image":
        return im.pixels.reshape(C, -1).astype(np.float64), (lambda o: o.pixels.reshape(C, -1)), "all pixels"
    return im.pixels.reshape(C, -1).astype(np.float64), (lambda o: o.reshape(C, -1)), "all pixels"


def rows_stat(A, mode, fn):
    A = np.asarray(A, dtype=np.float64)
    if mode == "all":
        return np.array([fn(A.ravel())])
    return np.array([fn(A[c]) for c in range(A.shape[0])])


def c_normalisers(case, ctx):
    feat, c, via = case["feat"], case["img"], case["via"]
    kind = scale_kind(feat)
    mode = feat["kw"]["mode"]
    tag = "%s.%s" % (feat_label(feat), mode)
    ctx.event("feature=%s mode=%s" % (feat_label(feat), mode))
    ctx.event("via=" + via)
    class_events(ctx, c)
    im = build_image(c)
    X, extract, dom = domain_of(feat, c, im, via)
    ctx.event("domain=" + dom)
    centred, scales, expected = ref_normalise(X, kind, mode)
    cmax = float(np.abs(centred).max())
    if X.shape[1] < 2 or cmax == 0 or (
        kind != "none" and float(scales.min()) < 1e-3 * cmax * (cmax if kind == "var" else 1.0)
    ):
        ctx.event("degenerate domain: skipped")
        return
    ctx.nontrivial(True)
    ctx.event("dynamic range: tiny" if cmax < 1e-2 else "dynamic range: ordinary")
    f = feature_callable(feat, c["ch"])
    d0 = digest.digest(im)
    dtype = im.pixels.dtype
    if via == "image":
        out = f(im)
        check_unchanged_and_unshared(ctx, im, d0, out, tag)
        if not check_kind(ctx, im, out, tag):
            return
    else:
        out = f(im.pixels.copy())
        if not ctx.expect(isinstance(out, np.ndarray), "array_in_not_array_out." + tag, type(out).__name__):
            return
    got = np.asarray(extract(out), dtype=np.float64)
    if not ctx.expect(got.shape == expected.shape, "normaliser.shape." + tag, "%r vs %r" % (got.shape, expected.shape)):
        return
    ctx.expect(bool(np.all(np.isfinite(got))), "normaliser.non_finite." + tag, "")
    tol = norm_tolerance(dtype, X, centred, scales, expected)
    ctx.expect(maxdiff(got, expected) <= tol, "normaliser.values." + tag,
               lambda: "domain=%s tol=%.3e\n%s" % (dom, tol, describe(got, expected)))
    means = rows_stat(got, mode, lambda r: math.fsum(r.tolist()) / r.size)
    ctx.expect(float(np.abs(means).max()) <= tol, "normaliser.mean_not_zero." + tag,
               lambda: "means %r tol %.3e" % (means, tol))
    if kind == "std":
        sd = rows_stat(got, mode, lambda r: float(np.sqrt(np.mean((r - r.mean()) ** 2))))
        ctx.expect(float(np.abs(sd - 1).max()) <= tol, "normaliser.std_not_unit." + tag, lambda: "std %r" % (sd,))
    if kind == "norm":
        nr = rows_stat(got, mode, lambda r: float(np.sqrt(np.sum(r ** 2))))
        ctx.expect(float(np.abs(nr - 1).max()) <= tol, "normaliser.norm_not_unit." + tag, lambda: "norm %r" % (nr,))
    if kind in ("std", "norm", "none"):
        # a second application changes nothing
        out2 = f(out)
        got2 = np.asarray(extract(out2), dtype=np.float64)
        amax = float(np.abs(X).max())
        itol = max(1e-12, 16 * float(np.finfo(dtype).eps) * (1 + amax / cmax)) * max(float(np.abs(got).max()), 1e-300)
        ctx.expect(maxdiff(got2, got) <= itol, "normaliser.not_idempotent." + tag,
                   lambda: "tol %.3e\n%s" % (itol, describe(got2, got)))


# ==============================================================================================
# 4. zero scale


def s_zero_scale():
    @st.composite
    def s(draw):
        feat = draw(s_normaliser(force_kw=True))
        klass = draw(st.sampled_from(["const_all", "const_some", "const_some", "const_each", "mask_const", "single"]))
        img = draw(s_image(hmin=2, wmin=2, smax=24, fills=("random",), masks=("all", "random", "blob", "single")))
        # constants: dyadic k/8 (every sum of them is exact) or arbitrary decimals k/1000 such as 0.1, 0.7, 0.2345*..:
        # a channel of those is just as constant, although its float mean need not reproduce the value exactly
        const = lambda: draw(st.one_of(st.integers(-32, 32).map(lambda k: k / 8.0),  # noqa: E731
                                       st.integers(-4000, 4000).map(lambda k: k / 1000.0),
                                       st.sampled_from([0.1, 0.2345, 0.3, 0.7, -0.1, 1e-3, 255.1, 1.0 / 3.0])))
        if klass == "const_all":
            v = const()
            img["const_channels"] = [[k, v] for k in range(img["ch"])]
        elif klass == "const_each":
            img["const_channels"] = [[k, const()] for k in range(img["ch"])]
        elif klass == "const_some":
            ks = draw(st.lists(st.integers(0, img["ch"] - 1), min_size=1, max_size=img["ch"], unique=True))
            img["const_channels"] = [[k, const()] for k in sorted(ks)]
            if draw(st.integers(0, 3)) != 0:
                feat["kw"]["mode"] = "per_channel"
        elif klass == "mask_const":
            img["cls"] = "MaskedImage"
            img["mask"] = draw(st.sampled_from(["random", "blob", "single"]))
            img["const_in_mask"] = const()
            if draw(st.booleans()):
                feat["name"] = "normalize"
                feat["kw"]["scale_func"] = draw(st.sampled_from(["maxabs", "meanabs", "std"]))
        else:
            img["cls"] = "MaskedImage"
            img["mask"] = "single"
            feat["name"] = "normalize"
            feat["kw"]["scale_func"] = draw(st.sampled_from([None, "maxabs", "meanabs", "std"]))
        return {"feat": feat, "img": img, "klass": klass, "via": draw(st.sampled_from(["image", "image", "array"]))}

    return s()


def c_zero_scale(case, ctx):
    feat, c, via = case["feat"], case["img"], case["via"]
    kind = scale_kind(feat)
    mode = feat["kw"]["mode"]
    refuse = feat["kw"]["error_on_divide_by_zero"]
    tag = "%s.mode=%s.refuse=%s" % (feat_label(feat), mode, refuse)
    ctx.event("feature=%s mode=%s refuse=%s" % (feat_label(feat), mode, refuse))
    ctx.event("class=" + case["klass"])
    ctx.event("via=" + via)
    im = build_image(c)
    X, extract, dom = domain_of(feat, c, im, via)
    # zero scale <=> the domain data are constant (and a statistic is requested)
    if mode == "all":
        const_rows = np.array([bool(np.all(X == X.flat[0]))] * X.shape[0])
    else:
        const_rows = np.array([bool(np.all(X[k] == X[k, 0])) for k in range(X.shape[0])])
    # A constant whose sums are exact (dyadic k/8, |k/8| <= 4) is centred to exactly 0: every statistic of it is 0.
    # For any other constant v the float mean of n copies may differ from v by a few ulps, so the centred data are a
    # constant e of a few ulps (or 0): their standard deviation / variance is still exactly 0 (statistics that
    # subtract the mean), whereas their norm / max-abs / mean-abs is |e|-sized - zero or not depending on v and n.
    # There the clause asserts only what holds for every constant (see `lenient` below).
    def exact_const(v, n):
        return n == 1 or (abs(v) <= 4 and float(v * 8).is_integer())  # a single value is its own mean
    if mode == "all":
        exact_rows = np.array([exact_const(float(X.flat[0]), X.size)] * X.shape[0])
    else:
        exact_rows = np.array([exact_const(float(X[k, 0]), X.shape[1]) for k in range(X.shape[0])])
    mean_free = kind in ("std", "var")
    zero_rows = const_rows & (kind != "none") & (exact_rows | mean_free)
    lenient_rows = const_rows & (kind != "none") & ~zero_rows
    any_zero = bool(zero_rows.any())
    lenient = bool(lenient_rows.any())
    ctx.event("zero_scale=%s" % ("all" if zero_rows.all() else "some" if any_zero else "none"))
    ctx.event("constant kind=%s" % ("none" if not const_rows.any() else "exactly summable" if (exact_rows | ~const_rows).all()
                                    else "arbitrary"))
    if lenient:
        ctx.event("arbitrary constant under norm/maxabs/meanabs: zero or rounding-sized scale")
    ctx.nontrivial(any_zero)
    centred, scales, expected = ref_normalise(X, kind, mode)
    # non-constant rows must have a clearly non-zero scale (random data): keep the clause off near-ties
    nz = ~const_rows
    if kind != "none" and nz.any():
        cm = float(np.abs(centred[nz]).max())
        if float(scales[nz].min()) < 1e-3 * cm * (cm if kind == "var" else 1.0):
            ctx.event("near-zero scale: skipped")
            return
    if any_zero:
        ctx.expect(bool(np.all(scales[zero_rows] == 0)), "harness.reference_scale_not_zero", repr(scales))
    f = feature_callable(feat, c["ch"])
    d0 = digest.digest(im)
    arg = im if via == "image" else im.pixels.copy()
    out = None
    with warnings.catch_warnings(record=True) as wlist:
        warnings.simplefilter("always")
        try:
            out = f(arg)
            raised = None
        except ValueError as e:
            raised = e
        except Exception as e:  # classified: any other type is itself the violation
            ctx.fail("zero_scale.other_exception_type." + tag, "%s: %s" % (type(e).__name__, e))
            return
    if via == "image":
        check_unchanged_and_unshared(ctx, im, d0, out, tag)
    if any_zero and refuse:
        ctx.expect(raised is not None, "zero_scale.not_refused." + tag,
                   lambda: "domain=%s scales=%r: no ValueError" % (dom, scales))
        return
    if raised is not None:
        if lenient and refuse:
            ctx.event("arbitrary constant: treated as zero scale (refused)")
            return
        ctx.fail("zero_scale.refused_although_%s.%s" % ("skip_requested" if (any_zero or lenient) else "scale_nonzero", tag),
                 "domain=%s scales=%r: %r" % (dom, scales, raised))
        return
    if any_zero:
        ctx.expect(any(issubclass(w.category, Warning) for w in wlist), "zero_scale.no_warning." + tag, "")
    if via == "image" and not check_kind(ctx, im, out, tag):
        return
    whole = out.pixels if via == "image" else out
    ctx.expect(bool(np.all(np.isfinite(whole))), "zero_scale.non_finite." + tag,
               lambda: "%d non-finite values" % int((~np.isfinite(whole)).sum()))
    got = np.asarray(extract(out), dtype=np.float64)
    if not ctx.expect(got.shape == expected.shape, "zero_scale.shape." + tag, "%r vs %r" % (got.shape, expected.shape)):
        return
    tol = norm_tolerance(im.pixels.dtype, X, centred, scales, expected)
    if any_zero:
        ctx.expect(maxdiff(got[zero_rows], centred[zero_rows]) <= tol, "zero_scale.skipped_part_not_only_centred." + tag,
                   lambda: describe(got[zero_rows], centred[zero_rows]))
    asserted = ~zero_rows & ~lenient_rows
    if asserted.any():
        ctx.expect(maxdiff(got[asserted], expected[asserted]) <= tol, "zero_scale.nonzero_part_values." + tag,
                   lambda: "tol=%.3e\n%s" % (tol, describe(got[asserted], expected[asserted])))


# ==============================================================================================
# 5. compositions of two features


def s_compose():
    @st.composite
    def s(draw):
        with_daisy = draw(st.sampled_from([False, False, True]))
        simple = st.one_of(s_plain_feature(), s_normaliser(allow_error=False))
        if with_daisy:
            d = draw(s_daisy_feature())
            other = draw(simple)
            feats = [d, other] if draw(st.booleans()) else [other, d]
            hmin, wmin = s_daisy_sizes(draw, d["kw"], 32, 2), s_daisy_sizes(draw, d["kw"], 32, 2)
            img = draw(s_image(hmin=hmin, wmin=wmin, smax=32))
        else:
            feats = [draw(simple), draw(simple)]
            img = draw(s_image())
        if img["cls"] == "MaskedImage" and img.get("mask") != "all":
            # plain `normalize` on a partially masked image is mask-aware: its array form is not image.pixels
            for ft in feats:
                if ft["name"] == "normalize":
                    ft["name"] = "normalize_std"
                    ft["kw"].pop("scale_func", None)
        return {"feats": feats, "img": img}

    return s()


def c_compose(case, ctx):
    feats, c = case["feats"], case["img"]
    names = [f["name"] for f in feats]
    has_daisy = "daisy" in names
    tag = "compose"
    ctx.event("first=%s" % feat_label(feats[0]))
    ctx.event("second=%s" % feat_label(feats[1]))
    ctx.event("with_daisy=%s" % has_daisy)
    class_events(ctx, c)
    ctx.nontrivial(nt_annotations(c))
    im = build_image(c)
    d0 = digest.digest(im)
    arr = im.pixels.copy()
    arr0 = arr.copy()
    # first feature: first stage applied to the image / the array; channel count may change between stages
    f1 = feature_callable(feats[0], c["ch"])
    mid = f1(im)
    mid_arr = f1(arr)
    f2 = feature_callable(feats[1], mid.n_channels)
    d_mid = digest.digest(materialise(mid))
    out = f2(mid)
    out_arr = f2(mid_arr)
    check_unchanged_and_unshared(ctx, im, d0, out, tag)
    ctx.expect(digest.parameter_mutation(d_mid, digest.digest(mid)) is None, "input_modified.compose.second_stage", "")
    ctx.expect(np.array_equal(arr, arr0, equal_nan=True), "input_array_modified." + tag, "")
    if not check_kind(ctx, im, out, tag):
        return
    ctx.expect(same_values(out.pixels, out_arr), "image_vs_array.values." + tag,
               lambda: "%r\n%s" % (names, describe(out.pixels, out_arr)))
    ctx.expect(out.pixels.dtype == out_arr.dtype, "image_vs_array.dtype." + tag,
               lambda: "%s vs %s" % (out.pixels.dtype, out_arr.dtype))
    if has_daisy:
        kw = feats[names.index("daisy")]["kw"]
        want_shape = daisy_out_shape(im.shape, kw)
        if not ctx.expect(tuple(out.shape) == want_shape, "daisy.documented_shape.compose",
                          lambda: "%r -> %r, documented %r" % (im.shape, out.shape, want_shape)):
            return
        factor = [want_shape[a] / float(im.shape[a]) for a in range(2)]
        check_mask(ctx, im, out, True, tag)
        check_landmarks(ctx, im, out, factor, tag)
    else:
        if not ctx.expect(out.shape == im.shape, "size_preserving_feature_changed_size." + tag,
                          lambda: "%r -> %r" % (im.shape, out.shape)):
            return
        check_mask(ctx, im, out, False, tag)
        check_landmarks(ctx, im, out, None, tag)


# ==============================================================================================
# 6. the window-iterating decorator (winitfeature) and features that change the two axes differently
#    (menpo's own windowed features need the optional vlfeat; the decorator contract is exercised with features
#    defined here, through the public decorators)


@_winitfeature
def _win_sample(pixels, step, off):
    """window centres off[k], off[k]+step[k], ... along axis k; the feature of a window is the pixel at its centre"""
    ys = np.arange(off[0], pixels.shape[1], step[0])
    xs = np.arange(off[1], pixels.shape[2], step[1])
    centres = np.stack(np.meshgrid(ys, xs, indexing="ij"), axis=-1)
    return pixels[:, centres[..., 0], centres[..., 1]], centres


@_ndfeature
def _resample(pixels, up, down):
    """axis k: every pixel repeated up[k] times, then every down[k]-th kept (new length ceil(n*up/down))"""
    out = pixels
    for k in (0, 1):
        out = np.repeat(out, up[k], axis=k + 1)
        out = out[(slice(None),) * (k + 1) + (slice(None, None, down[k]),)]
    return np.ascontiguousarray(out).copy()


def s_winit():
    @st.composite
    def s(draw):
        step = [draw(st.integers(1, 4)), draw(st.integers(1, 4))]
        off = [draw(st.integers(0, 3)), draw(st.integers(0, 3))]
        # at least two window centres per axis (the correction reads the step off the first two centres)
        img = draw(s_image(hmin=off[0] + step[0] + 1, wmin=off[1] + step[1] + 1, smax=24, masks=("all", "random", "blob", "single", "none")))
        return {"step": step, "off": off, "img": img}

    return s()


def c_winit(case, ctx):
    c, step, off = case["img"], case["step"], case["off"]
    tag = "winitfeature"
    class_events(ctx, c)
    ctx.event("step %s" % ("equal" if step[0] == step[1] else "unequal"))
    ctx.event("offset %s" % ("zero" if off == [0, 0] else "equal" if off[0] == off[1] else "unequal"))
    ctx.nontrivial(nt_annotations(c))
    im = build_image(c)
    d0 = digest.digest(im)
    arr = im.pixels.copy()
    out = _win_sample(im, step, off)
    out_arr = _win_sample(arr, step, off)
    check_unchanged_and_unshared(ctx, im, d0, out, tag)
    ctx.expect(np.array_equal(arr, im.pixels, equal_nan=True), "input_array_modified." + tag, "")
    if not ctx.expect(isinstance(out_arr, np.ndarray), "array_in_not_array_out." + tag, lambda: type(out_arr).__name__):
        return
    if not check_kind(ctx, im, out, tag):
        return
    want = im.pixels[:, off[0]::step[0], off[1]::step[1]]
    ctx.expect(same_values(out.pixels, out_arr) and same_values(out_arr, want), "image_vs_array.values." + tag,
               lambda: describe(out.pixels, out_arr))
    if isinstance(im, MaskedImage):
        # documented: the mask is sampled at the window centres
        mw = im.mask.mask[off[0]::step[0], off[1]::step[1]]
        mo = out.mask.mask
        ctx.expect(mo.dtype == np.bool_ and mo.shape == mw.shape and np.array_equal(mo, mw), "mask.not_sampled_at_centres." + tag,
                   lambda: "in %s (%d true), centres %s: out %s (%d true), wanted %d true"
                   % (im.mask.mask.shape, int(im.mask.mask.sum()), mw.shape, mo.shape, int(mo.sum()), int(mw.sum())))
        ctx.expect(not np.shares_memory(mo, im.mask.mask), "output_shares_buffer_with_input." + tag, "mask")
    # documented: landmarks corrected for the window grid: pixel p of the image is pixel (p - first centre) / step
    check_landmarks(ctx, im, out, [1.0 / step[0], 1.0 / step[1]], tag, offset=off)


def s_resample():
    @st.composite
    def s(draw):
        up = [draw(st.integers(1, 3)), draw(st.integers(1, 3))]
        down = [draw(st.integers(1, 3)), draw(st.integers(1, 3))]
        img = draw(s_image(smax=24))
        return {"up": up, "down": down, "img": img}

    return s()


def c_resample(case, ctx):
    c, up, down = case["img"], case["up"], case["down"]
    tag = "resampling_feature"
    class_events(ctx, c)
    im = build_image(c)
    new = tuple(-(-(n * u) // d) for n, u, d in zip(im.shape, up, down))
    grow = ["grow" if b > a else "shrink" if b < a else "same" for a, b in zip(im.shape, new)]
    ctx.event("axes=%s/%s" % tuple(grow))
    changed = new != tuple(im.shape)
    ctx.nontrivial(nt_annotations(c) and changed)
    d0 = digest.digest(im)
    arr = im.pixels.copy()
    out = _resample(im, up, down)
    out_arr = _resample(arr, up, down)
    check_unchanged_and_unshared(ctx, im, d0, out, tag)
    if not ctx.expect(isinstance(out_arr, np.ndarray), "array_in_not_array_out." + tag, lambda: type(out_arr).__name__):
        return
    if not check_kind(ctx, im, out, tag):
        return
    ctx.expect(same_values(out.pixels, out_arr), "image_vs_array.values." + tag, lambda: describe(out.pixels, out_arr))
    if not ctx.expect(tuple(out.shape) == new, "harness.resample_shape", "%r vs %r" % (out.shape, new)):
        return
    if changed:
        check_mask(ctx, im, out, True, tag)
        check_landmarks(ctx, im, out, [new[a] / float(im.shape[a]) for a in range(2)], tag)
    else:
        check_mask(ctx, im, out, False, tag)
        check_landmarks(ctx, im, out, None, tag)


CLAUSES = [
    Clause("convention", c_convention, s_convention, quick=1400, thorough=40000, nt_floor=0.4,
           rule="size-preserving exported feature x kwargs x image; non-trivial: >=1 landmark group and (Image or partial mask)"),
    Clause("daisy", c_daisy, s_daisy, quick=500, thorough=12000, nt_floor=0.4,
           rule="daisy step 1..4, radius 2..6, rings 1..3, histograms 1..4, orientations 2..8, 4 normalisations, rings / "
                "radius also through sigmas and increasing integer ring_radii (documented overrides); "
                "sides from 2*radius+1 to 40; non-trivial as in convention"),
    Clause("normalisers", c_normalisers, s_normalisers, quick=900, thorough=25000, nt_floor=0.6,
           rule="normaliser x mode x refusal flag x image/array x dyadic offset (|.|>=1/8) and gain; non-trivial: "
                "non-degenerate domain (values asserted)"),
    Clause("zero_scale", c_zero_scale, s_zero_scale, quick=900, thorough=25000, nt_floor=0.4,
           rule="constant image / some constant channels / each channel its own constant / constant inside the mask / "
                "single-pixel mask; constants dyadic (k/8) or arbitrary decimals; non-trivial: a zero scale occurs for "
                "the drawn mode and statistic"),
    Clause("compose", c_compose, s_compose, quick=500, thorough=12000, nt_floor=0.4,
           rule="two features, a third of the cases with one daisy stage; non-trivial as in convention"),
    Clause("convention_3d", c_convention, lambda: s_convention(ndim=3, smax=7), quick=400, thorough=10000, nt_floor=0.4,
           rule="the features documented for (C, X, Y, ..., Z) arrays (gradient, gaussian_filter, no_op, sum_channels, the "
                "normalisers) on 3-D Image / MaskedImage (sides 2..7) with 3-D landmark groups; non-trivial as in convention"),
    Clause("winit", c_winit, s_winit, quick=300, thorough=8000, nt_floor=0.4,
           rule="a @winitfeature defined by the check (pixel at each window centre; per-axis step 1..4 and first centre "
                "0..3, at least 2x2 centres); non-trivial as in convention"),
    Clause("resample", c_resample, s_resample, quick=300, thorough=8000, nt_floor=0.3,
           rule="an @ndfeature defined by the check that repeats (x1..3) and subsamples (every 1..3rd) each axis "
                "independently, so axes may grow, shrink or stay; non-trivial: annotations as in convention and the "
                "size really changes"),
]
