"""Stated floating-point comparisons: |a-b| <= atol + rtol * scale, scale = magnitude of the data."""
import numpy as np


def maxdiff(a, b):
    a = np.asarray(a, dtype=float)
    b = np.asarray(b, dtype=float)
    if a.shape != b.shape:
        return float("inf")
    if a.size == 0:
        return 0.0
    d = np.abs(a - b)
    if not np.all(np.isfinite(d)):
        # identical non-finite entries (same inf / nan positions) compare equal
        same = (a == b) | (np.isnan(a) & np.isnan(b))
        d = np.where(same, 0.0, d)
        if not np.all(np.isfinite(d)):
            return float("inf")
    return float(d.max())


def scale_of(*xs):
    m = 1.0
    for x in xs:
        x = np.asarray(x, dtype=float)
        if x.size:
            f = np.abs(x[np.isfinite(x)])
            if f.size:
                m = max(m, float(f.max()))
    return m


def close(a, b, rtol=1e-8, atol=0.0, scale=None):
    a = np.asarray(a)
    b = np.asarray(b)
    if a.shape != b.shape:
        return False
    if scale is None:
        scale = scale_of(a, b)
    return maxdiff(a, b) <= atol + rtol * scale


def describe(a, b):
    a = np.asarray(a)
    b = np.asarray(b)
    if a.shape != b.shape:
        return "shape %s vs %s" % (a.shape, b.shape)
    return "maxdiff=%.3e\n got=%s\n want=%s" % (
        maxdiff(a, b),
        np.array2string(np.asarray(a), precision=6, threshold=40),
        np.array2string(np.asarray(b), precision=6, threshold=40),
    )
