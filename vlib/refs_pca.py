"""Data matrices with a prescribed, well-separated spectrum + an independent reference PCA (C10, C11).

A data case is plain data::

    {"n", "d", "centre", "r", "s0", "ratios": [r-1], "a_angles", "b_angles", "mean": [d]}

and builds ``X = mean + A diag(s) B^T`` (centred) or ``X = A diag(s) B^T`` (uncentred) with
``A`` (n x r) and ``B`` (d x r) having orthonormal columns made of Givens rotations.  In the centred
case the columns of ``A`` are additionally orthogonal to the all-ones vector (Helmert basis), so the
sample mean is exactly ``mean`` and the singular values of the centred data are exactly ``s``; in the
uncentred case the singular values of the raw data are exactly ``s``.  ``s_i / s_{i+1} >= 1.3`` and
``s_min / s_max >= 1 / spread`` hold by construction.
"""
import math

import numpy as np
from hypothesis import strategies as st

from . import gen


def helmert(n):
    """n x (n-1) matrix with orthonormal columns, all orthogonal to the ones vector."""
    h = np.zeros((n, n - 1))
    for k in range(1, n):
        h[:k, k - 1] = 1.0
        h[k, k - 1] = -float(k)
        h[:, k - 1] /= math.sqrt(k * (k + 1.0))
    return h


def full_rank(n, d, centre):
    return min(n - 1, d) if centre else min(n, d)


def _ratio_hi(r, spread, hi=3.0):
    if r <= 1:
        return hi
    return max(1.3, min(hi, spread ** (1.0 / (r - 1))))


@st.composite
def data_case(draw, n, d, centre, r=None, spread=1000.0, s0=(0.5, 8.0), mean_gap=0.0):
    """Plain-data description of an n x d data matrix of rank r (default: full rank)."""
    if r is None:
        r = full_rank(n, d, centre)
    na = n - 1 if centre else n
    hi = _ratio_hi(r, spread)
    # spectrum profile: uniform ratios concentrate the spread in the middle; draw the extremes on purpose
    profile = draw(st.sampled_from(["any", "any", "wide", "tight"]))
    if profile == "wide":
        lo_r, hi_r = max(1.3, 0.85 * hi), hi
    elif profile == "tight":
        lo_r, hi_r = 1.3, min(hi, 1.5)
    else:
        lo_r, hi_r = 1.3, hi
    ratios = draw(st.lists(gen.q(lo_r, hi_r), min_size=r - 1, max_size=r - 1))
    case = {
        "n": n,
        "d": d,
        "centre": bool(centre),
        "r": r,
        "s0": draw(gen.q(s0[0], s0[1])),
        "ratios": ratios,
        "a_angles": draw(gen.rot_angles(na)),
        "b_angles": draw(gen.rot_angles(d)),
    }
    mean = draw(gen.vec(d, -10, 10))
    if mean_gap > 0:
        # mean bounded away from zero: first coordinate pushed out of (-gap, gap)
        m0 = draw(gen.qnz(-10, 10, mean_gap))
        mean[0] = m0
    # the cloud may sit far from the origin compared with its spread (mean / spread up to ~1e5): covariance formulas that
    # subtract n*m*m^T from X^T X instead of centring first cancel catastrophically there
    scale = draw(st.sampled_from([1.0, 1.0, 1.0, 1.0e3, 1.0e5]))
    case["mean"] = [v * scale for v in mean]
    # the unit of the data is arbitrary: the whole matrix times 2^unit_pow (exact in binary)
    case["unit_pow"] = draw(st.sampled_from([0, 0, 0, 0, -20, 20]))
    return case


def seeded_data_case(rs, n, d, centre, r=None, spread=100.0, mean_gap=0.5):
    """Same plain data, drawn from a numpy RandomState (for the enumerated, fixed scopes)."""
    if r is None:
        r = full_rank(n, d, centre)
    na = n - 1 if centre else n
    hi = _ratio_hi(r, spread)

    def qq(lo, hi_):
        return int(rs.randint(int(math.ceil(lo * 1024)), int(math.floor(hi_ * 1024)) + 1)) / 1024.0

    mean = [qq(-10, 10) for _ in range(d)]
    mean[0] = qq(mean_gap, 10) * (1 if rs.randint(2) else -1)
    return {
        "n": n,
        "d": d,
        "centre": bool(centre),
        "r": r,
        "s0": qq(1.0, 8.0),
        "ratios": [qq(1.3, hi) for _ in range(r - 1)],
        "a_angles": [qq(-3.14, 3.14) for _ in range(gen.n_planes(na))],
        "b_angles": [qq(-3.14, 3.14) for _ in range(gen.n_planes(d))],
        "mean": mean,
    }


def singular_values(case):
    s = [case["s0"]]
    for q in case["ratios"]:
        s.append(s[-1] / q)
    return np.array(s, dtype=float)


def build_data(case):
    n, d, r = case["n"], case["d"], case["r"]
    if case["centre"]:
        a = helmert(n).dot(gen.rotation_from_angles(n - 1, case["a_angles"])[:, :r])
    else:
        a = gen.rotation_from_angles(n, case["a_angles"])[:, :r]
    b = gen.rotation_from_angles(d, case["b_angles"])[:, :r]
    x = (a * singular_values(case)[None, :]).dot(b.T)
    if case["centre"]:
        x = x + np.asarray(case["mean"], dtype=float)[None, :]
    x = x * 2.0 ** int(case.get("unit_pow", 0))
    return np.ascontiguousarray(x, dtype=float)


def ref_pca(x, centre):
    """Independent reference: SVD of the (centred) data matrix.

    Returns mean (d,), eigenvalues sigma^2/(n-1) (min(n,d),) descending, right singular vectors as rows.
    """
    x = np.asarray(x, dtype=float)
    n = x.shape[0]
    if centre:
        mean = x.sum(axis=0) / n
    else:
        mean = np.zeros(x.shape[1])
    u, s, vt = np.linalg.svd(x - mean[None, :], full_matrices=False)
    return mean, s**2 / (n - 1.0), vt


def sign_aligned_diff(c, v):
    """max over rows of min(|c_k - v_k|, |c_k + v_k|) (inf on shape mismatch)."""
    c = np.asarray(c, dtype=float)
    v = np.asarray(v, dtype=float)
    if c.shape != v.shape:
        return float("inf")
    if c.size == 0:
        return 0.0
    a = np.abs(c - v).max(axis=1)
    b = np.abs(c + v).max(axis=1)
    return float(np.minimum(a, b).max())


def projector(rows):
    rows = np.asarray(rows, dtype=float)
    return rows.T.dot(rows)
