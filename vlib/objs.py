"""Plain-data cases + deterministic builders for menpo shapes, transforms and images.

Every strategy returns JSON-serialisable data; ``build_*`` turns it into fresh menpo objects.
``ref_h(case)`` gives an independently computed homogeneous matrix for the non-alignment
homogeneous kinds (alignments are fitted by menpo; their reference fits live in refs.py).
"""
import math
from collections import OrderedDict

import numpy as np
from hypothesis import strategies as st

from . import gen

SHAPE_KINDS = [
    "PointCloud",
    "TriMesh",
    "ColouredTriMesh",
    "TexturedTriMesh",
    "PointUndirectedGraph",
    "PointDirectedGraph",
    "PointTree",
    "LabelledPointUndirectedGraph",
]

HOMOG_KINDS = [
    "Homogeneous",
    "Affine",
    "Similarity",
    "Rotation",
    "Translation",
    "UniformScale",
    "NonUniformScale",
    "AlignmentAffine",
    "AlignmentSimilarity",
    "AlignmentRotation",
    "AlignmentTranslation",
    "AlignmentUniformScale",
]
ALIGN_KINDS = [k for k in HOMOG_KINDS if k.startswith("Alignment")]
PLAIN_HOMOG_KINDS = [k for k in HOMOG_KINDS if not k.startswith("Alignment")]
OTHER_KINDS = ["TransformChain", "WithDims", "ThinPlateSplines", "CachedPWA", "PythonPWA"]

LABEL_NAMES = ["zeta", "alpha", "beta", "q", "été", "left eye", "x.y", "*", "", "Omega", "a" * 12, "jaw"]


# ==============================================================================================
# shapes


@st.composite
def tri_case(draw, n):
    """Arbitrary triangle list over n >= 3 vertices: distinct indices per triangle."""
    nt = draw(st.integers(1, max(1, min(2 * n, 10))))
    tris = []
    for _ in range(nt):
        t = draw(st.lists(st.integers(0, n - 1), min_size=3, max_size=3, unique=True))
        tris.append(t)
    return tris


@st.composite
def tree_edges_case(draw, n):
    """Random recursive tree on n vertices rooted at 0 (parent index < child index)."""
    return [[draw(st.integers(0, k - 1)), k] for k in range(1, n)]


@st.composite
def label_case(draw, n):
    k = draw(st.integers(1, 4))
    names = draw(st.lists(st.sampled_from(LABEL_NAMES), min_size=k, max_size=k, unique=True))
    first = draw(st.lists(st.integers(0, k - 1), min_size=n, max_size=n))
    extra = draw(st.lists(st.lists(st.booleans(), min_size=n, max_size=n), min_size=k, max_size=k))
    out = []
    for li, name in enumerate(names):
        out.append([name, [bool(first[p] == li or extra[li][p]) for p in range(n)]])
    # labels with an empty mask are legal as long as every point is covered; keep them
    return out


@st.composite
def shape_case(draw, kinds=None, d=None, with_landmarks=True, n_min=3, n_max=9, extent=10.0):
    kind = draw(st.sampled_from(kinds or SHAPE_KINDS))
    if d is None:
        d = draw(st.sampled_from([2, 3]))
    n = draw(st.integers(n_min, n_max))
    pts = draw(gen.points_case(n=n, d=d, extent=extent))
    case = {"kind": kind, "d": d, "pts": pts}
    if kind in ("TriMesh", "ColouredTriMesh", "TexturedTriMesh"):
        case["tri"] = draw(tri_case(n))
    if kind == "ColouredTriMesh":
        case["colours"] = draw(st.lists(st.lists(gen.q(0, 1, 256), min_size=3, max_size=3), min_size=n, max_size=n))
    if kind == "TexturedTriMesh":
        case["tcoords"] = draw(st.lists(st.lists(gen.q(0, 1, 256), min_size=2, max_size=2), min_size=n, max_size=n))
        case["tex"] = {"shape": draw(st.lists(st.integers(2, 5), min_size=2, max_size=2)),
                       "ch": draw(st.sampled_from([1, 3])), "seed": draw(st.integers(0, 2**16))}
    if kind in ("PointUndirectedGraph", "PointDirectedGraph", "LabelledPointUndirectedGraph"):
        m = draw(st.integers(0, min(12, n * (n - 1) // 2)))
        edges = draw(st.lists(st.lists(st.integers(0, n - 1), min_size=2, max_size=2, unique=True), min_size=m, max_size=m))
        if kind != "PointDirectedGraph":
            seen, e2 = set(), []
            for a, b in edges:
                key = (min(a, b), max(a, b))
                if key not in seen:
                    seen.add(key)
                    e2.append([a, b])
            edges = e2
        else:
            seen, e2 = set(), []
            for a, b in edges:
                if (a, b) not in seen:
                    seen.add((a, b))
                    e2.append([a, b])
            edges = e2
        case["edges"] = edges
    if kind == "PointTree":
        case["edges"] = draw(tree_edges_case(n))
        case["root"] = 0
    if kind == "LabelledPointUndirectedGraph":
        case["labels"] = draw(label_case(n))
    if with_landmarks:
        k = draw(st.integers(0, 3))
        names = draw(st.lists(st.sampled_from(["g", "PTS", "left eye", "ü", "a.b", "*", "0"]), min_size=k, max_size=k, unique=True))
        case["lms"] = [[nm, draw(shape_case(d=d, with_landmarks=False, n_min=3, n_max=6, extent=extent))] for nm in names]
    return case


def _texture(tex):
    from menpo.image import Image

    rs = np.random.RandomState(tex["seed"])
    return Image(rs.rand(tex["ch"], *tex["shape"]))


def edges_to_adjacency(edges, n, directed):
    a = np.zeros((n, n), dtype=int)
    for i, j in edges:
        a[i, j] = 1
        if not directed:
            a[j, i] = 1
    return a


def build_shape(case):
    from menpo.shape import (
        PointCloud,
        TriMesh,
        ColouredTriMesh,
        TexturedTriMesh,
        PointUndirectedGraph,
        PointDirectedGraph,
        PointTree,
        LabelledPointUndirectedGraph,
    )

    kind = case["kind"]
    pts = np.array(case["pts"], dtype=float)
    n = pts.shape[0]
    if kind == "PointCloud":
        s = PointCloud(pts)
    elif kind == "TriMesh":
        s = TriMesh(pts, trilist=np.array(case["tri"], dtype=int))
    elif kind == "ColouredTriMesh":
        s = ColouredTriMesh(pts, trilist=np.array(case["tri"], dtype=int), colours=np.array(case["colours"], dtype=float))
    elif kind == "TexturedTriMesh":
        s = TexturedTriMesh(pts, np.array(case["tcoords"], dtype=float), _texture(case["tex"]), trilist=np.array(case["tri"], dtype=int))
    elif kind == "PointUndirectedGraph":
        s = PointUndirectedGraph(pts, edges_to_adjacency(case["edges"], n, False))
    elif kind == "PointDirectedGraph":
        s = PointDirectedGraph(pts, edges_to_adjacency(case["edges"], n, True))
    elif kind == "PointTree":
        s = PointTree(pts, edges_to_adjacency(case["edges"], n, True), case["root"])
    elif kind == "LabelledPointUndirectedGraph":
        l2m = OrderedDict((nm, np.array(mask, dtype=bool)) for nm, mask in case["labels"])
        s = LabelledPointUndirectedGraph(pts, edges_to_adjacency(case["edges"], n, False), l2m)
    else:
        raise ValueError(kind)
    for nm, sub in case.get("lms", []):
        s.landmarks[nm] = build_shape(sub)
    return s


# ==============================================================================================
# transforms


def _hm(lin, t):
    d = lin.shape[0]
    h = np.eye(d + 1)
    h[:d, :d] = lin
    h[:d, d] = t
    return h


@st.composite
def homog_case(draw, kind=None, d=None, kinds=None):
    """One of the 12 homogeneous-family classes with bounded-condition parameters."""
    if kind is None:
        kind = draw(st.sampled_from(kinds or HOMOG_KINDS))
    if d is None:
        d = draw(st.sampled_from([2, 3]))
    c = {"kind": kind, "d": d}
    if kind == "Homogeneous":
        c["lin"] = draw(gen.linear_case(d))
        c["t"] = draw(gen.vec(d))
        # perspective row small relative to the coordinate range (|x| <= ~20): divisor in [0.5, 1.5]
        c["persp"] = draw(st.lists(gen.q(-0.008, 0.008, 1 << 16), min_size=d, max_size=d))
        # the same map may be stored with any overall homogeneous scale (bottom-right entry w != 1); in a third of
        # the cases the perspective row is exactly zero (an affine map stored in a plain Homogeneous)
        c["w"] = draw(st.sampled_from([1.0, 1.0, 2.5, 0.5, -2.0, 4.0]))
        if draw(st.integers(0, 2)) == 0:
            c["persp"] = [0.0] * d
    elif kind == "Affine":
        c["lin"] = draw(gen.linear_case(d))
        c["t"] = draw(gen.vec(d))
        form = draw(st.sampled_from(["float"] * 6 + ["int", "identity"]))
        if form == "int":
            # a user-supplied integer-dtype matrix (legal): small integer entries, |det| >= 1, condition <= 60
            c["imat"] = draw(int_affine_case(d))
        elif form == "identity":
            c["identity"] = True
    elif kind == "Similarity":
        c["rot"] = draw(gen.orthogonal_case(d, allow_reflection=True))
        c["s"] = draw(gen.q(0.25, 4))
        c["t"] = draw(gen.vec(d))
    elif kind == "Rotation":
        c["rot"] = draw(gen.orthogonal_case(d, allow_reflection=False))
    elif kind == "Translation":
        c["t"] = draw(gen.vec(d))
    elif kind == "UniformScale":
        c["s"] = draw(gen.q(0.25, 4))
    elif kind == "NonUniformScale":
        c["s"] = draw(st.lists(gen.q(0.25, 4), min_size=d, max_size=d))
    else:  # alignments: source in general position, target = member(source) + noise
        n = draw(st.integers(d + 2, 8))
        src = draw(gen.points_case(n=n, d=d).filter(gen.non_collinear))
        c["src"] = src
        lin = gen.build_linear(d, draw(gen.linear_case(d)))
        t = np.array(draw(gen.vec(d)))
        noise = np.array(draw(st.lists(st.lists(gen.q(-0.3, 0.3), min_size=d, max_size=d), min_size=n, max_size=n)))
        tgt = np.array(src).dot(lin.T) + t + noise
        c["tgt"] = [[round(float(v) * 4096) / 4096 for v in row] for row in tgt]
        if kind == "AlignmentSimilarity":
            c["rotation"] = draw(st.booleans())
            c["allow_mirror"] = draw(st.booleans())
        if kind == "AlignmentRotation":
            c["allow_mirror"] = draw(st.booleans())
    return c


@st.composite
def int_affine_case(draw, d):
    def ok(rows):
        m = np.array(rows, dtype=float)
        return abs(np.linalg.det(m)) >= 1 and np.linalg.cond(m) <= 60

    lin = draw(st.lists(st.lists(st.integers(-3, 3), min_size=d, max_size=d), min_size=d, max_size=d).filter(ok))
    t = draw(st.lists(st.integers(-5, 5), min_size=d, max_size=d))
    rows = [list(lin[i]) + [t[i]] for i in range(d)] + [[0] * d + [1]]
    return rows


def ref_h(case):
    """Independent homogeneous matrix of a plain (non-alignment) homogeneous-family case."""
    kind, d = case["kind"], case["d"]
    if case.get("imat") is not None:
        return np.array(case["imat"], dtype=float)
    if case.get("identity"):
        return np.eye(d + 1)
    if kind == "Homogeneous":
        h = _hm(gen.build_linear(d, case["lin"]), case["t"])
        h[d, :d] = case["persp"]
        return h * float(case.get("w", 1.0))
    if kind == "Affine":
        return _hm(gen.build_linear(d, case["lin"]), case["t"])
    if kind == "Similarity":
        return _hm(case["s"] * gen.build_orthogonal(d, case["rot"]), case["t"])
    if kind == "Rotation":
        return _hm(gen.build_orthogonal(d, case["rot"]), np.zeros(d))
    if kind == "Translation":
        return _hm(np.eye(d), case["t"])
    if kind == "UniformScale":
        return _hm(np.eye(d) * case["s"], np.zeros(d))
    if kind == "NonUniformScale":
        return _hm(np.diag(case["s"]), np.zeros(d))
    return None


def build_homog(case):
    import menpo.transform as mt
    from menpo.shape import PointCloud

    kind, d = case["kind"], case["d"]
    if case.get("imat") is not None:
        return getattr(mt, kind)(np.array(case["imat"], dtype=np.int64))
    if case.get("identity"):
        return getattr(mt, kind).init_identity(d)
    if kind in ("Homogeneous", "Affine", "Similarity"):
        return getattr(mt, kind)(ref_h(case))
    if kind == "Rotation":
        return mt.Rotation(gen.build_orthogonal(d, case["rot"]))
    if kind == "Translation":
        return mt.Translation(np.array(case["t"], dtype=float))
    if kind == "UniformScale":
        return mt.UniformScale(case["s"], d)
    if kind == "NonUniformScale":
        return mt.NonUniformScale(np.array(case["s"], dtype=float))
    src = PointCloud(np.array(case["src"], dtype=float))
    tgt = PointCloud(np.array(case["tgt"], dtype=float))
    if kind == "AlignmentSimilarity":
        return mt.AlignmentSimilarity(src, tgt, rotation=case["rotation"], allow_mirror=case["allow_mirror"])
    if kind == "AlignmentRotation":
        return mt.AlignmentRotation(src, tgt, allow_mirror=case["allow_mirror"])
    return getattr(mt, kind)(src, tgt)


# ---- warps (2-D only)

RBF_KINDS = [None, "R2LogR2RBF", "R2LogRRBF"]


@st.composite
def warp_case(draw, kind=None):
    """TPS / PWA between a jittered-lattice source and a mildly perturbed target (2-D).
    perturbation <= 0.15 cell keeps PWA target triangles non-degenerate and orientation-preserving."""
    if kind is None:
        kind = draw(st.sampled_from(["ThinPlateSplines", "CachedPWA", "PythonPWA"]))
    n = draw(st.integers(4, 9))
    src = draw(gen.points_case(n=n, d=2, extent=10.0).filter(gen.non_collinear))
    side = max(2, int(math.ceil(n ** 0.5)) + 1)
    cell = 10.0 / side
    lin = gen.build_linear(2, draw(gen.linear_case(2, smin=0.5, smax=2.0, allow_reflection=False)))
    t = np.array(draw(gen.vec(2)))
    noise = np.array(draw(st.lists(st.lists(gen.q(-0.15, 0.15), min_size=2, max_size=2), min_size=n, max_size=n))) * cell
    tgt = (np.array(src) + noise).dot(lin.T) + t
    c = {"kind": kind, "d": 2, "src": src, "tgt": [[round(float(v) * 4096) / 4096 for v in row] for row in tgt]}
    if kind == "ThinPlateSplines":
        c["rbf"] = draw(st.sampled_from(RBF_KINDS))
    return c


def build_warp(case):
    import menpo.transform as mt
    from menpo.transform import rbf
    from menpo.transform.piecewiseaffine.base import CachedPWA, PythonPWA
    from menpo.shape import PointCloud

    src = PointCloud(np.array(case["src"], dtype=float))
    tgt = PointCloud(np.array(case["tgt"], dtype=float))
    if case["kind"] == "ThinPlateSplines":
        kernel = None
        if case.get("rbf"):
            kernel = getattr(rbf, case["rbf"])(src.points)
        return mt.ThinPlateSplines(src, tgt, kernel=kernel)
    if case["kind"] == "CachedPWA":
        return CachedPWA(src, tgt)
    return PythonPWA(src, tgt)


def pwa_trilist(case):
    """Delaunay trilist menpo will use for a PWA case (TriMesh(points) default)."""
    from menpo.shape import TriMesh

    return TriMesh(np.array(case["src"], dtype=float)).trilist


def bary_points(src, trilist, picks):
    """Points strictly inside source triangles: picks = [[tri_index_draw, a, b], ...] with a, b in (0,1)."""
    src = np.asarray(src, dtype=float)
    out = []
    for k, a, b in picks:
        tri = trilist[k % len(trilist)]
        # map (a, b) in (0,1)^2 to barycentric weights with margin
        if a + b > 1:
            a, b = 1 - a, 1 - b
        w0 = 0.05 + 0.85 * (1 - a - b)
        w1 = 0.05 + 0.85 * a
        w2 = 0.05 + 0.85 * b
        out.append(w0 * src[tri[0]] + w1 * src[tri[1]] + w2 * src[tri[2]])
    return np.array(out)


def bary_picks(n_min=1, n_max=8):
    return st.lists(
        st.tuples(st.integers(0, 63), gen.q(0.01, 0.99), gen.q(0.01, 0.99)).map(list),
        min_size=n_min,
        max_size=n_max,
    )


# ---- any transform


@st.composite
def transform_case(draw, d=None, kinds=None, depth=0):
    all_kinds = kinds or (HOMOG_KINDS + OTHER_KINDS)
    kind = draw(st.sampled_from(all_kinds))
    if d is None:
        d = draw(st.sampled_from([2, 3]))
    if kind in HOMOG_KINDS:
        return draw(homog_case(kind=kind, d=d))
    if kind in ("ThinPlateSplines", "CachedPWA", "PythonPWA"):
        if d != 2:
            return draw(homog_case(d=d))
        return draw(warp_case(kind=kind))
    if kind == "WithDims":
        form = draw(st.sampled_from(["list", "int", "mask"]))
        if form == "list":
            dims = draw(st.lists(st.integers(0, d - 1), min_size=1, max_size=d, unique=True))
        elif form == "int":
            dims = draw(st.integers(0, d - 1))
        else:
            dims = draw(st.lists(st.booleans(), min_size=d, max_size=d).filter(any))
        return {"kind": "WithDims", "d": d, "form": form, "dims": dims}
    if kind == "TransformChain":
        k = draw(st.integers(1, 3))
        members = [draw(homog_case(d=d)) for _ in range(k)]
        return {"kind": "TransformChain", "d": d, "members": members}
    raise ValueError(kind)


def build_transform(case):
    import menpo.transform as mt

    kind = case["kind"]
    if kind in HOMOG_KINDS:
        return build_homog(case)
    if kind in ("ThinPlateSplines", "CachedPWA", "PythonPWA"):
        return build_warp(case)
    if kind == "WithDims":
        dims = case["dims"]
        if case["form"] == "mask":
            dims = np.array(dims, dtype=bool)
        return mt.WithDims(dims)
    if kind == "TransformChain":
        return mt.TransformChain([build_transform(m) for m in case["members"]])
    raise ValueError(kind)


def out_dims(case):
    if case["kind"] == "WithDims":
        if case["form"] == "int":
            return 1
        if case["form"] == "mask":
            return int(sum(case["dims"]))
        return len(case["dims"])
    return case["d"]


# reference evaluation of a homogeneous matrix on points, by explicit loops
def ref_apply_h(h, x):
    h = np.asarray(h, dtype=float)
    x = np.asarray(x, dtype=float)
    d = h.shape[0] - 1
    out = np.zeros((x.shape[0], d))
    for i in range(x.shape[0]):
        v = [sum(h[r, c] * x[i, c] for c in range(d)) + h[r, d] for r in range(d + 1)]
        for r in range(d):
            out[i, r] = v[r] / v[d]
    return out


# ==============================================================================================
# images


@st.composite
def image_case(draw, classes=("Image", "MaskedImage", "BooleanImage"), ndim=2, smin=4, smax=24, ch=(1, 4),
               dtypes=("float64", "float32", "uint8"), with_landmarks=True, fills=("random", "coords")):
    cls = draw(st.sampled_from(list(classes)))
    shape = draw(st.lists(st.integers(smin, smax), min_size=ndim, max_size=ndim))
    c = {"cls": cls, "shape": shape, "seed": draw(st.integers(0, 2**16))}
    if cls == "BooleanImage":
        c["ch"] = 1
        c["dtype"] = "bool"
        c["fill"] = draw(st.sampled_from(["random", "blob", "all"]))
    else:
        c["ch"] = draw(st.integers(ch[0], ch[1]))
        c["dtype"] = draw(st.sampled_from(list(dtypes)))
        c["fill"] = draw(st.sampled_from(list(fills)))
    if cls == "MaskedImage":
        c["mask"] = draw(st.sampled_from(["all", "random", "blob", "single"]))
    if with_landmarks:
        k = draw(st.integers(0, 2))
        names = draw(st.lists(st.sampled_from(["g", "PTS", "left eye", "ü"]), min_size=k, max_size=k, unique=True))
        lms = []
        for nm in names:
            n = draw(st.integers(1, 6))
            # fractional positions inside the image, as fractions of (shape-1)
            fr = draw(st.lists(st.lists(gen.q(0.1, 0.9, 256), min_size=ndim, max_size=ndim), min_size=n, max_size=n))
            kind = draw(st.sampled_from(["PointCloud", "PointUndirectedGraph", "LabelledPointUndirectedGraph"]))
            lms.append([nm, {"kind": kind, "fr": fr}])
        c["lms"] = lms
    return c


def _mask_array(kind, shape, rs):
    if kind == "all":
        return np.ones(shape, dtype=bool)
    if kind == "random":
        m = rs.rand(*shape) > 0.4
    elif kind == "single":
        m = np.zeros(shape, dtype=bool)
        m[tuple(rs.randint(0, s) for s in shape)] = True
        return m
    else:  # blob: a box in the middle
        m = np.zeros(shape, dtype=bool)
        sl = tuple(slice(s // 4, max(s // 4 + 1, (3 * s) // 4)) for s in shape)
        m[sl] = True
    if not m.any():
        m[tuple(0 for _ in shape)] = True
    return m


def coords_pixels(shape, ch):
    """Identity-coordinate image: channel k holds the k-th pixel coordinate (extra channels hold
    fixed affine functions of the coordinates)."""
    nd = len(shape)
    grids = np.meshgrid(*[np.arange(s, dtype=float) for s in shape], indexing="ij")
    out = []
    for k in range(ch):
        if k < nd:
            out.append(grids[k])
        else:
            out.append(sum((a + 1 + k) * g for a, g in enumerate(grids)) + k)
    return np.array(out)


def build_image_landmark(spec, shape):
    from menpo.shape import PointCloud, PointUndirectedGraph, LabelledPointUndirectedGraph

    pts = np.array(spec["fr"], dtype=float) * (np.array(shape, dtype=float) - 1)
    n = pts.shape[0]
    if spec["kind"] == "PointCloud":
        return PointCloud(pts)
    adj = np.zeros((n, n), dtype=int)
    for i in range(n - 1):
        adj[i, i + 1] = adj[i + 1, i] = 1
    if spec["kind"] == "PointUndirectedGraph":
        return PointUndirectedGraph(pts, adj)
    l2m = OrderedDict()
    l2m["all"] = np.ones(n, dtype=bool)
    first = np.zeros(n, dtype=bool)
    first[0] = True
    l2m["first"] = first
    return LabelledPointUndirectedGraph(pts, adj, l2m)


def build_image(c):
    from menpo.image import Image, MaskedImage, BooleanImage

    rs = np.random.RandomState(c["seed"])
    shape = tuple(c["shape"])
    if c["cls"] == "BooleanImage":
        im = BooleanImage(_mask_array(c["fill"], shape, rs))
    else:
        if c["fill"] == "coords":
            px = coords_pixels(shape, c["ch"])
            if c["dtype"] == "uint8":
                px = np.clip(px, 0, 255)
            px = px.astype(c["dtype"])
        else:
            if c["dtype"] == "uint8":
                px = rs.randint(0, 256, size=(c["ch"],) + shape).astype(np.uint8)
            else:
                px = rs.rand(c["ch"], *shape).astype(c["dtype"])
        if c["cls"] == "MaskedImage":
            im = MaskedImage(px, mask=_mask_array(c["mask"], shape, rs))
        else:
            im = Image(px)
    for nm, spec in c.get("lms", []):
        im.landmarks[nm] = build_image_landmark(spec, shape)
    return im
