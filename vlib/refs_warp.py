"""Independent reference models used by C04 (pseudoinverse) and C08 (retargeting).  Plain numpy / python loops, no menpo.

Conventions: point sets are (n, d) arrays; a homogeneous matrix h maps x -> (h[:d,:d] x + h[:d,d]) / (h[d,:d] x + h[d,d]).
The rotation reference does NOT use the SVD route menpo uses: it takes the orthogonal polar factor of the correlation
matrix through a symmetric eigen-decomposition (numpy.linalg.eigh).  The thin-plate-spline reference assembles the bordered
system entry by entry and solves it with numpy.linalg.solve (numpy.linalg.lstsq with an rcond cut when a singular-value
floor is active); menpo multiplies by an explicitly truncated SVD pseudo-inverse.
"""
import math

import numpy as np


# ------------------------------------------------------------------------------------------ homogeneous
def hm(lin, t):
    lin = np.asarray(lin, dtype=float)
    d = lin.shape[0]
    h = np.eye(d + 1)
    h[:d, :d] = lin
    h[:d, d] = np.asarray(t, dtype=float)
    return h


def apply_h(h, x):
    """Homogeneous matrix applied to points by explicit loops (perspective divide included)."""
    h = np.asarray(h, dtype=float)
    x = np.asarray(x, dtype=float)
    d = h.shape[0] - 1
    out = np.zeros((x.shape[0], d))
    for i in range(x.shape[0]):
        v = [sum(h[r, c] * x[i, c] for c in range(d)) + h[r, d] for r in range(d + 1)]
        for r in range(d):
            out[i, r] = v[r] / v[d]
    return out


def divisors(h, x):
    """Homogeneous divisor h[d,:d].x + h[d,d] of every point."""
    h = np.asarray(h, dtype=float)
    x = np.asarray(x, dtype=float)
    d = h.shape[0] - 1
    return x.dot(h[d, :d]) + h[d, d]


def solve_inverse_h(h, y):
    """The point x with h(x) = y, found per point by solving h z = (y, 1) and dividing (no matrix inverse)."""
    h = np.asarray(h, dtype=float)
    y = np.asarray(y, dtype=float)
    d = h.shape[0] - 1
    out = np.zeros((y.shape[0], d))
    for i in range(y.shape[0]):
        z = np.linalg.solve(h, np.concatenate([y[i], [1.0]]))
        out[i] = z[:d] / z[d]
    return out


def cond_h(h):
    s = np.linalg.svd(np.asarray(h, dtype=float), compute_uv=False)
    return float(s[0] / max(s[-1], 1e-300))


# class-honesty predicates on an h_matrix; every one returns (ok, text)
def _affine_row(h, tol):
    d = h.shape[0] - 1
    return bool(np.all(np.abs(h[d, :d]) <= tol) and abs(h[d, d] - 1) <= tol)


def honest(name, h, tol=1e-9):
    """Is the matrix h a member of the family the class `name` stands for?"""
    h = np.asarray(h, dtype=float)
    if h.ndim != 2 or h.shape[0] != h.shape[1] or not np.all(np.isfinite(h)):
        return False
    d = h.shape[0] - 1
    lin, t = h[:d, :d], h[:d, d]
    sc = max(1.0, float(np.abs(h).max()))
    tol = tol * sc
    if name == "Homogeneous":
        return abs(np.linalg.det(h)) > 0
    if not _affine_row(h, tol):
        return False
    if name == "Affine":
        return True
    if name == "Similarity":
        g = lin.T.dot(lin)
        s2 = float(np.trace(g)) / d
        return s2 > 0 and bool(np.all(np.abs(g - s2 * np.eye(d)) <= tol * max(1.0, s2)))
    if name == "Rotation":
        return bool(np.all(np.abs(lin.T.dot(lin) - np.eye(d)) <= tol) and np.all(np.abs(t) <= tol))
    if name == "Translation":
        return bool(np.all(np.abs(lin - np.eye(d)) <= tol))
    if name == "UniformScale":
        return bool(np.all(np.abs(lin - lin[0, 0] * np.eye(d)) <= tol) and np.all(np.abs(t) <= tol) and lin[0, 0] != 0)
    if name == "NonUniformScale":
        return bool(np.all(np.abs(lin - np.diag(np.diag(lin))) <= tol) and np.all(np.abs(t) <= tol) and np.all(np.diag(lin) != 0))
    raise KeyError(name)


HONESTY_TABLE = ["Homogeneous", "Affine", "Similarity", "Rotation", "Translation", "UniformScale", "NonUniformScale"]


# ------------------------------------------------------------------------------------------ alignment fits
def centroid(p):
    p = np.asarray(p, dtype=float)
    return p.sum(axis=0) / p.shape[0]


def cnorm(p):
    """Frobenius norm about the centroid."""
    p = np.asarray(p, dtype=float)
    c = p - centroid(p)
    return math.sqrt(float((c * c).sum()))


def fit_translation(src, tgt):
    d = np.asarray(src).shape[1]
    return hm(np.eye(d), centroid(tgt) - centroid(src))


def fit_uniform_scale(src, tgt):
    d = np.asarray(src).shape[1]
    return hm(np.eye(d) * (cnorm(tgt) / cnorm(src)), np.zeros(d))


def fit_affine(src, tgt):
    src = np.asarray(src, dtype=float)
    tgt = np.asarray(tgt, dtype=float)
    n, d = src.shape
    a = np.concatenate([src, np.ones((n, 1))], axis=1)
    m, _, _, _ = np.linalg.lstsq(a, tgt, rcond=None)
    return hm(m[:d].T, m[d])


def fit_rotation(src, tgt, allow_mirror):
    """Orthogonal matrix R minimising sum |R s_i - t_i|^2 (about the origin); det(R) = +1 unless allow_mirror.
    Returns (R, well_posed).  Route: R = C (C^T C)^(-1/2) with C = sum t_i s_i^T, the inverse square root through eigh;
    when a proper rotation is demanded and det(C) < 0 the direction of the smallest eigenvalue is flipped."""
    src = np.asarray(src, dtype=float)
    tgt = np.asarray(tgt, dtype=float)
    c = tgt.T.dot(src)
    w, v = np.linalg.eigh(c.T.dot(c))  # ascending
    sv = np.sqrt(np.maximum(w, 0.0))
    top = float(sv[-1]) if sv[-1] > 0 else 1.0
    well = sv[0] / top > 1e-3
    inv = 1.0 / np.maximum(sv, 1e-300)
    if not allow_mirror and np.linalg.det(c) < 0:
        inv = inv.copy()
        inv[0] = -inv[0]
        well = well and (sv[1] - sv[0]) / top > 1e-3
    r = c.dot(v).dot(np.diag(inv)).dot(v.T)
    return r, bool(well)


def fit_similarity(src, tgt, rotation, allow_mirror):
    """menpo's documented Procrustes similarity: centre, scale by the ratio of the centred norms, optimal rotation of the
    centred sets (optional), move to the target centroid.  Returns (h, well_posed)."""
    src = np.asarray(src, dtype=float)
    tgt = np.asarray(tgt, dtype=float)
    d = src.shape[1]
    cs, ct = centroid(src), centroid(tgt)
    s = cnorm(tgt) / cnorm(src)
    well = True
    r = np.eye(d)
    if rotation:
        r, well = fit_rotation(src - cs, tgt - ct, allow_mirror)
    lin = s * r
    return hm(lin, ct - lin.dot(cs)), well


def fit_alignment(cls, src, tgt, opts):
    """(h_matrix, well_posed) of the alignment class named cls."""
    d = np.asarray(src).shape[1]
    if cls == "AlignmentTranslation":
        return fit_translation(src, tgt), True
    if cls == "AlignmentUniformScale":
        return fit_uniform_scale(src, tgt), True
    if cls == "AlignmentAffine":
        return fit_affine(src, tgt), True
    if cls == "AlignmentRotation":
        r, well = fit_rotation(src, tgt, opts.get("allow_mirror", False))
        return hm(r, np.zeros(d)), well
    if cls == "AlignmentSimilarity":
        return fit_similarity(src, tgt, opts.get("rotation", True), opts.get("allow_mirror", False))
    raise KeyError(cls)


# ------------------------------------------------------------------------------------------ thin plate splines
def tps_u(r, kind):
    """Radial basis value at distance r: r^2 log r^2 (default / R2LogR2RBF) or r^2 log r (R2LogRRBF); 0 at r = 0."""
    if r == 0.0:
        return 0.0
    if kind in (None, "R2LogR2RBF"):
        return r * r * math.log(r * r)
    if kind == "R2LogRRBF":
        return r * r * math.log(r)
    raise KeyError(kind)


def tps_system(src, kind):
    src = np.asarray(src, dtype=float)
    n = src.shape[0]
    big = np.zeros((n + 3, n + 3))
    for i in range(n):
        for j in range(n):
            big[i, j] = tps_u(math.hypot(src[i, 0] - src[j, 0], src[i, 1] - src[j, 1]), kind)
        big[i, n], big[i, n + 1], big[i, n + 2] = 1.0, src[i, 0], src[i, 1]
        big[n, i], big[n + 1, i], big[n + 2, i] = 1.0, src[i, 0], src[i, 1]
    return big


def tps_fit(src, tgt, kind, floor):
    """Weights of the spline through src -> tgt.  Returns dict(w, sv, mode, clear):
    mode 'solve' (no singular value below the floor: exact bordered solve) or 'truncated' (minimum-norm least squares on
    the singular directions >= floor, via lstsq's rcond); clear = no singular value within a factor 2 of the floor."""
    src = np.asarray(src, dtype=float)
    tgt = np.asarray(tgt, dtype=float)
    n = src.shape[0]
    big = tps_system(src, kind)
    rhs = np.zeros((n + 3, 2))
    rhs[:n] = tgt
    sv = np.linalg.svd(big, compute_uv=False)
    clear = not np.any((sv > floor / 2.0) & (sv < floor * 2.0))
    if sv.min() >= floor:
        w = np.linalg.solve(big, rhs)
        mode = "solve"
    else:
        w, _, _, _ = np.linalg.lstsq(big, rhs, rcond=floor / sv.max())
        mode = "truncated"
    return {"w": w, "sv": sv, "mode": mode, "clear": bool(clear)}


def tps_eval(src, w, kind, q):
    src = np.asarray(src, dtype=float)
    q = np.asarray(q, dtype=float)
    n = src.shape[0]
    out = np.zeros((q.shape[0], 2))
    for a in range(q.shape[0]):
        acc = w[n] + w[n + 1] * q[a, 0] + w[n + 2] * q[a, 1]
        for i in range(n):
            acc = acc + w[i] * tps_u(math.hypot(q[a, 0] - src[i, 0], q[a, 1] - src[i, 1]), kind)
        out[a] = acc
    return out


# ------------------------------------------------------------------------------------------ piecewise affine
def tri_signed_areas(pts, trilist):
    pts = np.asarray(pts, dtype=float)
    out = []
    for tri in trilist:
        a, b, c = pts[tri[0]], pts[tri[1]], pts[tri[2]]
        out.append(0.5 * ((b[0] - a[0]) * (c[1] - a[1]) - (b[1] - a[1]) * (c[0] - a[0])))
    return np.array(out)


def min_altitudes(pts, trilist):
    """For every vertex the smallest altitude of any triangle it belongs to (inf when it belongs to none)."""
    pts = np.asarray(pts, dtype=float)
    out = np.full(pts.shape[0], np.inf)
    for tri, area in zip(trilist, tri_signed_areas(pts, trilist)):
        a, b, c = pts[tri[0]], pts[tri[1]], pts[tri[2]]
        longest = max(np.linalg.norm(b - a), np.linalg.norm(c - b), np.linalg.norm(a - c))
        alt = 2.0 * abs(area) / longest
        for k in tri:
            out[k] = min(out[k], alt)
    return out


def pwa_eval(src, tgt, trilist, x, eps=1e-12):
    """Barycentric reference map: (values, outside_mask).  The first triangle containing the point is used."""
    src = np.asarray(src, dtype=float)
    tgt = np.asarray(tgt, dtype=float)
    x = np.asarray(x, dtype=float)
    out = np.zeros_like(x)
    outside = np.ones(x.shape[0], dtype=bool)
    for i, p in enumerate(x):
        for tri in trilist:
            a, b, c = src[tri[0]], src[tri[1]], src[tri[2]]
            m00, m01, m10, m11 = b[0] - a[0], c[0] - a[0], b[1] - a[1], c[1] - a[1]
            det = m00 * m11 - m01 * m10
            if abs(det) < 1e-14:
                continue
            r0, r1 = p[0] - a[0], p[1] - a[1]
            al = (r0 * m11 - r1 * m01) / det
            be = (m00 * r1 - m10 * r0) / det
            if al >= -eps and be >= -eps and al + be <= 1 + eps:
                ta, tb, tc = tgt[tri[0]], tgt[tri[1]], tgt[tri[2]]
                out[i] = ta + al * (tb - ta) + be * (tc - ta)
                outside[i] = False
                break
    return out, outside


def grid_trilist(gx, gy, diagonals):
    """Explicit triangulation of a gx x gy lattice of vertices (index = ix + gx*iy): every cell split along one of its
    two diagonals (diagonals[k] truthy -> the other one), all triangles counter-clockwise in (x, y)."""
    tris = []
    k = 0
    for iy in range(gy - 1):
        for ix in range(gx - 1):
            p00 = ix + gx * iy
            p10 = p00 + 1
            p01 = p00 + gx
            p11 = p01 + 1
            if diagonals[k % len(diagonals)]:
                tris.append([p00, p10, p11])
                tris.append([p00, p11, p01])
            else:
                tris.append([p00, p10, p01])
                tris.append([p10, p11, p01])
            k += 1
    return tris
