"""Helpers shared by C05 / C06: normalised deep-state digests, write probes, sharing whitelists.

Normalisation: ``Landmarkable.landmarks`` creates an empty LandmarkManager on first read, so
``_landmarks is None`` and ``_landmarks == <empty manager>`` are the same observable state
(has_landmarks False, n_groups 0).  ndigest / nstate_diff treat them as equal by dropping the three
marker entries of an empty manager; a manager WITH groups still contributes every group entry, so
losing or gaining a group is always seen.
"""
import re

import numpy as np

from . import digest as _dg

_EMPTY_LM = ("._landmarks", "._landmarks<type>", "._landmarks._landmark_groups<type>")


def _norm_items(items):
    return [(p, l) for p, l in items if not p.endswith(_EMPTY_LM)]


def nwalk(obj, skip=()):
    return _norm_items(_dg.walk(obj, skip=skip))


def ndigest(obj, with_flags=True, skip=()):
    return tuple((p, _dg._leaf_token(l, with_flags)) for p, l in nwalk(obj, skip))


def ndiff(d1, d2):
    """Mutation check between a 'before' and an 'after' digest of the same object; tolerant of lazily filled private
    cache attributes (see vlib.digest.parameter_mutation)."""
    return _dg.parameter_mutation(d1, d2)


def _private(path):
    parts = [q for q in path.replace("]", "").replace("[", ".").split(".") if q]
    return any(q.startswith("_") and not q.startswith("__") for q in parts)


def nstate_diff(a, b, rtol=0.0, atol=0.0, skip=(), loose_dtype=()):
    """state_diff of vlib.digest on the normalised walks; None when equal."""
    la, lb = nwalk(a, skip), nwalk(b, skip)
    ma, mb = dict(la), dict(lb)
    for p, x in la:
        if p not in mb:
            return "%s missing in second" % p
        y = mb[p]
        if x is None and y is not None and p.rsplit(".", 1)[-1].startswith("_") and not p.endswith("._landmarks"):
            # a private slot that the constructor leaves at None and a method fills lazily (a memo) is not observable
            # state: `a` is the reference (freshly constructed) side, `b` the derived one
            continue
        if isinstance(x, np.ndarray) or isinstance(y, np.ndarray):
            if not (isinstance(x, np.ndarray) and isinstance(y, np.ndarray)):
                return "%s: %s vs %s" % (p, type(x).__name__, type(y).__name__)
            if x.shape != y.shape:
                return "%s: shape %s vs %s" % (p, x.shape, y.shape)
            if x.dtype != y.dtype:
                if any(p.endswith(sfx) for sfx in loose_dtype) and x.dtype.kind in "iuf" and y.dtype.kind in "iuf":
                    # the values are what is observable; an integer-typed matrix may come back as float
                    x, y = x.astype(float), y.astype(float)
                else:
                    return "%s: dtype %s vs %s" % (p, x.dtype, y.dtype)
            if x.dtype.kind in "fc" and (rtol or atol):
                sc = max(1.0, float(np.abs(y).max())) if y.size else 1.0
                ok = bool(np.all(np.abs(x - y) <= atol + rtol * sc) or np.array_equal(x, y, equal_nan=True))
            elif x.dtype.kind in "fc":
                ok = np.array_equal(x, y, equal_nan=True)
            else:
                ok = np.array_equal(x, y)
            if not ok:
                return "%s: arrays differ" % p
        else:
            tx, ty = _dg._leaf_token(x, False), _dg._leaf_token(y, False)
            if tx != ty:
                if isinstance(x, float) and isinstance(y, float) and (rtol or atol) and abs(x - y) <= atol + rtol * max(1.0, abs(y)):
                    continue
                return "%s: %r vs %r" % (p, x, y)
    for p, _ in lb:
        if p not in ma:
            # only on the derived side and private, with a private attribute on the way: created lazily by a method
            # (the constructor of the reference side did not create it) - a memo, not observable state
            if _private(p) and not any(q.startswith(p.split("._", 1)[0] + "._" + p.split("._", 1)[1].split(".")[0].split("[")[0]) for q in ma):
                continue
            return "%s missing in first" % p
    return None


_KEY = re.compile(r"""\[(?:'(?:[^'\\]|\\.)*'|"(?:[^"\\]|\\.)*"|[^\]'"])*\]""")


def strip_keys(path):
    """Path with the contents of [..] removed (signatures must not carry case data)."""
    return _KEY.sub("[]", str(path))


def poke(buf):
    """Overwrite every element of a writable array with a different value (the sentinel write)."""
    if buf.dtype == bool:
        buf[...] = ~buf
    elif buf.dtype.kind in "iu":
        buf[...] = buf + 1
    elif buf.dtype.kind in "fc":
        buf[...] = np.where(np.isfinite(buf), buf + 1.0 + np.abs(buf), 7.0)
    else:
        return False
    return True


def writable_buffers(obj, skip=()):
    return [(p, b) for p, b in _dg.buffers(obj, skip) if isinstance(b, np.ndarray) and b.size and b.flags.writeable]


def frozen_buffers(obj, skip=()):
    return [p for p, b in _dg.buffers(obj, skip) if isinstance(b, np.ndarray) and not b.flags.writeable]


# --------------------------------------------------------------------------- documented sharing
# HomogFamilyAlignment.copy is documented as shallow except for the matrix ("Shallow copy everything
# except the h_matrix"): the point sets it was fitted to are shared.  TransformChain keeps a new list of
# the same member transforms.  Anything below such a path is therefore allowed to be shared.
_ALIGN_SHARED = re.compile(r"(^|\])\._(source|target)(\.|$|<)")
_CHAIN_MEMBER = re.compile(r"^\.transforms\[\]")


def sharing_allowed(path_a, path_b):
    path_a, path_b = strip_keys(path_a), strip_keys(path_b)
    for p in (path_a, path_b):
        if _CHAIN_MEMBER.match(p):
            return True
    return bool(_ALIGN_SHARED.search(path_a)) and bool(_ALIGN_SHARED.search(path_b))


def is_shared_by_design(path):
    path = strip_keys(path)
    return bool(_CHAIN_MEMBER.match(path)) or bool(_ALIGN_SHARED.search(path))
