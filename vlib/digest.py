"""Deep observable-state walk of menpo object graphs.

walk(obj) yields (path, leaf) for every ndarray / sparse-matrix component / scalar reachable through
__dict__, dict, list, tuple.  digest(obj) is a hashable fingerprint (dtype, shape, bytes, writeable)
used for "unchanged before/after" clauses; buffers(obj) lists the ndarray buffers for aliasing
clauses; state_diff(a, b) walks two graphs in lock step and reports the first differing path.
"""
import hashlib
from pathlib import PurePath

import numpy as np
import scipy.sparse as sp

_SKIP_ATTRS = {"_view_widget"}


def _children(obj):
    if isinstance(obj, dict):
        return [("[%r]" % (k,), v) for k, v in obj.items()]
    if isinstance(obj, (list, tuple)):
        return [("[%d]" % i, v) for i, v in enumerate(obj)]
    if sp.issparse(obj):
        c = obj.tocoo()
        order = np.lexsort((c.col, c.row))
        return [
            (".shape", tuple(obj.shape)),
            (".row", np.asarray(c.row)[order]),
            (".col", np.asarray(c.col)[order]),
            (".data", np.asarray(c.data)[order]),
        ]
    d = getattr(obj, "__dict__", None)
    if d is not None and not isinstance(obj, type) and not callable(obj):
        return [("." + k, v) for k, v in d.items() if k not in _SKIP_ATTRS]
    return None


def walk(obj, path="", _seen=None, skip=()):
    """Yield (path, leaf). Leaves: ndarray, scalars, str, None, callables, unknown objects."""
    if _seen is None:
        _seen = set()
    if isinstance(obj, np.ndarray):
        yield path, obj
        return
    if isinstance(obj, (str, bytes, int, float, complex, bool, type(None), np.generic, PurePath)):
        yield path, obj
        return
    oid = id(obj)
    if oid in _seen:
        yield path, ("<cycle>",)
        return
    ch = _children(obj)
    if ch is None:
        yield path, ("<opaque %s>" % type(obj).__name__,)
        return
    _seen = _seen | {oid}
    yield path + "<type>", type(obj).__name__
    for name, v in ch:
        if any(name.endswith(s) or (path + name).endswith(s) for s in skip):
            continue
        for item in walk(v, path + name, _seen, skip):
            yield item


def _leaf_token(leaf, with_flags):
    if isinstance(leaf, np.ndarray):
        h = hashlib.sha1(np.ascontiguousarray(leaf).tobytes()).hexdigest()[:16]
        tok = ("nd", str(leaf.dtype), leaf.shape, h)
        if with_flags:
            tok = tok + (bool(leaf.flags.writeable),)
        return tok
    if isinstance(leaf, float) and leaf != leaf:
        return ("nan",)
    if isinstance(leaf, PurePath):
        return ("path", str(leaf))
    if isinstance(leaf, np.generic):
        return ("np", str(leaf.dtype), leaf.item() if leaf == leaf else "nan")
    return ("v", type(leaf).__name__, leaf)


def digest(obj, with_flags=True, skip=()):
    return tuple((p, _leaf_token(l, with_flags)) for p, l in walk(obj, skip=skip))


def digest_diff(d1, d2):
    """First difference between two digests (path, before, after) or None."""
    m2 = dict(d2)
    m1 = dict(d1)
    for p, t in d1:
        if p not in m2:
            return (p, t, "<missing>")
        if m2[p] != t:
            return (p, t, m2[p])
    for p, t in d2:
        if p not in m1:
            return (p, "<missing>", t)
    return None


def buffers(obj, skip=()):
    """(path, ndarray) for every array reachable from obj; sparse matrices contribute their real
    data/indices/indptr buffers (not the canonical COO copy)."""
    out = []

    def rec(o, path, seen):
        if isinstance(o, np.ndarray):
            out.append((path, o))
            return
        if isinstance(o, (str, bytes, int, float, complex, bool, type(None), np.generic, PurePath)):
            return
        if id(o) in seen:
            return
        seen = seen | {id(o)}
        if sp.issparse(o):
            for nm in ("data", "indices", "indptr", "row", "col"):
                a = getattr(o, nm, None)
                if isinstance(a, np.ndarray):
                    out.append((path + "." + nm, a))
            return
        ch = _children(o)
        if ch is None:
            return
        for name, v in ch:
            if any(name.endswith(s) or (path + name).endswith(s) for s in skip):
                continue
            rec(v, path + name, seen)

    rec(obj, "", set())
    return out


def shared_buffers(a, b, skip=()):
    """Pairs of paths whose arrays share memory between object graphs a and b."""
    ba = [(p, x) for p, x in buffers(a, skip) if x.size]
    bb = [(p, x) for p, x in buffers(b, skip) if x.size]
    hits = []
    for pa, xa in ba:
        for pb, xb in bb:
            if np.shares_memory(xa, xb):
                hits.append((pa, pb))
    return hits


def _private_prefix(path):
    """Path up to and including its first private attribute component, or None."""
    import re
    m = re.search(r"\._[A-Za-z0-9][A-Za-z0-9_]*", path)
    if not m or path[m.start():m.start() + 3] == ".__":
        return None
    return path[:m.end()]


def _absent_private(path, other_paths):
    """True if `path` lies under a private attribute that the other object does not have at all (a memo slot that
    only one of the two instances has filled so far).  An attribute present on both sides, even as None, is state."""
    pre = _private_prefix(path)
    if pre is None:
        return False
    return not any(q == pre or q.startswith(pre + ".") or q.startswith(pre + "[") or q.startswith(pre + "<") for q in other_paths)


def state_diff(a, b, rtol=0.0, atol=0.0, skip=(), memo_tolerant=False):
    """Walk two graphs in lock-step; return None if equal (within tolerance for float arrays),
    else a description of the first difference.  memo_tolerant: a private attribute that exists on one side only
    (not even as None on the other) is ignored - see _absent_private."""
    la = list(walk(a, skip=skip))
    lb = list(walk(b, skip=skip))
    ma = dict(la)
    mb = dict(lb)
    if memo_tolerant:
        la = [(p, x) for p, x in la if not _absent_private(p, mb)]
        lb = [(p, y) for p, y in lb if not _absent_private(p, ma)]
        ma, mb = dict(la), dict(lb)
    for p, x in la:
        if p not in mb:
            return "%s missing in second" % p
        y = mb[p]
        if isinstance(x, np.ndarray) or isinstance(y, np.ndarray):
            if not (isinstance(x, np.ndarray) and isinstance(y, np.ndarray)):
                return "%s: %r vs %r" % (p, type(x).__name__, type(y).__name__)
            if x.shape != y.shape:
                return "%s: shape %s vs %s" % (p, x.shape, y.shape)
            if x.dtype != y.dtype:
                return "%s: dtype %s vs %s" % (p, x.dtype, y.dtype)
            if x.dtype.kind in "fc":
                ok = np.allclose(x, y, rtol=rtol, atol=atol, equal_nan=True) if (rtol or atol) else np.array_equal(x, y, equal_nan=True)
            else:
                ok = np.array_equal(x, y)
            if not ok:
                return "%s: arrays differ" % p
        else:
            tx, ty = _leaf_token(x, False), _leaf_token(y, False)
            if tx != ty:
                if isinstance(x, float) and isinstance(y, float) and (rtol or atol) and abs(x - y) <= atol + rtol * abs(y):
                    continue
                return "%s: %r vs %r" % (p, x, y)
    for p, y in lb:
        if p not in ma:
            return "%s missing in first" % p
    return None


def parameter_mutation(before, after):
    """Like digest_diff, but tolerant of lazily filled caches: a private attribute (last path component starts with
    '_') that was absent or None before and exists afterwards is not a mutation of the object's observable
    state.  Everything that existed before must be unchanged; public attributes may not appear or disappear."""
    mb, ma = dict(before), dict(after)

    def private_leaf(path):
        # the owning attribute of the path: first component after the last '.' that starts a private name
        parts = [q for q in path.replace("]", "").replace("[", ".").split(".") if q]
        return any(q.startswith("_") and not q.startswith("__") for q in parts)

    for p, t in before:
        if p not in ma:
            if private_leaf(p) and t == ("v", "NoneType", None):
                continue
            return (p, t, "<missing>")
        if ma[p] != t:
            if private_leaf(p) and t == ("v", "NoneType", None):
                continue  # a cache slot initialised to None got filled
            return (p, t, ma[p])
    for p, t in after:
        if p not in mb and not private_leaf(p):
            return (p, "<missing>", t)
    return None


# ----------------------------------------------------------------------------------------------
# public views: what a user can read back from a shape or an image, independent of private layout


def _lm_view(obj):
    try:
        if not getattr(obj, "has_landmarks", False):
            return None
        lms = obj.landmarks
        return [(g, public_view(lms[g])) for g in lms.keys()]
    except Exception as e:  # reading landmarks must not fail on a well-formed object
        return ("<raises %s>" % type(e).__name__,)


def public_view(obj):
    """Plain nested structure of everything the public API of a shape / image exposes as data: class, points or
    pixels, connectivity, per-vertex attributes, texture, labels (name -> member indices, in order), mask, landmark
    groups (in order) and path.  Private attributes (memo slots included) never enter the view, so two objects with
    equal views are indistinguishable to a caller.  Other objects are returned as they are."""
    from menpo.shape import PointCloud
    from menpo.image import Image

    if isinstance(obj, PointCloud):
        v = {"<type>": type(obj).__name__, "points": obj.points}
        if hasattr(obj, "adjacency_matrix"):
            v["adjacency"] = obj.adjacency_matrix
        if hasattr(obj, "trilist"):
            v["trilist"] = obj.trilist
        if hasattr(obj, "colours"):
            v["colours"] = obj.colours
        if hasattr(obj, "tcoords"):
            v["tcoords"] = public_view(obj.tcoords)
        if hasattr(obj, "texture"):
            v["texture"] = public_view(obj.texture)
        if hasattr(obj, "labels") and hasattr(obj, "tojson"):
            v["labels"] = [(d["label"], tuple(d["mask"])) for d in obj.tojson()["labels"]]
        if hasattr(obj, "root_vertex"):
            v["root"] = obj.root_vertex
        v["landmarks"] = _lm_view(obj)
        return v
    if isinstance(obj, Image):
        v = {"<type>": type(obj).__name__, "pixels": obj.pixels}
        if hasattr(obj, "mask") and not isinstance(obj.mask, np.ndarray):
            v["mask"] = obj.mask.pixels
        v["landmarks"] = _lm_view(obj)
        v["path"] = getattr(obj, "path", None)
        return v
    return obj


def public_diff(a, b, rtol=0.0, atol=0.0):
    """state_diff over the public views of two shapes / images."""
    return state_diff(public_view(a), public_view(b), rtol=rtol, atol=atol, memo_tolerant=True)
