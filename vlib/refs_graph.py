"""Reference graph model for C14: dict-of-sets graph and textbook algorithms, plain Python only.

Nothing here imports menpo, numpy.linalg or scipy.sparse.csgraph.  Every algorithm iterates over
``range(n)`` / ``sorted(...)`` so that no result depends on set or dict iteration order.
"""

INF = float("inf")


class RefGraph(object):
    """n vertices 0..n-1; ``w`` maps (u, v) -> weight (undirected: both orientations present)."""

    def __init__(self, n, edges, directed, weights=None):
        self.n = n
        self.directed = directed
        self.succ = [set() for _ in range(n)]
        self.pred = [set() for _ in range(n)]
        self.w = {}
        for k, (u, v) in enumerate(edges):
            u, v = int(u), int(v)
            wt = 1 if weights is None else weights[k]
            self._add(u, v, wt)
            if not directed:
                self._add(v, u, wt)

    def _add(self, u, v, wt):
        self.succ[u].add(v)
        self.pred[v].add(u)
        self.w[(u, v)] = wt  # duplicates: the caller never gives conflicting weights

    # ------------------------------------------------------------------ basic views
    def edge_set(self):
        """directed: {(u, v)}; undirected: {(min, max)} (each edge once)."""
        if self.directed:
            return set(self.w)
        return set((min(u, v), max(u, v)) for (u, v) in self.w)

    def n_edges(self):
        return len(self.edge_set())

    def has_edge(self, u, v):
        return (u, v) in self.w

    def children(self, v):
        return sorted(self.succ[v])

    def parents(self, v):
        return sorted(self.pred[v])

    def isolated(self):
        return [v for v in range(self.n) if not self.succ[v] and not self.pred[v]]

    def pattern(self):
        return [[1 if (i, j) in self.w else 0 for j in range(self.n)] for i in range(self.n)]

    def weight_matrix(self):
        return [[self.w.get((i, j), 0) for j in range(self.n)] for i in range(self.n)]

    def is_complete(self):
        m = self.n * (self.n - 1)
        return len(self.w) == m

    def induced(self, keep):
        """Induced subgraph on the vertices with keep[v] true, renumbered in increasing order."""
        idx = [v for v in range(self.n) if keep[v]]
        new = {v: k for k, v in enumerate(idx)}
        g = RefGraph(len(idx), [], self.directed)
        for (u, v) in sorted(self.w):
            if u in new and v in new:
                g._add(new[u], new[v], self.w[(u, v)])
        return g, idx

    # ------------------------------------------------------------------ connectivity
    def components_undirected(self):
        """Weakly connected components by union-find; returns list of root ids per vertex."""
        parent = list(range(self.n))

        def find(x):
            while parent[x] != x:
                parent[x] = parent[parent[x]]
                x = parent[x]
            return x

        for (u, v) in sorted(self.w):
            ru, rv = find(u), find(v)
            if ru != rv:
                parent[max(ru, rv)] = min(ru, rv)
        return [find(v) for v in range(self.n)]

    def is_connected(self):
        return len(set(self.components_undirected())) <= 1

    # ------------------------------------------------------------------ cycles
    def has_cycle(self):
        if self.directed:
            return self._has_cycle_directed()
        return self._has_cycle_undirected()

    def _has_cycle_undirected(self):
        """Union-find over the distinct undirected edges: a cycle iff an edge joins one component."""
        parent = list(range(self.n))

        def find(x):
            while parent[x] != x:
                parent[x] = parent[parent[x]]
                x = parent[x]
            return x

        for (u, v) in sorted(self.edge_set()):
            ru, rv = find(u), find(v)
            if ru == rv:
                return True
            parent[ru] = rv
        return False

    def _has_cycle_directed(self):
        """Three-colour DFS (iterative): a grey successor is a back edge."""
        colour = [0] * self.n  # 0 white, 1 grey, 2 black
        for s in range(self.n):
            if colour[s]:
                continue
            stack = [(s, iter(sorted(self.succ[s])))]
            colour[s] = 1
            while stack:
                v, it = stack[-1]
                adv = False
                for y in it:
                    if colour[y] == 1:
                        return True
                    if colour[y] == 0:
                        colour[y] = 1
                        stack.append((y, iter(sorted(self.succ[y]))))
                        adv = True
                        break
                if not adv:
                    colour[v] = 2
                    stack.pop()
        return False

    def is_undirected_tree(self):
        return (not self.directed) and self.is_connected() and not self.has_cycle()

    def is_arborescence(self, root):
        """Every vertex reachable from root, root has no parent, every other vertex exactly one."""
        if not (0 <= root < self.n):
            return False
        if self.pred[root]:
            return False
        for v in range(self.n):
            if v != root and len(self.pred[v]) != 1:
                return False
        return all(d < INF for d in self.bfs(root))

    # ------------------------------------------------------------------ searches
    def bfs(self, s):
        """Hop distances from s (INF where unreachable)."""
        dist = [INF] * self.n
        dist[s] = 0
        frontier = [s]
        while frontier:
            nxt = []
            for u in frontier:
                for v in sorted(self.succ[u]):
                    if dist[v] == INF:
                        dist[v] = dist[u] + 1
                        nxt.append(v)
            frontier = nxt
        return dist

    def dijkstra(self, s, unweighted=False):
        """O(n^2) Dijkstra; positive weights."""
        dist = [INF] * self.n
        dist[s] = 0
        done = [False] * self.n
        for _ in range(self.n):
            u = -1
            for v in range(self.n):
                if not done[v] and dist[v] < INF and (u < 0 or dist[v] < dist[u]):
                    u = v
            if u < 0:
                break
            done[u] = True
            for v in sorted(self.succ[u]):
                wt = 1 if unweighted else self.w[(u, v)]
                if dist[u] + wt < dist[v]:
                    dist[v] = dist[u] + wt
        return dist

    def walk_weight(self, path, unweighted=False):
        """None if ``path`` is not an edge walk; else its total weight."""
        tot = 0
        for a, b in zip(path[:-1], path[1:]):
            if (a, b) not in self.w:
                return None
            tot += 1 if unweighted else self.w[(a, b)]
        return tot

    def simple_paths(self, s, t, budget=20000):
        """All simple paths s -> t (the trivial path [s] when s == t); None if budget exceeded."""
        out = []
        count = [0]

        def rec(v, path, on):
            count[0] += 1
            if count[0] > budget:
                return False
            if v == t:
                out.append(tuple(path))
                return True
            for y in sorted(self.succ[v]):
                if y not in on:
                    on.add(y)
                    path.append(y)
                    ok = rec(y, path, on)
                    path.pop()
                    on.discard(y)
                    if not ok:
                        return False
            return True

        if not rec(s, [s], {s}):
            return None
        return out

    # ------------------------------------------------------------------ spanning trees
    def kruskal_weight(self):
        """Total weight of a minimum spanning forest and its number of edges."""
        parent = list(range(self.n))

        def find(x):
            while parent[x] != x:
                parent[x] = parent[parent[x]]
                x = parent[x]
            return x

        es = sorted((self.w[(u, v)], u, v) for (u, v) in self.edge_set())
        tot, cnt = 0, 0
        for wt, u, v in es:
            ru, rv = find(u), find(v)
            if ru != rv:
                parent[ru] = rv
                tot += wt
                cnt += 1
        return tot, cnt


class RefTree(object):
    """Rooted tree given as parent -> child edges; parent map, depths, children from first principles."""

    def __init__(self, n, edges, root):
        self.n = n
        self.root = root
        self.par = [None] * n
        self.kids = [[] for _ in range(n)]
        for (p, c) in edges:
            self.par[int(c)] = int(p)
            self.kids[int(p)].append(int(c))
        for k in self.kids:
            k.sort()
        self.depth = [None] * n
        for v in range(n):
            d, x = 0, v
            while x != root:
                x = self.par[x]
                d += 1
                if x is None or d > n:
                    raise ValueError("not a tree rooted at %r" % (root,))
            self.depth[v] = d

    def leaves(self):
        return [v for v in range(self.n) if not self.kids[v]]

    def at_depth(self, d):
        return [v for v in range(self.n) if self.depth[v] == d]

    def max_depth(self):
        return max(self.depth)
