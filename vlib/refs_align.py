"""Independent reference models for C07 (alignments).  Plain numpy / python, no menpo.

Conventions: point sets are (n, d) arrays; a homogeneous matrix h maps x -> h[:d,:d] x + h[:d,d].
The rotation references deliberately do NOT use the SVD (Kabsch) route menpo uses: 2-D optima are closed-form
angles, 3-D optima come from Horn's quaternion eigenvector method; the SVD is only used to measure how well
separated the optimum is (uniqueness gap).
"""
import math

import numpy as np


# ------------------------------------------------------------------------------------------ basics
def hm(lin, t):
    lin = np.asarray(lin, dtype=float)
    d = lin.shape[0]
    h = np.eye(d + 1)
    h[:d, :d] = lin
    h[:d, d] = np.asarray(t, dtype=float)
    return h


def apply_h(h, x):
    """Affine homogeneous matrix applied to points by explicit loops."""
    h = np.asarray(h, dtype=float)
    x = np.asarray(x, dtype=float)
    d = h.shape[0] - 1
    out = np.zeros((x.shape[0], d))
    for i in range(x.shape[0]):
        for r in range(d):
            acc = h[r, d]
            for c in range(d):
                acc += h[r, c] * x[i, c]
            out[i, r] = acc
    return out


def centroid(p):
    p = np.asarray(p, dtype=float)
    return p.sum(axis=0) / p.shape[0]


def cnorm(p):
    """Frobenius norm about the centroid (the 'overall size')."""
    p = np.asarray(p, dtype=float)
    c = p - centroid(p)
    return math.sqrt(float((c * c).sum()))


def sse(a, b):
    """Sum of squared distances between corresponding points."""
    a = np.asarray(a, dtype=float)
    b = np.asarray(b, dtype=float)
    d = a - b
    return float((d * d).sum())


# ------------------------------------------------------------------------------------------ translation
def best_translation(src, tgt):
    return centroid(tgt) - centroid(src)


# ------------------------------------------------------------------------------------------ affine
def lstsq_affine(src, tgt):
    """Least-squares affine h-matrix by numpy lstsq on [x 1] M = y."""
    src = np.asarray(src, dtype=float)
    tgt = np.asarray(tgt, dtype=float)
    n, d = src.shape
    a = np.concatenate([src, np.ones((n, 1))], axis=1)
    m, _, _, _ = np.linalg.lstsq(a, tgt, rcond=None)
    return hm(m[:d].T, m[d])


def design_cond(src):
    src = np.asarray(src, dtype=float)
    a = np.concatenate([src, np.ones((src.shape[0], 1))], axis=1)
    s = np.linalg.svd(a, compute_uv=False)
    return float(s[0] / max(s[-1], 1e-300))


# ------------------------------------------------------------------------------------------ rotations
def correlation(src, tgt):
    """C[a, b] = sum_i tgt[i, a] * src[i, b]; the rotation R maximising trace(R^T C) minimises sum |R s_i - t_i|^2."""
    src = np.asarray(src, dtype=float)
    tgt = np.asarray(tgt, dtype=float)
    d = src.shape[1]
    c = np.zeros((d, d))
    for a in range(d):
        for b in range(d):
            c[a, b] = float((tgt[:, a] * src[:, b]).sum())
    return c


def _best_proper_2d(c):
    # R = [[cos, -sin], [sin, cos]]: trace(R^T C) = cos (c00 + c11) + sin (c10 - c01)
    th = math.atan2(c[1, 0] - c[0, 1], c[0, 0] + c[1, 1])
    co, si = math.cos(th), math.sin(th)
    r = np.array([[co, -si], [si, co]])
    return r, math.hypot(c[1, 0] - c[0, 1], c[0, 0] + c[1, 1])


def _best_improper_2d(c):
    # R = [[cos, sin], [sin, -cos]]: trace(R^T C) = cos (c00 - c11) + sin (c01 + c10)
    ph = math.atan2(c[0, 1] + c[1, 0], c[0, 0] - c[1, 1])
    co, si = math.cos(ph), math.sin(ph)
    r = np.array([[co, si], [si, -co]])
    return r, math.hypot(c[0, 1] + c[1, 0], c[0, 0] - c[1, 1])


def _quat_to_matrix(q):
    w, x, y, z = q
    return np.array(
        [
            [1 - 2 * (y * y + z * z), 2 * (x * y - z * w), 2 * (x * z + y * w)],
            [2 * (x * y + z * w), 1 - 2 * (x * x + z * z), 2 * (y * z - x * w)],
            [2 * (x * z - y * w), 2 * (y * z + x * w), 1 - 2 * (x * x + y * y)],
        ]
    )


def _best_proper_3d(c):
    """Horn 1987: the optimal proper rotation is the top eigenvector of a symmetric 4x4 matrix.
    S[a, b] = sum src_a tgt_b = C^T."""
    s = c.T
    sxx, sxy, sxz = s[0]
    syx, syy, syz = s[1]
    szx, szy, szz = s[2]
    n = np.array(
        [
            [sxx + syy + szz, syz - szy, szx - sxz, sxy - syx],
            [syz - szy, sxx - syy - szz, sxy + syx, szx + sxz],
            [szx - sxz, sxy + syx, -sxx + syy - szz, syz + szy],
            [sxy - syx, szx + sxz, syz + szy, -sxx - syy + szz],
        ]
    )
    w, v = np.linalg.eigh(n)
    q = v[:, -1]
    q = q / np.linalg.norm(q)
    return _quat_to_matrix(q), float(w[-1])


def best_orthogonal(src, tgt, allow_mirror):
    """(R, gain, info): R minimises sum |R s_i - t_i|^2 over proper rotations (over all orthogonal
    matrices when allow_mirror).  gain = trace(R^T C).  info: {'mirror': bool, 'gap': relative margin by which
    the optimum is unique (0 = a whole family of optima)}."""
    c = correlation(src, tgt)
    d = c.shape[0]
    if d == 2:
        rp, gp = _best_proper_2d(c)
        ri, gi = _best_improper_2d(c)
    else:
        rp, gp = _best_proper_3d(c)
        rn, gi = _best_proper_3d(-c)
        ri = -rn
    sv = np.linalg.svd(c, compute_uv=False)
    top = max(float(sv[0]), 1e-300)
    det = float(np.linalg.det(c))
    if allow_mirror:
        mirror = gi > gp
        r, g = (ri, gi) if mirror else (rp, gp)
        # optimal orthogonal factor is unique iff C is non-singular; proper vs improper gain differ by 2*s_min
        gap = float(sv[-1]) / top
    else:
        mirror = False
        r, g = rp, gp
        # proper optimum unique iff s_{d-1} + sign(det) s_d > 0
        gap = (float(sv[-2]) + math.copysign(1.0, det) * float(sv[-1])) / top if d >= 2 else 1.0
    return r, g, {"mirror": bool(mirror), "gap": float(gap), "gain_proper": gp, "gain_improper": gi}


def rotation_sse(src, tgt, r):
    return sse(apply_h(hm(r, np.zeros(r.shape[0])), src), tgt)


# ------------------------------------------------------------------------------------------ similarity (Procrustes)
def ref_similarity(src, tgt, rotation=True, allow_mirror=False):
    """The map the property describes: centroid -> centroid, size -> size, least-squares rotation of the
    centred sets (rotation is scale-invariant, so it is computed on the centred sets directly)."""
    src = np.asarray(src, dtype=float)
    tgt = np.asarray(tgt, dtype=float)
    d = src.shape[1]
    cs, ct = centroid(src), centroid(tgt)
    s = cnorm(tgt) / cnorm(src)
    info = {"mirror": False, "gap": 1.0}
    r = np.eye(d)
    if rotation:
        r, _, info = best_orthogonal(src - cs, tgt - ct, allow_mirror)
    lin = s * r
    t = ct - lin.dot(cs)
    return hm(lin, t), s, r, info


# ------------------------------------------------------------------------------------------ TPS
def tps_kernel(kind, r2):
    """U(r) for the three menpo kernels, as a function of squared distance; U(0) = 0."""
    r2 = np.asarray(r2, dtype=float)
    out = np.zeros_like(r2)
    pos = r2 > 0
    if kind in (None, "R2LogR2RBF"):
        out[pos] = r2[pos] * np.log(r2[pos])
    elif kind == "R2LogRRBF":
        out[pos] = r2[pos] * 0.5 * np.log(r2[pos])
    else:
        raise ValueError(kind)
    return out


def tps_system(src, kind=None):
    """Bordered TPS matrix [[K, P], [P^T, 0]] built by loops."""
    src = np.asarray(src, dtype=float)
    n = src.shape[0]
    r2 = np.zeros((n, n))
    for i in range(n):
        for j in range(n):
            dx = src[i] - src[j]
            r2[i, j] = float(dx.dot(dx))
    k = tps_kernel(kind, r2)
    p = np.concatenate([np.ones((n, 1)), src], axis=1)
    top = np.concatenate([k, p], axis=1)
    bot = np.concatenate([p.T, np.zeros((3, 3))], axis=1)
    return np.concatenate([top, bot], axis=0)


def tps_min_singular(src, kind=None):
    s = np.linalg.svd(tps_system(src, kind), compute_uv=False)
    return float(s[-1]), float(s[0])


# ------------------------------------------------------------------------------------------ triangles
def bary_weights(tri_pts, p):
    """Barycentric weights (w0, w1, w2) of point p in the triangle with vertex rows tri_pts (3, 2),
    by Cramer's rule on signed areas."""
    a, b, c = (np.asarray(v, dtype=float) for v in tri_pts)
    p = np.asarray(p, dtype=float)

    def area2(u, v, w):
        return (v[0] - u[0]) * (w[1] - u[1]) - (v[1] - u[1]) * (w[0] - u[0])

    tot = area2(a, b, c)
    w0 = area2(p, b, c) / tot
    w1 = area2(a, p, c) / tot
    w2 = area2(a, b, p) / tot
    return np.array([w0, w1, w2])


def bary_map(src_tri, tgt_tri, p):
    w = bary_weights(src_tri, p)
    tgt_tri = np.asarray(tgt_tri, dtype=float)
    return w[0] * tgt_tri[0] + w[1] * tgt_tri[1] + w[2] * tgt_tri[2]


def tri_affine_norm(src_tri, tgt_tri):
    """Operator 2-norm of the linear part of the affine map src triangle -> tgt triangle."""
    s = np.asarray(src_tri, dtype=float)
    t = np.asarray(tgt_tri, dtype=float)
    es = np.array([s[1] - s[0], s[2] - s[0]]).T
    et = np.array([t[1] - t[0], t[2] - t[0]]).T
    a = et.dot(np.linalg.inv(es))
    return float(np.linalg.svd(a, compute_uv=False)[0])


def locate(src, trilist, p, eps=1e-9):
    """Indices of triangles whose closed interior (with tolerance eps on the weights) contains p."""
    hits = []
    for k, tri in enumerate(trilist):
        w = bary_weights(src[list(tri)], p)
        if (w >= -eps).all():
            hits.append(k)
    return hits


def shared_edges(trilist):
    """[(i, j, tri_a, tri_b)] for edges used by exactly two triangles."""
    owners = {}
    for k, tri in enumerate(trilist):
        t = [int(v) for v in tri]
        for a, b in ((t[0], t[1]), (t[1], t[2]), (t[2], t[0])):
            owners.setdefault((min(a, b), max(a, b)), []).append(k)
    out = []
    for (a, b), ks in sorted(owners.items()):
        if len(ks) == 2:
            out.append((a, b, ks[0], ks[1]))
    return out


def delaunay_trilist(src):
    """A valid triangulation of the convex hull computed outside menpo (scipy's Qhull)."""
    from scipy.spatial import Delaunay

    return np.asarray(Delaunay(np.asarray(src, dtype=float)).simplices, dtype=int)


def tri_min_quality(src, trilist):
    """Smallest |signed area| * 2 / (longest edge)^2 over the triangles (sliver witness)."""
    src = np.asarray(src, dtype=float)
    q = 1.0
    for tri in trilist:
        a, b, c = src[tri[0]], src[tri[1]], src[tri[2]]
        ar = abs((b[0] - a[0]) * (c[1] - a[1]) - (b[1] - a[1]) * (c[0] - a[0]))
        le = max(float((b - a).dot(b - a)), float((c - a).dot(c - a)), float((c - b).dot(c - b)))
        q = min(q, ar / le)
    return q
