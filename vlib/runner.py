"""Shared runner: worker fan-out, seeding, collect-then-shrink, known findings, replay, evidence.

A property module (props/cNN_*.py) exposes

    PROPERTY = "C07"
    RULE = "text: how cases are generated and what makes one non-trivial"
    ASSUMPTIONS = [...]
    CLAUSES = [Clause(...), ...]

Every clause has a Hypothesis strategy producing *plain data* (JSON-serialisable) or an
enumerator of such cases, and ``check(case, ctx)`` that builds menpo objects from the case,
and reports failures through ``ctx.fail(signature, detail)`` (soft: the case continues so that
several independent root causes behind one another are all seen) or by raising.
"""
import hashlib
import json
import os
import sys
import time
import traceback
import zlib

VERIF_DIR = os.path.dirname(os.path.dirname(os.path.abspath(__file__)))
REPO = os.path.abspath(os.environ.get("VERIF_REPO", "/repo"))


def setup_paths():
    for k in ("OPENBLAS_NUM_THREADS", "OMP_NUM_THREADS", "MKL_NUM_THREADS"):
        os.environ.setdefault(k, "1")
    if VERIF_DIR not in sys.path:
        sys.path.insert(0, VERIF_DIR)
    if REPO in sys.path:
        sys.path.remove(REPO)
    sys.path.insert(0, REPO)
    import warnings

    warnings.filterwarnings("ignore")


class Violation(Exception):
    def __init__(self, signature, detail=""):
        super().__init__("%s: %s" % (signature, detail))
        self.signature = signature
        self.detail = detail


class Ctx(object):
    """Per-case context handed to a clause's check function."""

    __slots__ = ("fails", "events", "nt", "tier")

    def __init__(self, tier="quick"):
        self.fails = []  # (signature, detail)
        self.events = []
        self.nt = False
        self.tier = tier

    def fail(self, signature, detail=""):
        if callable(detail):
            try:
                detail = detail()
            except Exception as e:  # pragma: no cover
                detail = "<detail failed: %r>" % (e,)
        self.fails.append((str(signature), str(detail)[:1500]))

    def expect(self, cond, signature, detail=""):
        if not cond:
            self.fail(signature, detail)
        return bool(cond)

    def event(self, name):
        self.events.append(str(name))

    def nontrivial(self, cond=True):
        if cond:
            self.nt = True


class Clause(object):
    def __init__(
        self,
        name,
        check,
        strategy=None,
        enumerate=None,
        quick=1000,
        thorough=20000,
        nt_floor=0.2,
        rule="",
        max_shards=16,
    ):
        self.name = name
        self.check = check
        self.strategy = strategy  # callable -> hypothesis strategy
        self.enumerate = enumerate  # callable(tier) -> list of cases (exhaustive scopes)
        self.quick = quick
        self.thorough = thorough
        self.nt_floor = nt_floor
        self.rule = rule
        self.max_shards = max_shards


def case_digest(case):
    return hashlib.sha1(
        json.dumps(case, sort_keys=True, default=str).encode("utf8")
    ).hexdigest()[:16]


def sig_hash(sig):
    return "%08x" % (zlib.crc32(sig.encode("utf8")) & 0xFFFFFFFF)


def _is_hyp_control(e):
    mod = type(e).__module__ or ""
    return mod.startswith("hypothesis")


def _crash_signature(e):
    """Root-cause key for an unexpected exception: type + innermost menpo frame (else innermost)."""
    tb = traceback.extract_tb(e.__traceback__)
    inner = None
    for fr in tb:
        fn = os.path.abspath(fr.filename)
        if fn.startswith(REPO + os.sep):
            inner = fr
    where = "harness"
    if inner is None and tb:
        inner = tb[-1]
    else:
        where = "menpo"
    loc = "?"
    if inner is not None:
        loc = "%s:%s" % (os.path.basename(inner.filename), inner.name)
    return "crash:%s:%s:%s" % (where, type(e).__name__, loc)


def run_case(clause, case, tier):
    """Run one case; returns Ctx with all failures (including a crash, if any)."""
    ctx = Ctx(tier)
    try:
        clause.check(case, ctx)
    except Violation as v:
        ctx.fail(v.signature, v.detail)
    except Exception as e:
        if _is_hyp_control(e):
            raise
        ctx.fail(
            _crash_signature(e),
            "".join(traceback.format_exception(type(e), e, e.__traceback__))[-1400:],
        )
    return ctx


def derive_seed(base, prop, clause, shard):
    h = hashlib.sha1(("%s|%s|%s|%s" % (base, prop, clause, shard)).encode()).digest()
    return int.from_bytes(h[:6], "big")


def load_module(prop_id):
    setup_paths()
    import importlib
    import glob

    pid = prop_id.lower()
    hits = glob.glob(os.path.join(VERIF_DIR, "props", pid + "_*.py"))
    if not hits:
        raise SystemExit("no module for property %s" % prop_id)
    name = os.path.splitext(os.path.basename(hits[0]))[0]
    return importlib.import_module("props." + name)


def get_clause(mod, name):
    for c in mod.CLAUSES:
        if c.name == name:
            return c
    raise KeyError(name)


class _StopShrink(BaseException):
    pass


def _hyp_settings(n, phases):
    from hypothesis import settings, HealthCheck

    return settings(
        max_examples=max(1, n),
        database=None,
        deadline=None,
        derandomize=False,
        report_multiple_bugs=False,
        phases=phases,
        suppress_health_check=[
            HealthCheck.too_slow,
            HealthCheck.data_too_large,
            HealthCheck.large_base_example,
        ],
        print_blob=False,
    )


def worker_collect(task):
    """task = (prop_id, clause_name, shard, n_cases_or_slice, seed, tier)"""
    prop_id, clause_name, shard, n, seed_val, tier = task
    t0 = time.time()
    mod = load_module(prop_id)
    clause = get_clause(mod, clause_name)
    out = {
        "clause": clause_name,
        "shard": shard,
        "evals": 0,
        "nt_digests": set(),
        "nt_count": 0,
        "events": {},
        "buckets": {},  # sig -> {"count", "case", "detail"}
        "samples": [],
        "error": None,
        "exhaustive": False,
    }

    def one(case):
        out["evals"] += 1
        ctx = run_case(clause, case, tier)
        for ev in ctx.events:
            out["events"][ev] = out["events"].get(ev, 0) + 1
        if ctx.nt:
            out["nt_count"] += 1
            d = case_digest(case)
            if d not in out["nt_digests"]:
                out["nt_digests"].add(d)
                if shard == 0 and len(out["samples"]) < 3:
                    s = json.dumps(case, default=str)
                    if len(s) <= 3000:
                        out["samples"].append(case)
                    else:
                        out["samples"].append({"truncated_json": s[:3000]})
        seen = set()
        for sig, detail in ctx.fails:
            if sig in seen:
                continue
            seen.add(sig)
            b = out["buckets"].get(sig)
            if b is None:
                out["buckets"][sig] = {"count": 1, "case": case, "detail": detail}
            else:
                b["count"] += 1
                # keep the smallest failing case seen (by JSON length) as the fallback replay
                if len(json.dumps(case, default=str)) < len(
                    json.dumps(b["case"], default=str)
                ):
                    b["case"] = case
                    b["detail"] = detail

    try:
        if clause.enumerate is not None:
            cases = clause.enumerate(tier)
            lo, hi = n
            for case in cases[lo:hi]:
                one(case)
            out["exhaustive"] = True
        else:
            from hypothesis import given, seed, Phase

            @seed(seed_val)
            @_hyp_settings(n, [Phase.generate])
            @given(clause.strategy())
            def drive(case):
                one(case)

            drive()
    except Exception as e:
        out["error"] = "".join(
            traceback.format_exception(type(e), e, e.__traceback__)
        )[-3000:]
    out["nt_digests"] = sorted(out["nt_digests"])
    out["wall"] = time.time() - t0
    return out


def worker_shrink(task):
    """Re-run one shard raising only for one signature, with shrinking; returns minimal case."""
    prop_id, clause_name, shard, n, seed_val, tier, sig, fallback = task
    mod = load_module(prop_id)
    clause = get_clause(mod, clause_name)
    best = {"case": fallback["case"], "detail": fallback["detail"], "calls": 0, "shrunk": False}
    budget_calls = 400 if tier == "quick" else 4000
    budget_s = 25 if tier == "quick" else 240
    t0 = time.time()
    state = {"failed_once": False, "after": 0}
    if clause.enumerate is not None:
        return best

    from hypothesis import given, seed, Phase

    @seed(seed_val)
    @_hyp_settings(n, [Phase.generate, Phase.shrink])
    @given(clause.strategy())
    def drive(case):
        if state["failed_once"]:
            state["after"] += 1
            if state["after"] > budget_calls or time.time() - t0 > budget_s:
                raise _StopShrink()
        ctx = run_case(clause, case, tier)
        for s, d in ctx.fails:
            if s == sig:
                state["failed_once"] = True
                best["case"] = case
                best["detail"] = d
                best["shrunk"] = True
                raise AssertionError(sig)

    try:
        drive()
    except _StopShrink:
        pass
    except AssertionError:
        pass
    except Exception:
        pass
    best["calls"] = state["after"]
    return best


# ----------------------------------------------------------------------------------------------
# known findings


def load_known(prop_id):
    p = os.path.join(VERIF_DIR, "known_findings.json")
    if not os.path.exists(p):
        return []
    with open(p) as f:
        data = json.load(f)
    return [e for e in data.get("findings", []) if e.get("property") == prop_id]


def match_known(known, clause_name, sig):
    for e in known:
        if e.get("status") != "open":
            continue
        if e.get("clause") not in (None, "*", clause_name):
            continue
        if sig == e["signature"] or (
            e.get("prefix") and sig.startswith(e["signature"])
        ):
            return e
    return None


# ----------------------------------------------------------------------------------------------
# main entry


def _git_head(path):
    try:
        import subprocess

        return (
            subprocess.check_output(
                ["git", "-C", path, "rev-parse", "--short", "HEAD"],
                stderr=subprocess.DEVNULL,
            )
            .decode()
            .strip()
        )
    except Exception:
        return "?"


def replay_file(prop_id, path, tier="quick"):
    mod = load_module(prop_id)
    with open(path) as f:
        r = json.load(f)
    clause = get_clause(mod, r["clause"])
    ctx = run_case(clause, r["case"], tier)
    return clause, r, ctx


def main(argv=None):
    argv = list(sys.argv[1:] if argv is None else argv)
    if len(argv) < 2:
        print("usage: check <ID> <quick|thorough> | check <ID> --replay <file>")
        return 2
    prop_id = argv[0].upper()
    setup_paths()
    os.environ.setdefault("PYTHONHASHSEED", "0")
    known = load_known(prop_id)

    if argv[1] == "--replay":
        clause, r, ctx = replay_file(prop_id, argv[2])
        bad = [(s, d) for s, d in ctx.fails]
        rc = 0
        for s, d in bad:
            e = match_known(known, clause.name, s)
            if e is not None:
                print("KNOWN-FINDING: property=%s %s" % (prop_id, e["what"]))
            else:
                print("VIOLATION property=%s replay=%s" % (prop_id, argv[2]))
                print("  clause=%s signature=%s\n  %s" % (clause.name, s, d))
                rc = 1
        if not bad:
            print("replay passes: %s" % argv[2])
        return rc

    tier = argv[1]
    if tier not in ("quick", "thorough"):
        print("tier must be quick or thorough")
        return 2
    only = None
    for a in argv[2:]:
        if a.startswith("--clause="):
            only = set(a.split("=", 1)[1].split(","))
    base_seed = int(os.environ.get("VERIF_SEED", "1"))
    scale = float(os.environ.get("VERIF_SCALE", "1"))
    nproc = int(os.environ.get("VERIF_PROCS", str(min(16, os.cpu_count() or 1))))
    t0 = time.time()
    try:
        mod = load_module(prop_id)
    except Exception:
        traceback.print_exc()
        print("HARNESS-ERROR property=%s cannot import harness/menpo" % prop_id)
        # an import failure of menpo itself on a changed tree is not a property verdict
        return 2

    clauses = [c for c in mod.CLAUSES if only is None or c.name in only]
    # ---------------- replay tier: committed regression corpus
    replay_dir = os.path.join(VERIF_DIR, "replays", prop_id)
    replayed = 0
    replay_fail = []  # (clause, sig, detail, path)
    if os.path.isdir(replay_dir):
        for fn in sorted(os.listdir(replay_dir)):
            if not fn.endswith(".json"):
                continue
            p = os.path.join(replay_dir, fn)
            try:
                clause, r, ctx = replay_file(prop_id, p, tier)
            except KeyError:
                continue
            if only is not None and clause.name not in only:
                continue
            replayed += 1
            for s, d in ctx.fails:
                replay_fail.append((clause.name, s, d, p))

    # ---------------- collect pass
    tasks = []
    for c in clauses:
        if c.enumerate is not None:
            total = len(c.enumerate(tier))
            shards = max(1, min(c.max_shards, nproc, total))
            step = (total + shards - 1) // shards
            for k in range(shards):
                lo, hi = k * step, min(total, (k + 1) * step)
                if lo < hi:
                    tasks.append((prop_id, c.name, k, (lo, hi), 0, tier))
        else:
            total = int((c.quick if tier == "quick" else c.thorough) * scale)
            total = max(1, total)
            shards = max(1, min(c.max_shards, nproc, total // 20 or 1))
            per = (total + shards - 1) // shards
            for k in range(shards):
                tasks.append(
                    (prop_id, c.name, k, per, derive_seed(base_seed, prop_id, c.name, k), tier)
                )
    import multiprocessing as mp

    mpctx = mp.get_context("spawn")
    # biggest tasks first
    results = []
    if nproc <= 1:
        results = [worker_collect(t) for t in tasks]
    else:
        with mpctx.Pool(min(nproc, max(1, len(tasks)))) as pool:
            results = pool.map(worker_collect, tasks, chunksize=1)

    per_clause = {}
    harness_errors = []
    for t, r in zip(tasks, results):
        pc = per_clause.setdefault(
            r["clause"],
            {
                "evaluations": 0,
                "nt_count": 0,
                "nt": set(),
                "events": {},
                "buckets": {},
                "samples": [],
                "exhaustive": False,
            },
        )
        pc["evaluations"] += r["evals"]
        pc["nt_count"] += r.get("nt_count", 0)
        pc["nt"].update(r["nt_digests"])
        pc["exhaustive"] = pc["exhaustive"] or r["exhaustive"]
        for k, v in r["events"].items():
            pc["events"][k] = pc["events"].get(k, 0) + v
        pc["samples"].extend(r["samples"])
        for sig, b in r["buckets"].items():
            cur = pc["buckets"].get(sig)
            if cur is None:
                pc["buckets"][sig] = dict(b, task=t)
            else:
                cur["count"] += b["count"]
        if r["error"]:
            harness_errors.append((r["clause"], r["shard"], r["error"]))

    # ---------------- classify buckets
    known_hit = {}  # id(entry) -> [entry, count]
    unknown = []  # (clause, sig, bucket)
    for cname, pc in per_clause.items():
        for sig, b in pc["buckets"].items():
            e = match_known(known, cname, sig)
            if e is not None:
                k = known_hit.setdefault(e["id"], [e, 0])
                k[1] += b["count"]
            else:
                unknown.append((cname, sig, b))
    for cname, s, d, p in replay_fail:
        e = match_known(known, cname, s)
        if e is not None:
            k = known_hit.setdefault(e["id"], [e, 0])
            k[1] += 1

    # ---------------- shrink pass for unknown buckets
    out_dir = os.path.join(VERIF_DIR, "out", "replays", prop_id)
    violations = []
    shrink_tasks = []
    for cname, sig, b in unknown[:12]:
        t = b["task"]
        shrink_tasks.append(
            (t[0], t[1], t[2], t[3], t[4], tier, sig, {"case": b["case"], "detail": b["detail"]})
        )
    shrunk = []
    if shrink_tasks:
        if nproc <= 1:
            shrunk = [worker_shrink(t) for t in shrink_tasks]
        else:
            with mpctx.Pool(min(nproc, len(shrink_tasks))) as pool:
                shrunk = pool.map(worker_shrink, shrink_tasks, chunksize=1)
    head = _git_head(REPO)
    for i, (cname, sig, b) in enumerate(unknown):
        best = shrunk[i] if i < len(shrunk) else {"case": b["case"], "detail": b["detail"]}
        os.makedirs(out_dir, exist_ok=True)
        path = os.path.join(out_dir, "%s-%s.json" % (cname, sig_hash(sig)))
        with open(path, "w") as f:
            json.dump(
                {
                    "property": prop_id,
                    "clause": cname,
                    "signature": sig,
                    "detail": best["detail"],
                    "case": best["case"],
                    "seed": base_seed,
                    "count_in_run": b["count"],
                    "menpo_commit": head,
                },
                f,
                indent=1,
                default=str,
            )
        violations.append((cname, sig, best["detail"], path))
    for cname, s, d, p in replay_fail:
        if match_known(known, cname, s) is None:
            violations.append((cname, s, d, p))

    # ---------------- report
    rc = 0
    for eid, (e, cnt) in sorted(known_hit.items()):
        print("KNOWN-FINDING: property=%s %s [%s, %d cases this run]" % (prop_id, e["what"], eid, cnt))
    for cname, sig, detail, path in violations:
        print("VIOLATION property=%s replay=%s" % (prop_id, path))
        print("  clause=%s signature=%s" % (cname, sig))
        print("  " + detail.replace("\n", "\n  ")[:1200])
        rc = 1

    # generator degeneration / harness errors -> exit 2 (only if no violation)
    degenerate = []
    for c in clauses:
        pc = per_clause.get(c.name)
        if pc is None or pc["evaluations"] == 0:
            degenerate.append("%s: no cases" % c.name)
            continue
        # the floor guards against a vacuous generator: fraction of generated cases that are non-trivial
        # (duplicates included; the evidence reports the DISTINCT non-trivial count separately)
        frac = pc["nt_count"] / float(pc["evaluations"])
        if frac < c.nt_floor and not pc["exhaustive"]:
            degenerate.append(
                "%s: non-trivial fraction %.3f < floor %.2f" % (c.name, frac, c.nt_floor)
            )
    wall = time.time() - t0

    # ---------------- evidence
    evaluations = sum(pc["evaluations"] for pc in per_clause.values())
    nt_total = sum(len(pc["nt"]) for pc in per_clause.values())
    samples = []
    clause_cov = {}
    for c in clauses:
        pc = per_clause.get(c.name)
        if pc is None:
            continue
        for s in pc["samples"][:2]:
            samples.append({"clause": c.name, "case": s})
        ev = dict(sorted(pc["events"].items(), key=lambda kv: (-kv[1], kv[0]))[:60])
        clause_cov[c.name] = {
            "evaluations": pc["evaluations"],
            "distinct_nontrivial": len(pc["nt"]),
            "nontrivial_evaluations": pc["nt_count"],
            "rule": c.rule,
            "events": ev,
            "exhaustive": pc["exhaustive"],
            "failure_buckets": {s: b["count"] for s, b in pc["buckets"].items()},
        }
    evidence = {
        "property_id": prop_id,
        "tier": tier,
        "seed": base_seed,
        "level": "exploration",
        "coverage": {
            "evaluations": evaluations,
            "distinct_nontrivial": nt_total,
            "rule": getattr(mod, "RULE", ""),
            "samples": samples,
            "clauses": clause_cov,
            "replayed": replayed,
            "excluded_known": {eid: cnt for eid, (e, cnt) in known_hit.items()},
            "exhaustive": bool(clause_cov)
            and all(v["exhaustive"] for v in clause_cov.values()),
            "menpo_commit": head,
            "repo": REPO,
            "generator_warnings": degenerate,
            "harness_errors": [e[2][-400:] for e in harness_errors][:5],
        },
        "assumptions": list(getattr(mod, "ASSUMPTIONS", [])),
        "wall_s": round(wall, 2),
        "violations": len(violations),
    }
    extra = getattr(mod, "evidence_extra", None)
    if extra is not None:
        try:
            evidence["coverage"].update(extra(tier))
        except Exception:
            pass
    if only is None and REPO == "/repo" and not os.environ.get("VERIF_NO_EVIDENCE"):
        os.makedirs(os.path.join(VERIF_DIR, "evidence"), exist_ok=True)
        with open(os.path.join(VERIF_DIR, "evidence", prop_id + ".json"), "w") as f:
            json.dump(evidence, f, indent=1, default=str)
    print(
        "%s %s seed=%d: %d cases, %d distinct non-trivial, %d replayed, %d violation bucket(s), "
        "%d known, %.1fs"
        % (prop_id, tier, base_seed, evaluations, nt_total, replayed, len(violations), len(known_hit), wall)
    )
    if rc == 0 and (harness_errors or degenerate):
        for c, k, e in harness_errors[:3]:
            print("HARNESS-ERROR clause=%s shard=%s\n%s" % (c, k, e))
        for d in degenerate:
            print("GENERATOR-DEGENERATE %s" % d)
        return 2
    return rc
