"""Hypothesis strategies producing plain data (lists / dicts of ints, floats, strs, bools),
plus deterministic builders turning that data into numpy arrays / menpo objects.

Construction over rejection: general position, bounded condition numbers, etc. hold by
construction.  Numbers are quantised (k / 1024) so they are exactly representable, survive
JSON unchanged and stay away from denormal / overflow magnitudes the properties do not cover.
"""
import math

import numpy as np
from hypothesis import strategies as st

DEN = 1024


def q(lo, hi, den=DEN):
    """Quantised float in [lo, hi]."""
    return st.integers(int(math.ceil(lo * den)), int(math.floor(hi * den))).map(
        lambda i: i / den
    )


def qnz(lo, hi, gap, den=DEN):
    """Quantised float in [lo, hi] with |x| >= gap."""
    parts = []
    if lo <= -gap:
        parts.append(q(lo, -gap, den))
    if hi >= gap:
        parts.append(q(gap, hi, den))
    return st.one_of(*parts)


def angle_deg():
    """Angles in degrees in [-1080, 1080], all quadrants; multiples of 90 are rare not absent."""
    return st.one_of(q(-1080, 1080, 64), q(-180, 180, 64), st.sampled_from([0.0, 90.0, -90.0, 180.0, 270.0, -45.0, 30.0, -30.0, 360.0, 450.0]))


# ----------------------------------------------------------------------------------------------
# linear algebra by construction


def givens(d, i, j, theta):
    g = np.eye(d)
    c, s = math.cos(theta), math.sin(theta)
    g[i, i] = c
    g[j, j] = c
    g[i, j] = -s
    g[j, i] = s
    return g


def n_planes(d):
    return d * (d - 1) // 2


def rotation_from_angles(d, angles):
    """Proper rotation: product of Givens rotations, one per coordinate plane."""
    r = np.eye(d)
    k = 0
    for i in range(d):
        for j in range(i + 1, d):
            r = r.dot(givens(d, i, j, angles[k]))
            k += 1
    return r


def rot_angles(d):
    return st.lists(q(-3.14, 3.14), min_size=n_planes(d), max_size=n_planes(d))


def orthogonal_case(d, allow_reflection=True):
    return st.fixed_dictionaries(
        {
            "angles": rot_angles(d),
            "reflect": st.booleans() if allow_reflection else st.just(False),
        }
    )


def build_orthogonal(d, case):
    r = rotation_from_angles(d, case["angles"])
    if case["reflect"]:
        f = np.eye(d)
        f[-1, -1] = -1
        r = r.dot(f)
    return r


def linear_case(d, smin=0.25, smax=4.0, allow_reflection=True):
    """Well conditioned linear map U diag(s) V^T, cond <= smax/smin."""
    return st.fixed_dictionaries(
        {
            "u": orthogonal_case(d, allow_reflection),
            "s": st.lists(q(smin, smax), min_size=d, max_size=d),
            "v": orthogonal_case(d, False),
        }
    )


def build_linear(d, case):
    return build_orthogonal(d, case["u"]).dot(np.diag(case["s"])).dot(
        build_orthogonal(d, case["v"]).T
    )


def vec(d, lo=-10, hi=10):
    return st.lists(q(lo, hi), min_size=d, max_size=d)


def unit_quaternion_case():
    """4 numbers away from zero norm; normalised in the builder; canonical sign q0 >= 0."""
    return st.lists(q(-1, 1), min_size=4, max_size=4).filter(
        lambda v: sum(x * x for x in v) > 0.05
    )


def build_unit_quaternion(v):
    a = np.array(v, dtype=float)
    a = a / np.linalg.norm(a)
    if a[0] < 0 or (a[0] == 0 and tuple(a[1:]) < (0, 0, 0)):
        a = -a
    return a


# ----------------------------------------------------------------------------------------------
# point sets in general position (jittered lattice)


@st.composite
def points_case(draw, n_min=3, n_max=12, d=2, extent=10.0, n=None):
    """A jittered-lattice point set: distinct cells, jitter <= 0.3 cell, so min distance >= 0.4 cell
    and no exact collinearity of a whole set except on degenerate draws of <= 2 cells per axis."""
    if n is None:
        n = draw(st.integers(n_min, n_max))
    side = max(2, int(math.ceil(n ** (1.0 / d))) + 1)
    ncells = side**d
    cells = draw(
        st.lists(st.integers(0, ncells - 1), min_size=n, max_size=n, unique=True)
    )
    jit = draw(
        st.lists(
            st.lists(st.integers(-300, 300), min_size=d, max_size=d),
            min_size=n,
            max_size=n,
        )
    )
    cell = extent / side
    pts = []
    for c, j in zip(cells, jit):
        idx = []
        for _ in range(d):
            idx.append(c % side)
            c //= side
        pts.append([(idx[a] + 0.5 + j[a] / 1000.0) * cell for a in range(d)])
    return pts


def non_collinear(pts, tol=1e-3):
    """Relative smallest singular value of the centred point matrix (general-position witness)."""
    p = np.asarray(pts, dtype=float)
    c = p - p.mean(axis=0)
    s = np.linalg.svd(c, compute_uv=False)
    return s[-1] / max(s[0], 1e-300) > tol


def general_points_case(n_min=3, n_max=12, d=2, extent=10.0):
    return points_case(n_min, n_max, d, extent).filter(non_collinear)


def arr(x):
    return np.array(x, dtype=float)
