"""C15 helpers: plain-data labelled-graph cases, a pure-python set model of label selection, a
canonical dump of menpo results, and a batch entry point that is run in *separate interpreter
processes* under different PYTHONHASHSEED values:

    PYTHONHASHSEED=k VERIF_REPO=/repo /venv/bin/python /verif/vlib/refs_labels.py < cases.json > dumps.json

stdin: JSON list of graph cases (each with its ``ops``); stdout: JSON list (one entry per case) of
lists (one entry per op) of ``{"ok": dump}`` / ``{"err": "ValueError"}``.

Graph case (plain data):
    {"d": 2|3, "pts": [[...]...], "edges": [[i, j, w], ...]  (i != j, each unordered pair once, w >= 1),
     "labels": [[name, [bool, ...]], ...]   (ordered, names unique, every point in >= 1 mask),
     "ops": [op, ...]}
op:
    {"op": "with" | "without", "labels": [name, ...], "as_str": bool, "as_tuple": bool}
    {"op": "get" | "remove", "label": name}
    {"op": "add", "label": name, "indices": [int, ...], "as_array": bool}
    {"op": "mask", "mask": [bool, ...]}        (inherited from_mask: plain induced sub-graph)
"""
import json
import os
import sys
from collections import OrderedDict

if __name__ == "__main__":  # same path set-up as vlib.runner.setup_paths, without importing the runner
    for _k in ("OPENBLAS_NUM_THREADS", "OMP_NUM_THREADS", "MKL_NUM_THREADS"):
        os.environ.setdefault(_k, "1")
    _VERIF = os.path.dirname(os.path.dirname(os.path.abspath(__file__)))
    _REPO = os.path.abspath(os.environ.get("VERIF_REPO", "/repo"))
    if _VERIF not in sys.path:
        sys.path.insert(0, _VERIF)
    if _REPO in sys.path:
        sys.path.remove(_REPO)
    sys.path.insert(0, _REPO)
    import warnings

    warnings.filterwarnings("ignore")

import numpy as np


# ---------------------------------------------------------------------------------------------
# building


def adjacency_of(case):
    n = len(case["pts"])
    a = np.zeros((n, n), dtype=float)
    for i, j, w in case["edges"]:
        a[i, j] = w
        a[j, i] = w
    return a


def build_graph(case):
    from menpo.shape import LabelledPointUndirectedGraph

    pts = np.array(case["pts"], dtype=float)
    l2m = OrderedDict((nm, np.array(mask, dtype=bool)) for nm, mask in case["labels"])
    return LabelledPointUndirectedGraph(pts, adjacency_of(case), l2m)


# ---------------------------------------------------------------------------------------------
# canonical dump of a menpo result


def dump_edges(g):
    """Sorted [i, j, w] (i <= j) of an undirected graph, read from its adjacency matrix; an entry whose
    mirror differs is reported as an extra [j, i, w'] row."""
    a = np.asarray(g.adjacency_matrix.todense(), dtype=float)
    out = []
    n = a.shape[0]
    for i in range(n):
        for j in range(i, n):
            if a[i, j] != 0 or a[j, i] != 0:
                out.append([i, j, float(a[i, j])])
                if i != j and a[j, i] != a[i, j]:
                    out.append([j, i, float(a[j, i])])
    return out


def dump_group(g):
    d = {
        "type": type(g).__name__,
        "points": [[float(v) for v in row] for row in np.asarray(g.points)],
        "n_adj": int(g.adjacency_matrix.shape[0]),
        "edges": dump_edges(g),
    }
    l2m = getattr(g, "_labels_to_masks", None)
    if l2m is not None:
        d["labels"] = [str(k) for k in g.labels]
        d["dict_order"] = [str(k) for k in l2m.keys()]
        d["masks"] = [[int(bool(v)) for v in np.asarray(l2m[k]).ravel()] for k in l2m.keys()]
        d["mask_dtypes"] = sorted(set(str(np.asarray(m).dtype) for m in l2m.values()))
    return d


def apply_op(g, op):
    """Run one operation on the menpo graph. ValueError is the documented refusal and is returned as
    data; anything else escapes."""
    kind = op["op"]
    try:
        if kind in ("with", "without"):
            arg = op["labels"][0] if op.get("as_str") else list(op["labels"])
            if op.get("as_tuple") and not op.get("as_str"):
                arg = tuple(arg)
            r = g.with_labels(arg) if kind == "with" else g.without_labels(arg)
        elif kind == "get":
            r = g.get_label(op["label"])
        elif kind == "remove":
            r = g.remove_label(op["label"])
        elif kind == "add":
            idx = op["indices"]
            if op.get("as_array"):
                idx = np.array(idx, dtype=int)
            r = g.add_label(op["label"], idx)
        elif kind == "mask":
            r = g.from_mask(np.array(op["mask"], dtype=bool))
        else:
            raise KeyError(kind)
    except ValueError:
        return None, {"err": "ValueError"}
    return r, {"ok": dump_group(r)}


def public_labels(g):
    """What a caller can read about the labels of a group without touching private state: the ``labels`` list,
    ``n_labels`` and the (label, member indices) pairs of ``tojson()`` in their order."""
    j = g.tojson()["labels"]
    return {
        "labels": [str(k) for k in g.labels],
        "n_labels": int(g.n_labels),
        "json": [[str(e["label"]), [int(i) for i in e["mask"]]] for e in j],
    }


def case_from_dump(case, dump):
    """The plain-data graph case that a (verified) labelled result dump stands for: the next receiver of a chain."""
    return {
        "d": case["d"],
        "pts": [list(row) for row in dump["points"]],
        "edges": [[int(i), int(j), w] for i, j, w in dump["edges"]],
        "labels": [[nm, [bool(b) for b in m]] for nm, m in zip(dump["labels"], dump["masks"])],
    }


def run_case_menpo(case):
    """One fresh graph per op; list of result dumps."""
    out = []
    for op in case["ops"]:
        g = build_graph(case)
        out.append(apply_op(g, op)[1])
    return out


def canon(obj):
    return json.dumps(obj, sort_keys=True, ensure_ascii=True, separators=(",", ":"))


# ---------------------------------------------------------------------------------------------
# set model (plain python; no menpo, no numpy semantics)


def _dedupe(seq):
    seen, out = set(), []
    for x in seq:
        if x not in seen:
            seen.add(x)
            out.append(x)
    return out


def ref_restrict(case, keep_points, kept_labels):
    """Induced sub-structure on the points with keep_points[p] true, labels kept_labels (names, in the
    order given)."""
    n = len(case["pts"])
    idx = [p for p in range(n) if keep_points[p]]
    remap = {}
    for new, old in enumerate(idx):
        remap[old] = new
    masks = dict((nm, m) for nm, m in case["labels"])
    edges = []
    for i, j, w in case["edges"]:
        if keep_points[i] and keep_points[j]:
            a, b = remap[i], remap[j]
            edges.append([min(a, b), max(a, b), float(w)])
    edges.sort()
    return {
        "points": [[float(v) for v in case["pts"][p]] for p in idx],
        "edges": edges,
        "labels": list(kept_labels),
        "masks": [[int(bool(masks[nm][p])) for p in idx] for nm in kept_labels],
    }


def ref_op(case, op):
    """Expected outcome of one op.

    Returns a dict with
      "expect": "result" | "ValueError" | "either"   ("either": property silent, both outcomes legal)
      "why":    reason for an expected refusal
      "model":  expected result (when a result is legal)
      "order":  True when the label order of the result is asserted
      "labelled": result is a labelled graph
    or None when the op is outside the domain of the property.
    """
    names = [nm for nm, _ in case["labels"]]
    masks = dict((nm, m) for nm, m in case["labels"])
    n = len(case["pts"])
    kind = op["op"]
    if kind in ("with", "without"):
        req = list(op["labels"])
        unknown = [l for l in req if l not in masks]
        if kind == "with":
            if unknown:
                return {"expect": "ValueError", "why": "unknown_label"}
            kept = _dedupe(req)
            pos = [names.index(l) for l in req]
            order = all(pos[i] <= pos[i + 1] for i in range(len(pos) - 1))
            alt = [l for l in names if l in kept]  # the kept labels in their original order
        else:
            kept = [l for l in names if l not in req]
            order = True
            alt = kept
        if not kept:
            return None  # nothing requested: the property does not say what an empty selection is
        keep = [any(masks[l][p] for l in kept) for p in range(n)]
        model = ref_restrict(case, keep, kept)
        expect = "result"
        why = ""
        if not any(keep):
            expect, why = "either", "empty_result"  # a graph with no vertex cannot exist
        elif kind == "without" and unknown:
            expect, why = "either", "unknown_label_in_exclusion"
        return {"expect": expect, "why": why, "model": model, "order": order, "labelled": True, "alt_order": alt}
    if kind == "mask":
        keep = [bool(b) for b in op["mask"]]
        if len(keep) != n:
            return None
        model = ref_restrict(case, keep, [])
        return {
            "expect": "result" if any(keep) else "either",
            "why": "" if any(keep) else "empty_result",
            "model": model,
            "order": True,
            "labelled": False,
        }
    if kind == "get":
        l = op["label"]
        if l not in masks:
            return None
        keep = [bool(masks[l][p]) for p in range(n)]
        model = ref_restrict(case, keep, [])
        return {
            "expect": "result" if any(keep) else "either",
            "why": "" if any(keep) else "empty_result",
            "model": model,
            "order": True,
            "labelled": False,
        }
    if kind == "remove":
        l = op["label"]
        if l not in masks:
            return None
        kept = [x for x in names if x != l]
        orphan = [p for p in range(n) if not any(masks[x][p] for x in kept)]
        if orphan:
            return {"expect": "ValueError", "why": "orphaned_points"}
        model = ref_restrict(case, [True] * n, kept)
        return {"expect": "result", "why": "", "model": model, "order": True, "labelled": True}
    if kind == "add":
        l = op["label"]
        new_mask = [False] * n
        for i in op["indices"]:
            new_mask[i] = True
        if l in masks:
            # re-adding an existing name replaces that label's mask: refused when a point would lose its only
            # label; otherwise the group keeps its label set, the other masks, and L gets the new mask (the
            # position of L is not asserted, a refusal of the duplicate name would be legal as well)
            others = [x for x in names if x != l]
            orphan = [p for p in range(n) if not new_mask[p] and not any(masks[x][p] for x in others)]
            if orphan:
                return {"expect": "ValueError", "why": "existing_label_orphans_points"}
            model = ref_restrict(case, [True] * n, names)
            model["masks"][names.index(l)] = [int(b) for b in new_mask]
            return {"expect": "either", "why": "existing_label", "model": model, "order": False, "labelled": True}
        model = ref_restrict(case, [True] * n, names)
        model["labels"].append(l)
        model["masks"].append([int(b) for b in new_mask])
        return {"expect": "result", "why": "", "model": model, "order": True, "labelled": True}
    raise KeyError(kind)


# ---------------------------------------------------------------------------------------------
# batch entry point (separate interpreter, own hash seed)


def main():
    cases = json.load(sys.stdin)
    out = [run_case_menpo(c) for c in cases]
    witness = [hash(w) for w in ("C15", "zeta", "alpha", "")]
    sys.stdout.write(canon({"hashseed": os.environ.get("PYTHONHASHSEED"), "witness": witness, "dumps": out}))
    sys.stdout.flush()
    return 0


if __name__ == "__main__":
    sys.exit(main())
