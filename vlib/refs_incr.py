"""Sample sequences whose rank GROWS along the sequence (C11): staged, rank-deficient data for incremental models.

A staged case is plain data::

    {"n", "d", "centre", "family": "subspace" | "stuck" | "repeat",
     "stages": [[n_1, r_1], [n_2, r_2], ...],     # sum n_j = n, 1 <= r_1 <= r_2 <= ... <= d
     "coef": n x d small integers (quarters),     # coordinates of the samples in the basis B
     "repeats": [[i, src], ...],                  # row i is an exact repetition of the earlier row src (< i)
     "b_angles" | "perm",                         # basis: rotation (subspace / repeat) or coordinate permutation (stuck)
     "mean": [d], "offset": bool}

and builds ``X = offset + C B^T`` where row ``i`` of ``C`` (stage ``j``) is zero outside its first ``r_j`` columns.  So the
first ``n_1`` samples lie in an ``r_1``-dimensional (affine) subspace whatever their number, the samples of stage 2
leave it, and so on.  With ``B`` a coordinate permutation the trailing coordinates are exactly constant ("stuck") in
the early samples; "repeats" turns early samples into exact copies of each other.  Nothing about the conditioning is
controlled by construction: the caller measures it on the data (reference SVD) and scales / skips accordingly.
"""
import numpy as np
from hypothesis import strategies as st

from . import gen

FAMILIES = ["subspace", "stuck", "repeat"]


@st.composite
def staged_case(draw, centre, d=None, even_d=False):
    if d is None:
        d = draw(st.integers(2, 6))
    if even_d and d % 2:
        d += 1
    family = draw(st.sampled_from(FAMILIES))
    # stage 1: more samples than dimensions most of the time (a long, nevertheless rank-deficient start)
    if draw(st.integers(0, 9)) < 7:
        n1 = draw(st.integers(d + 1, d + 5))
    else:
        n1 = draw(st.integers(2, d))
    r1 = draw(st.integers(1, d - 1))
    stages = [[n1, r1]]
    n_more = draw(st.integers(1, 3))
    r = r1
    for j in range(n_more):
        # later stages leave the subspace of the earlier ones (or, sometimes, stay inside it)
        r = draw(st.integers(r, d)) if draw(st.integers(0, 3)) == 0 else draw(st.integers(min(r + 1, d), d))
        stages.append([draw(st.integers(1, 4)), r])
    n = sum(s[0] for s in stages)
    coef = draw(
        st.lists(st.lists(st.integers(-12, 12), min_size=d, max_size=d), min_size=n, max_size=n)
    )
    repeats = []
    if family == "repeat":
        # most rows of stage 1 repeat one of its first two or three rows
        n_src = draw(st.integers(2, min(3, n1)))
        for i in range(n_src, n1):
            if draw(st.integers(0, 4)) > 0:
                repeats.append([i, draw(st.integers(0, n_src - 1))])
    elif draw(st.integers(0, 3)) == 0:
        i = draw(st.integers(1, n - 1))
        repeats.append([i, draw(st.integers(0, i - 1))])
    case = {
        "n": n,
        "d": d,
        "centre": bool(centre),
        "family": family,
        "stages": stages,
        "coef": coef,
        "repeats": repeats,
        "mean": draw(gen.vec(d, -10, 10)),
        # centred models always get an offset (running mean bounded away from the zero vector, see ASSUMPTIONS);
        # uncentred data sit around the origin or not
        "offset": True if centre else draw(st.booleans()),
    }
    case["mean"][0] = draw(gen.qnz(-10, 10, 0.5))
    if family == "stuck":
        case["perm"] = list(draw(st.permutations(list(range(d)))))
    else:
        case["b_angles"] = draw(gen.rot_angles(d))
    return case


def stage_bounds(case):
    return [int(v) for v in np.cumsum([s[0] for s in case["stages"]])]


def build_staged(case):
    n, d = case["n"], case["d"]
    c = np.asarray(case["coef"], dtype=float).reshape(n, d) / 4.0
    row = 0
    for nj, rj in case["stages"]:
        c[row : row + nj, rj:] = 0.0
        row += nj
    for i, src in case.get("repeats", []):
        c[i] = c[src]
    if "perm" in case:
        x = np.zeros((n, d))
        for k, col in enumerate(case["perm"]):
            x[:, col] = c[:, k]
    else:
        x = c.dot(gen.rotation_from_angles(d, case["b_angles"]).T)
    if case.get("offset", True):
        x = x + np.asarray(case["mean"], dtype=float)[None, :]
    return np.ascontiguousarray(x, dtype=float)


def numeric_rank(eigs, rel=1e-8):
    """Number of eigenvalues above rel * largest (the caller excludes spectra with values in the grey zone below)."""
    eigs = np.asarray(eigs, dtype=float)
    if eigs.size == 0 or float(eigs.max()) <= 0:
        return 0
    return int(np.sum(eigs >= rel * eigs.max()))


def min_rel_gap(eigs):
    """min_i (l_i - l_{i+1}) / l_1 over the given (descending) eigenvalues: how well single eigenvectors are defined."""
    eigs = np.asarray(eigs, dtype=float)
    if eigs.size < 2:
        return 1.0
    return float(np.min(eigs[:-1] - eigs[1:]) / eigs[0])


def decoy_rows(rows, k=2):
    """k rows that are NOT samples: what follows the first n_samples entries of a longer list must be ignored."""
    rows = np.asarray(rows, dtype=float)
    out = []
    for i in range(k):
        out.append(-2.5 * rows[(-1 - i) % rows.shape[0]] + 3.0 + i)
    return np.array(out)
