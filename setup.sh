#!/bin/bash
# setup_cmd: make sure hypothesis is importable by /venv/bin/python (offline wheelhouse otherwise)
if ! /venv/bin/python -c 'import hypothesis' 2>/dev/null; then
  /venv/bin/pip install --no-index --find-links /opt/veriftools/wheels hypothesis || exit 1
fi
/venv/bin/python -c 'import hypothesis, numpy, scipy; print("hypothesis", hypothesis.__version__, "numpy", numpy.__version__, "scipy", scipy.__version__)'
