#!/usr/bin/env python3
"""Run our check against an independently written BEHAVIOUR-PRESERVING change: it must stay quiet.

  tools/seedcheck.py <PROP> <src_dir_with patch.diff demo.py notes.txt> <name> [--seeds 1,2] [--tier quick]

Steps (all on a scratch copy of /repo under /var/tmp, never /repo itself):
  1. sanity.py on the unchanged tree must exit 0
  2. patch applies; sanity.py on the patched tree must exit 0 too
  3. the pinned suite still passes on the patched tree (tools/baseline.sh)
  4. ./check <PROP> <tier> with VERIF_REPO=<patched tree> must exit 0 (no VIOLATION line)
Writes /verif/benign/<name>/{patch.diff,sanity.py,notes.txt,meta.json}.
"""
import json, os, shutil, subprocess, sys, tempfile, time
HERE = os.path.dirname(os.path.dirname(os.path.abspath(__file__)))


def run(cmd, **kw):
    return subprocess.run(cmd, capture_output=True, text=True, **kw)


def main():
    prop, src, name = sys.argv[1].upper(), sys.argv[2], sys.argv[3]
    seeds, tier = [1], "quick"
    a = sys.argv[4:]
    for i, x in enumerate(a):
        if x == "--seeds": seeds = [int(v) for v in a[i + 1].split(",")]
        if x == "--tier": tier = a[i + 1]
    dst = os.path.join(HERE, "benign", name)
    os.makedirs(dst, exist_ok=True)
    for f in ("patch.diff", "sanity.py", "notes.txt"):
        if os.path.exists(os.path.join(src, f)) and os.path.abspath(src) != os.path.abspath(dst):
            shutil.copy(os.path.join(src, f), os.path.join(dst, f))
    meta = {"property": prop, "name": name, "ran": []}
    np = os.path.join(dst, "notes.txt")
    if os.path.exists(np):
        meta["why_property_still_holds"] = open(np).read()[:1500]
    env0 = dict(os.environ, PYTHONPATH="/repo", PYTHONDONTWRITEBYTECODE="1")
    demo = os.path.join(dst, "sanity.py")
    r = run(["/venv/bin/python", "-W", "ignore", demo], env=env0, cwd="/var/tmp")
    meta["demo_clean_rc"] = r.returncode
    meta["ran"].append("PYTHONPATH=/repo /venv/bin/python demo.py -> rc %d" % r.returncode)
    scratch = tempfile.mkdtemp(prefix="verif-benign-", dir="/var/tmp")
    try:
        subprocess.check_call(["rsync", "-a", "--exclude", ".git", "/repo/", scratch + "/"])
        pr = run(["patch", "-p1", "-s", "-d", scratch, "-i", os.path.join(dst, "patch.diff")])
        meta["patch_applies"] = pr.returncode == 0
        if pr.returncode != 0:
            meta["patch_error"] = (pr.stdout + pr.stderr)[-500:]
        env1 = dict(env0, PYTHONPATH=scratch)
        r = run(["/venv/bin/python", "-W", "ignore", demo], env=env1, cwd="/var/tmp")
        meta["demo_patched_rc"] = r.returncode
        meta["demo_patched_tail"] = (r.stdout + r.stderr)[-600:]
        meta["ran"].append("PYTHONPATH=<patched> /venv/bin/python demo.py -> rc %d" % r.returncode)
        b = run([os.path.join(HERE, "tools", "baseline.sh"), scratch])
        meta["suite"] = b.stdout.strip().splitlines()[0] if b.stdout.strip() else "?"
        meta["suite_pass"] = b.returncode == 0
        meta["ran"].append("tools/baseline.sh <patched> -> %s" % meta["suite"])
        meta["check"] = []
        for s in seeds:
            t0 = time.time()
            c = run([os.path.join(HERE, "check"), prop, tier], env=dict(os.environ, VERIF_REPO=scratch, VERIF_SEED=str(s), VERIF_NO_EVIDENCE="1"))
            sigs = [l.strip() for l in c.stdout.splitlines() if l.strip().startswith("clause=")]
            meta["check"].append({"seed": s, "tier": tier, "rc": c.returncode, "signatures": sigs[:8], "wall_s": round(time.time() - t0, 1)})
            meta["ran"].append("VERIF_REPO=<patched> VERIF_SEED=%d ./check %s %s -> rc %d" % (s, prop, tier, c.returncode))
        meta["confirmed"] = bool(meta["demo_clean_rc"] == 0 and meta["patch_applies"] and meta["demo_patched_rc"] == 0 and meta["suite_pass"])
        meta["quiet"] = all(x["rc"] == 0 for x in meta["check"])
    finally:
        shutil.rmtree(scratch, ignore_errors=True)
    json.dump(meta, open(os.path.join(dst, "meta.json"), "w"), indent=1)
    print("%s %s confirmed=%s quiet=%s suite=%s sanity(clean,patched)=(%s,%s) sigs=%s" % (
        prop, name, meta["confirmed"], meta["quiet"], meta["suite"], meta["demo_clean_rc"], meta.get("demo_patched_rc"),
        [x["signatures"][:2] for x in meta["check"]]))


if __name__ == "__main__":
    main()
