#!/bin/bash
# Run the pinned suite on a repo tree (default /repo) and compare passes against BASELINE.json stable_pass.
# usage: tools/baseline.sh [repo_dir]
REPO=${1:-/repo}
OUT=$(mktemp /var/tmp/junit.XXXXXX.xml)
cd "$REPO" && /venv/bin/python -m pytest -ra -q -p no:cacheprovider --timeout=900 --continue-on-collection-errors --junitxml="$OUT" >/var/tmp/baseline.log 2>&1
/venv/bin/python - "$OUT" <<'PY'
import sys, json, xml.etree.ElementTree as ET
base = json.load(open('/root/.vp/BASELINE.json'))
want = set(base['stable_pass'])
t = ET.parse(sys.argv[1])
passed = set()
for tc in t.iter('testcase'):
    if any(c.tag in ('failure','error','skipped') for c in tc):
        continue
    passed.add(f"{tc.get('classname')}::{tc.get('name')}")
missing = sorted(want - passed)
print(f"passed={len(passed)} baseline={len(want)} missing={len(missing)}")
for m in missing[:40]: print("  MISSING", m)
sys.exit(1 if missing else 0)
PY
rc=$?
rm -f "$OUT"
exit $rc
