#!/bin/bash
# Soak: run every registered check's quick tier over a list of seeds; report anything that is not exit 0.
# usage: tools/soak.sh "11 12 13" [ids...]
SEEDS=${1:-"11 12 13"}; shift
IDS=${@:-$(cat ready.txt)}
for s in $SEEDS; do for p in $IDS; do
  out=$(VERIF_SEED=$s VERIF_NO_EVIDENCE=1 ./check $p quick 2>&1); rc=$?
  if [ $rc -ne 0 ]; then echo "=== $p seed=$s rc=$rc"; echo "$out" | grep -v "^KNOWN-FINDING" | head -30 | cut -c1-300; else echo "ok $p seed=$s $(echo "$out" | tail -1 | grep -o '[0-9.]*s$')"; fi
done; done
