#!/usr/bin/env python3
"""Re-run the checks against every confirmed seeded change at further seeds (detection must not be seed luck).

  tools/seedsoak.py --seeds 5,6 [name ...]

Only step 4 of seedcheck (patched scratch copy + ./check); writes seeded/<name>/meta.json["resoak"] and prints a
line per change; exit 1 if some change is missed at some seed."""
import json, os, shutil, subprocess, sys, tempfile
HERE = os.path.dirname(os.path.dirname(os.path.abspath(__file__)))


def main():
    args = sys.argv[1:]
    seeds = [5, 6]
    if "--seeds" in args:
        i = args.index("--seeds")
        seeds = [int(x) for x in args[i + 1].split(",")]
        del args[i:i + 2]
    names = args or sorted(os.listdir(os.path.join(HERE, "seeded")))
    missed = 0
    for name in names:
        d = os.path.join(HERE, "seeded", name)
        mp = os.path.join(d, "meta.json")
        if not os.path.exists(mp):
            continue
        meta = json.load(open(mp))
        if not meta.get("confirmed"):
            continue
        prop = meta["property"]
        scratch = tempfile.mkdtemp(prefix="verif-ss-", dir="/var/tmp")
        res = []
        try:
            subprocess.check_call(["rsync", "-a", "--exclude", ".git", "/repo/", scratch + "/"])
            subprocess.check_call(["patch", "-p1", "-s", "-d", scratch, "-i", os.path.join(d, "patch.diff")])
            for s in seeds:
                c = subprocess.run([os.path.join(HERE, "check"), prop, "quick"], capture_output=True, text=True,
                                   env=dict(os.environ, VERIF_REPO=scratch, VERIF_SEED=str(s), VERIF_NO_EVIDENCE="1"))
                sigs = [l.strip() for l in c.stdout.splitlines() if l.strip().startswith("clause=")]
                res.append({"seed": s, "rc": c.returncode, "signatures": sigs[:3]})
        finally:
            shutil.rmtree(scratch, ignore_errors=True)
        prev = [r for r in meta.get("resoak", []) if r["seed"] not in seeds]
        meta["resoak"] = prev + res
        json.dump(meta, open(mp, "w"), indent=1)
        ok = all(r["rc"] == 1 for r in res)
        missed += 0 if ok else 1
        print("%s %s %s" % (name, "ok" if ok else "MISSED", " ".join("s%d:rc%d" % (r["seed"], r["rc"]) for r in res)), flush=True)
    print("%d change(s) missed at some seed" % missed)
    sys.exit(1 if missed else 0)


if __name__ == "__main__":
    main()
