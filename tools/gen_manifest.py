#!/usr/bin/env python3
"""Regenerate MANIFEST.json from the table below and the modules present in props/."""
import glob, json, os, re
HERE = os.path.dirname(os.path.dirname(os.path.abspath(__file__)))
props = [json.loads(l) for l in open(os.path.join(HERE, "properties.jsonl"))]
present = {os.path.basename(p)[:3].upper() for p in glob.glob(os.path.join(HERE, "props", "c[0-9][0-9]_*.py"))}
# only modules reviewed and listed in ready.txt are registered
ready = {l.strip() for l in open(os.path.join(HERE, "ready.txt")) if l.strip()}
present &= ready

TECH = {
 "C01": "Hypothesis-generated images x ops; metamorphic identity-coordinate-image oracle + independent reference sampling map",
 "C02": "Hypothesis-generated shape x transform grid; reference evaluation + deep-digest non-mutation oracle",
 "C03": "Hypothesis-generated ordered class pairs and compose programs; reference homogeneous products, class-honesty predicate table; refused compositions / vectors must leave the receiver intact",
 "C04": "Hypothesis-generated invertible transforms; two-sided round trip + differential against a fresh reverse fit + numpy solve reference (incl. homographies mixing the homogeneous coordinate)",
 "C05": "Hypothesis-generated Vectorizable objects and vectors; round-trip + deep-digest non-mutation + reference raster layout",
 "C06": "Hypothesis-generated objects and landmark-manager op histories; buffer-aliasing walk + dict model",
 "C07": "Hypothesis-generated source/target sets; reference Kabsch/lstsq optimum, competitor search, interpolation and barycentric references",
 "C08": "Hypothesis-generated set_target histories; differential against fresh constructor with same options",
 "C09": "Hypothesis-generated apply histories with in-place edits and batch sizes; aliasing input forms (read-only views, strided / broadcast / frombuffer arrays edited by their owner); history-free reference evaluation",
 "C10": "Hypothesis-generated data with constructed spectra and trim histories; SVD reference + algebraic identities",
 "C11": "exhaustive compositions of n (small n) + Hypothesis-drawn splits; differential incremental vs batch + reference",
 "C12": "exhaustive small graphs + Hypothesis-drawn graphs/data; float64 reference precision assembly",
 "C13": "Hypothesis-generated crops/patches; bit-exact Python-index reference, three-way boundary contract, path equivalence, write-back round trip, re-used argument objects across call sequences (arguments never modified)",
 "C14": "exhaustive small-scope graph enumeration + Hypothesis random graphs; dict-of-sets reference algorithms",
 "C15": "Hypothesis-generated labelled graphs/selections replayed under several PYTHONHASHSEED processes; set-model reference; labeller grid with metamorphic commutation",
 "C16": "Hypothesis-generated objects and export/import histories on a temp dir; round-trip against a pristine twin + directory model; repeated exports of one live object never modify it",
 "C17": "Hypothesis-generated meshes/masks/motions; reference masking, geometric metamorphic relations, reference boundary/edge sets",
 "C18": "Hypothesis-generated images x features; array-vs-image differential, digest non-mutation, reference normalisation, independence of results of separate calls (no shared buffers)",
 "C19": "Hypothesis-generated lazy-list programs against a list-of-expression-trees model with an evaluation log",
 "C20": "Hypothesis-generated angles/quaternions/factors/objects; explicit reference matrices (Rodrigues, textbook quaternion), reconstruction round trips; histories of public changes with derived read-outs compared with a freshly constructed object",
}
checks = []
na = []
for p in props:
    pid = p["id"]
    if pid in present:
        checks.append({
            "property_id": pid,
            "quick_cmd": "./check %s quick" % pid,
            "thorough_cmd": "./check %s thorough" % pid,
            "evidence_file": "evidence/%s.json" % pid,
            "replay_cmd_template": "./check %s --replay {path}" % pid,
            "engine": "hypothesis-runner",
            "level_claimed": {
                "category": "exploration",
                "text": "Generated-input search (Hypothesis 6.168, seeded by VERIF_SEED, 16 worker processes) against explicit reference oracles; holds on every generated case, establishes nothing beyond the explored bounds (exhaustive only where the evidence says so).",
                "design_ref": "DESIGN.md section 3, %s" % pid,
            },
            "level_note": "Trusted: NumPy/SciPy numerics used by the reference models, the stated tolerances and input domains (DESIGN.md sections 2, 6), Hypothesis' generators. Open known findings (known_findings.json) are excluded by signature and counted in the evidence.",
            "technique": TECH[pid],
        })
    else:
        na.append({"property_id": pid, "reason": "check not built yet in this round (planned, see DESIGN.md section 3); nothing is claimed for it"})
hooks_commits = []
hp = os.path.join(HERE, "hooks_commits.txt")
if os.path.exists(hp):
    hooks_commits = [l.split()[0] for l in open(hp) if l.strip()]
m = {
 "version": 1,
 "setup_cmd": "./setup.sh",
 "hooks": {
  "guard": "MENPO_VERIF",
  "enable": "no source hooks are needed: checks import the working tree at $VERIF_REPO (default /repo) directly; menpo is pure Python here so there is no build step",
  "baseline_off_cmd": "cd /repo && /venv/bin/python -m pytest -ra -q -p no:cacheprovider --timeout=900 --continue-on-collection-errors",
  "source_commits": hooks_commits,
  "add_only": True,
 },
 "engines": [{"name": "hypothesis-runner", "path": "vlib/runner.py", "serves_properties": sorted(present), "kind_free_text": "property-based testing: Hypothesis strategies over plain-data cases, collect-then-shrink, replay files, known-finding matching"}],
 "checks": checks,
 "notes": "All checks: ./check <ID> <quick|thorough>; exit 0 held, 1 VIOLATION line(s), 2 harness error / degenerate generator. VERIF_SEED selects the seed; VERIF_REPO an alternative tree. New failing cases are written to out/replays/<ID>/ and replayed with ./check <ID> --replay <file>; committed regression corpus in replays/<ID>/.",
 "not_applicable": na,
}
json.dump(m, open(os.path.join(HERE, "MANIFEST.json"), "w"), indent=1)
print("checks:", [c["property_id"] for c in checks], "na:", len(na))
