#!/usr/bin/env python3
"""Cross-run: every behaviour-preserving change under /verif/benign against every OTHER property whose anchor files
it touches (a refactor written with one property in mind also runs under the checks of its neighbours).

  tools/benigncross.py [name ...] [--seed N]

For each benign/<name>/patch.diff: scratch copy of /repo under /var/tmp, apply, run `./check <P> quick` with
VERIF_REPO=<scratch> for each such property P; every run must exit 0.  Results go to benign/<name>/meta.json["cross"].
"""
import json, os, re, shutil, subprocess, sys, tempfile, time
HERE = os.path.dirname(os.path.dirname(os.path.abspath(__file__)))


def anchors():
    out = {}
    for l in open(os.path.join(HERE, "properties.jsonl")):
        d = json.loads(l)
        out[d["id"]] = set(d["anchors"]["files"])
    return out


def touched(patch):
    return set(re.findall(r"^\+\+\+ b/(\S+)", open(patch).read(), flags=re.M))


def main():
    args = sys.argv[1:]
    seed = "1"
    if "--seed" in args:
        i = args.index("--seed")
        seed = args[i + 1]
        del args[i:i + 2]
    names = args or sorted(os.listdir(os.path.join(HERE, "benign")))
    anc = anchors()
    bad = 0
    for name in names:
        d = os.path.join(HERE, "benign", name)
        mp = os.path.join(d, "meta.json")
        if not os.path.exists(mp):
            continue
        meta = json.load(open(mp))
        if meta.get("stale_after"):
            print("%s skipped (patch predates fix %s)" % (name, meta["stale_after"]))
            continue
        files = touched(os.path.join(d, "patch.diff"))
        props = sorted(p for p, fs in anc.items() if fs & files and p != meta["property"])
        scratch = tempfile.mkdtemp(prefix="verif-bx-", dir="/var/tmp")
        cross = []
        try:
            subprocess.check_call(["rsync", "-a", "--exclude", ".git", "/repo/", scratch + "/"])
            subprocess.check_call(["patch", "-p1", "-s", "-d", scratch, "-i", os.path.join(d, "patch.diff")])
            for p in props:
                t0 = time.time()
                c = subprocess.run([os.path.join(HERE, "check"), p, "quick"], capture_output=True, text=True,
                                   env=dict(os.environ, VERIF_REPO=scratch, VERIF_SEED=seed, VERIF_NO_EVIDENCE="1"))
                sigs = [l.strip() for l in c.stdout.splitlines() if l.strip().startswith("clause=")]
                cross.append({"property": p, "seed": int(seed), "rc": c.returncode, "signatures": sigs[:6], "wall_s": round(time.time() - t0, 1)})
                if c.returncode != 0:
                    bad += 1
        finally:
            shutil.rmtree(scratch, ignore_errors=True)
        meta["touched_files"] = sorted(files)
        meta["cross"] = cross
        meta["cross_quiet"] = all(x["rc"] == 0 for x in cross)
        json.dump(meta, open(mp, "w"), indent=1)
        print("%s touches %s: %s" % (name, ",".join(sorted(os.path.basename(f) for f in files)),
                                     " ".join("%s:%s" % (x["property"], "quiet" if x["rc"] == 0 else "ALARM(rc=%d %s)" % (x["rc"], x["signatures"][:2])) for x in cross) or "-"), flush=True)
    print("%d alarm(s)" % bad)


if __name__ == "__main__":
    main()
