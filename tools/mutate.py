#!/usr/bin/env python3
"""Sensitivity harness: apply one textual mutant to a scratch copy of /repo (never /repo itself),
run the property's check against it and expect exit 1 with a VIOLATION line.

  tools/mutate.py C20                 # all mutants of C20, quick tier, seed 1
  tools/mutate.py C20 --seeds 1,2,3
  tools/mutate.py C20 --baseline      # also run the pinned suite on the mutant (must still pass)
  tools/mutate.py --all
Mutants live in tools/mutants/<ID>.json: {"id","property","file","old","new","note"}; `old` must occur
exactly once in `file` (or `count` times, all replaced).
"""
import json, os, shutil, subprocess, sys, tempfile
HERE = os.path.dirname(os.path.dirname(os.path.abspath(__file__)))

def main():
    args = sys.argv[1:]
    seeds = [1]
    baseline = False
    ids = []
    only_mut = None
    i = 0
    while i < len(args):
        a = args[i]
        if a == "--seeds": seeds = [int(x) for x in args[i+1].split(",")]; i += 1
        elif a == "--baseline": baseline = True
        elif a == "--all": ids = None
        elif a == "--mutant": only_mut = args[i+1]; i += 1
        else: ids.append(a.upper())
        i += 1
    import glob
    muts = []
    for f in sorted(glob.glob(os.path.join(HERE, "tools", "mutants", "*.json"))):
        muts.extend(json.load(open(f)))
    results = []
    for m in muts:
        if ids is not None and m["property"] not in ids: continue
        if only_mut and m["id"] != only_mut: continue
        scratch = tempfile.mkdtemp(prefix="verif-mut-", dir="/var/tmp")
        try:
            subprocess.check_call(["rsync", "-a", "--exclude", ".git", "/repo/", scratch + "/"])
            if "revert_commit" in m:
                c = m["revert_commit"]
                diff = subprocess.check_output(["git", "-C", "/repo", "diff", c + "~1", c])
                pr = subprocess.run(["patch", "-R", "-p1", "-s", "-d", scratch], input=diff, capture_output=True)
                if pr.returncode != 0:
                    results.append((m["id"], "STALE (cannot revert %s: %s)" % (c, pr.stdout.decode()[-200:])))
                    print(results[-1][0], results[-1][1], flush=True); continue
            else:
                p = os.path.join(scratch, m["file"])
                src = open(p).read()
                cnt = src.count(m["old"])
                if cnt != m.get("count", 1):
                    results.append((m["id"], "STALE (old occurs %d times)" % cnt))
                    print(results[-1][0], results[-1][1], flush=True); continue
                open(p, "w").write(src.replace(m["old"], m["new"]))
            status = []
            if baseline:
                rc = subprocess.call([os.path.join(HERE, "tools", "baseline.sh"), scratch], stdout=subprocess.DEVNULL)
                status.append("suite=%s" % ("pass" if rc == 0 else "FAIL"))
            for s in seeds:
                env = dict(os.environ, VERIF_REPO=scratch, VERIF_SEED=str(s))
                pr = subprocess.run([os.path.join(HERE, "check"), m["property"], "quick"], env=env, capture_output=True, text=True)
                viol = [l for l in pr.stdout.splitlines() if l.startswith("VIOLATION")]
                sigs = [l.strip() for l in pr.stdout.splitlines() if l.strip().startswith("clause=")]
                status.append("seed%d:rc=%d,%dviol" % (s, pr.returncode, len(viol)))
                if pr.returncode != 1:
                    status.append("MISSED")
                elif s == seeds[0]:
                    status.append(";".join(sigs[:3]))
            results.append((m["id"], " ".join(status)))
        finally:
            shutil.rmtree(scratch, ignore_errors=True)
        print(results[-1][0], results[-1][1], flush=True)
    missed = [r for r in results if "MISSED" in r[1] or "STALE" in r[1] or "FAIL" in r[1]]
    print("\n%d mutants, %d need attention" % (len(results), len(missed)))
    return 1 if missed else 0

if __name__ == "__main__":
    sys.exit(main())
