#!/bin/bash
# Confirm and run every delivered change of a seeding round that has no meta.json yet.
# usage: tools/seedround.sh <outdir e.g. /tmp/seed5/out> <suffix e.g. r5> [parallel]
OUT=$1; SUF=$2; PAR=${3:-3}
cd "$(dirname "$0")/.."
for d in $OUT/C*/A $OUT/C*/B; do
  case " ${ONLY:-} " in "  ") ;; *" $(basename $(dirname $d)) "*) ;; *) continue;; esac
  [ -f $d/patch.diff ] && [ -f $d/demo.py ] || continue
  id=$(basename $(dirname $d)); ab=$(basename $d | tr 'AB' 'ab'); name=$id-$SUF$ab
  [ -f seeded/$name/meta.json ] && continue
  echo "$id $d $name"
done | xargs -P $PAR -L 1 bash -c '/venv/bin/python tools/seedcheck.py $0 $1 $2 --seeds 1,2 2>&1 | tail -1'
